"""SMT-LIB2 term construction (as strings) and solver drivers (z3 / z3-new / cvc5 CLIs).

Terms are plain s-expression strings.  Light constant folding keeps the
symbolic executor from forking on trivially decided conditions.
"""
from __future__ import annotations

import os
import re
import subprocess
import tempfile
import time
from typing import Dict, Iterable, List, Optional, Sequence, Tuple

TRUE = "true"
FALSE = "false"


def sstr(py: str) -> str:
    """Python str -> SMT-LIB 2.6 string literal."""
    out = []
    for ch in py:
        o = ord(ch)
        if ch == '"':
            out.append('""')
        elif 32 <= o < 127 and ch != "\\":
            out.append(ch)
        else:
            out.append("\\u{%x}" % o)
    return '"' + "".join(out) + '"'


def sint(n: int) -> str:
    return str(n) if n >= 0 else f"(- {-n})"


def sreal(x: float) -> str:
    from fractions import Fraction

    fr = Fraction(x)
    num = sint(fr.numerator) if fr.numerator >= 0 else f"(- {-fr.numerator})"
    return f"(/ {num}.0 {fr.denominator}.0)" if fr.denominator != 1 else (f"{fr.numerator}.0" if fr.numerator >= 0 else f"(- {-fr.numerator}.0)")


def And(*ts: str) -> str:
    flat: List[str] = []
    for t in ts:
        if t == TRUE:
            continue
        if t == FALSE:
            return FALSE
        flat.append(t)
    # de-duplicate, keep order
    seen = []
    for t in flat:
        if t not in seen:
            seen.append(t)
    if not seen:
        return TRUE
    if len(seen) == 1:
        return seen[0]
    return "(and " + " ".join(seen) + ")"


def Or(*ts: str) -> str:
    flat: List[str] = []
    for t in ts:
        if t == FALSE:
            continue
        if t == TRUE:
            return TRUE
        flat.append(t)
    seen = []
    for t in flat:
        if t not in seen:
            seen.append(t)
    if not seen:
        return FALSE
    if len(seen) == 1:
        return seen[0]
    return "(or " + " ".join(seen) + ")"


def Not(t: str) -> str:
    if t == TRUE:
        return FALSE
    if t == FALSE:
        return TRUE
    if t.startswith("(not ") and t.endswith(")") and _balanced(t[5:-1]):
        return t[5:-1]
    return f"(not {t})"


def _balanced(s: str) -> bool:
    d = 0
    instr = False
    i = 0
    if not s:
        return False
    if s[0] != "(":
        return " " not in s
    while i < len(s):
        c = s[i]
        if instr:
            if c == '"':
                instr = False
        elif c == '"':
            instr = True
        elif c == "(":
            d += 1
        elif c == ")":
            d -= 1
            if d == 0 and i != len(s) - 1:
                return False
        i += 1
    return d == 0


def Implies(a: str, b: str) -> str:
    if a == TRUE:
        return b
    if a == FALSE or b == TRUE:
        return TRUE
    return f"(=> {a} {b})"


_INT_LIT = re.compile(r"^(\d+|\(- \d+\))$")
_STR_LIT = re.compile(r'^"([^"]|"")*"$')


def is_int_lit(t: str) -> bool:
    return bool(_INT_LIT.match(t))


def int_val(t: str) -> int:
    return int(t) if t[0] != "(" else -int(t[3:-1])


def is_str_lit(t: str) -> bool:
    return bool(_STR_LIT.match(t))


def Eq(a: str, b: str) -> str:
    if a == b:
        return TRUE
    if is_int_lit(a) and is_int_lit(b):
        return TRUE if int_val(a) == int_val(b) else FALSE
    if is_str_lit(a) and is_str_lit(b):
        return TRUE if a == b else FALSE
    if a in (TRUE, FALSE) and b in (TRUE, FALSE):
        return TRUE if a == b else FALSE
    if b == TRUE:
        return a
    if a == TRUE:
        return b
    if b == FALSE:
        return Not(a)
    if a == FALSE:
        return Not(b)
    return f"(= {a} {b})"


def Ite(c: str, a: str, b: str) -> str:
    if c == TRUE:
        return a
    if c == FALSE:
        return b
    if a == b:
        return a
    return f"(ite {c} {a} {b})"


def _cmp(op: str, a: str, b: str) -> str:
    if is_int_lit(a) and is_int_lit(b):
        x, y = int_val(a), int_val(b)
        r = {"<": x < y, "<=": x <= y, ">": x > y, ">=": x >= y}[op]
        return TRUE if r else FALSE
    return f"({op} {a} {b})"


def Lt(a, b):
    return _cmp("<", a, b)


def Le(a, b):
    return _cmp("<=", a, b)


def Gt(a, b):
    return _cmp(">", a, b)


def Ge(a, b):
    return _cmp(">=", a, b)


def Add(a, b):
    if is_int_lit(a) and is_int_lit(b):
        return sint(int_val(a) + int_val(b))
    return f"(+ {a} {b})"


def Sub(a, b):
    if is_int_lit(a) and is_int_lit(b):
        return sint(int_val(a) - int_val(b))
    return f"(- {a} {b})"


def Concat(*ts: str) -> str:
    parts: List[str] = []
    for t in ts:
        if t == '""':
            continue
        if parts and is_str_lit(parts[-1]) and is_str_lit(t):
            parts[-1] = parts[-1][:-1] + t[1:]
        else:
            parts.append(t)
    if not parts:
        return '""'
    if len(parts) == 1:
        return parts[0]
    return "(str.++ " + " ".join(parts) + ")"


def Contains(hay: str, needle: str) -> str:
    return f"(str.contains {hay} {needle})"


def ToReal(i: str) -> str:
    if is_int_lit(i):
        v = int_val(i)
        return f"{v}.0" if v >= 0 else f"(- {-v}.0)"
    return f"(to_real {i})"


# ----------------------------------------------------------------------------
# solver drivers
# ----------------------------------------------------------------------------

SOLVERS: Dict[str, List[str]] = {
    "z3": ["/usr/bin/z3", "-in", "-smt2"],
    "z3-new": ["z3-new", "-in", "-smt2"],
    "cvc5": ["/usr/bin/cvc5", "--lang=smt2", "--incremental", "--strings-exp", "--produce-models", "-"],
}


class SolverError(Exception):
    pass


def run_script(solver: str, script: str, timeout_s: float) -> Tuple[str, float]:
    """Run an SMT-LIB script, return (stdout, wall seconds)."""
    cmd = list(SOLVERS[solver])
    t0 = time.time()
    if solver == "cvc5":
        # cvc5 1.0.3 reads stdin with "-"? use a temp file to be safe.
        with tempfile.NamedTemporaryFile("w", suffix=".smt2", delete=False) as f:
            f.write(script)
            path = f.name
        try:
            cmd = cmd[:-1] + [path]
            p = subprocess.run(cmd, capture_output=True, text=True, timeout=timeout_s)
        except subprocess.TimeoutExpired:
            return "timeout", time.time() - t0
        finally:
            os.unlink(path)
    else:
        try:
            p = subprocess.run(cmd, input=script, capture_output=True, text=True, timeout=timeout_s)
        except subprocess.TimeoutExpired:
            return "timeout", time.time() - t0
    return p.stdout + ("\n" + p.stderr if p.stderr.strip() else ""), time.time() - t0


def prelude(per_query_timeout_ms: int, solver: str) -> str:
    lines = ["(set-option :produce-models true)"]
    if solver.startswith("z3"):
        lines.append(f"(set-option :timeout {per_query_timeout_ms})")
    else:
        lines.append(f"(set-option :tlimit-per {per_query_timeout_ms})")
    lines.append("(set-logic ALL)")
    return "\n".join(lines) + "\n"


def parse_results(out: str, n: int) -> List[str]:
    """Extract the sequence of check-sat answers."""
    if "(error" in out:
        # an assertion the solver rejected is silently dropped by it: no answer of this run can be trusted
        i = out.index("(error")
        raise SolverError(f"solver reported an error: {out[i:i + 600]}")
    res = [ln.strip() for ln in out.splitlines() if ln.strip() in ("sat", "unsat", "unknown", "timeout")]
    if len(res) != n:
        raise SolverError(f"expected {n} answers, got {len(res)}: {out[:2000]}")
    return res


_MODEL_ENTRY = re.compile(r"\(\s*([^\s()]+)\s+(.*?)\)\s*(?=\(|\)$|$)", re.S)


def parse_get_value(out: str) -> Dict[str, str]:
    """Parse the output of (get-value (a b c)) into {name: value-sexpr}."""
    m = out.find("((")
    if m < 0:
        m = out.find("( (")
    if m < 0:
        return {}
    txt = out[m:]
    # tokenise s-expr
    toks = re.findall(r'"(?:[^"]|"")*"|\|[^|]*\||\(|\)|[^\s()]+', txt)
    pos = 0

    def parse():
        nonlocal pos
        t = toks[pos]
        pos += 1
        if t == "(":
            lst = []
            while toks[pos] != ")":
                lst.append(parse())
            pos += 1
            return lst
        return t

    try:
        tree = parse()
    except IndexError:
        return {}
    vals: Dict[str, str] = {}
    for ent in tree:
        if isinstance(ent, list) and len(ent) == 2 and isinstance(ent[0], str):
            vals[ent[0]] = ent[1]
    return vals


def sexpr_to_py(v):
    """Model value (parsed s-expr) -> Python value (int / float / bool / str)."""
    if isinstance(v, list):
        if len(v) == 2 and v[0] == "-":
            x = sexpr_to_py(v[1])
            return -x
        if len(v) == 3 and v[0] == "/":
            return sexpr_to_py(v[1]) / sexpr_to_py(v[2])
        if len(v) == 2 and v[0] == "to_real":
            return float(sexpr_to_py(v[1]))
        raise ValueError(f"cannot convert {v}")
    if v == "true":
        return True
    if v == "false":
        return False
    if v.startswith('"'):
        s = v[1:-1].replace('""', '"')
        s = re.sub(r"\\u\{([0-9a-fA-F]+)\}", lambda m: chr(int(m.group(1), 16)), s)
        s = re.sub(r"\\x([0-9a-fA-F]{2})", lambda m: chr(int(m.group(1), 16)), s)
        return s
    if re.match(r"^-?\d+$", v):
        return int(v)
    if re.match(r"^-?\d+\.\d*$", v):
        return float(v)
    raise ValueError(f"cannot convert {v}")
