"""Evaluate the SMT-LIB terms pyvc emits under a concrete assignment (three-valued: None = unknown).

Used by the encoder-vs-CPython differential: the path a concrete input takes according to the encoding must be the
path the real code takes."""
from __future__ import annotations

import re
from typing import Any, Dict, List, Optional

TOK = re.compile(r'"(?:[^"]|"")*"|\|[^|]*\||\(|\)|[^\s()]+')


import functools


@functools.lru_cache(maxsize=200000)
def parse(term: str):
    """Parsed term (nested lists of tokens).  Cached: the differential evaluates the same path conditions under thousands of
    assignments; callers never mutate the result."""
    toks = TOK.findall(term)
    pos = 0

    def rd():
        nonlocal pos
        t = toks[pos]
        pos += 1
        if t == "(":
            lst = []
            while toks[pos] != ")":
                lst.append(rd())
            pos += 1
            return lst
        return t

    return rd()


_INT = re.compile(r"-?\d+")
_REAL = re.compile(r"-?\d+\.\d*")
_UESC = re.compile(r"\\u\{([0-9a-fA-F]+)\}")


@functools.lru_cache(maxsize=200000)
def _lit(tok: str):
    if tok == "true":
        return True
    if tok == "false":
        return False
    if tok.startswith('"'):
        s = tok[1:-1].replace('""', '"')
        return _UESC.sub(lambda m: chr(int(m.group(1), 16)), s)
    if _INT.fullmatch(tok):
        return int(tok)
    if _REAL.fullmatch(tok):
        return float(tok)
    return KeyError


def ev(t, env: Dict[str, Any]) -> Any:
    if isinstance(t, str):
        v = _lit(t)
        if v is not KeyError:
            return v
        return env.get(t)
    op = t[0]
    if op == "and":
        res = True
        for a in t[1:]:
            v = ev(a, env)
            if v is False:
                return False
            if v is None:
                res = None
        return res
    if op == "or":
        res = False
        for a in t[1:]:
            v = ev(a, env)
            if v is True:
                return True
            if v is None:
                res = None
        return res
    if op == "not":
        v = ev(t[1], env)
        return None if v is None else (not v)
    if op == "=>":
        a = ev(t[1], env)
        if a is False:
            return True
        b = ev(t[2], env)
        if b is True:
            return True
        return None if a is None or b is None else (not a or b)
    if op == "ite":
        c = ev(t[1], env)
        if c is None:
            return None
        return ev(t[2] if c else t[3], env)
    args = [ev(a, env) for a in t[1:]]
    if any(a is None for a in args):
        return None
    if op == "=":
        return all(_eq(args[0], a) for a in args[1:])
    if op == "<":
        return args[0] < args[1]
    if op == "<=":
        return args[0] <= args[1]
    if op == ">":
        return args[0] > args[1]
    if op == ">=":
        return args[0] >= args[1]
    if op == "+":
        return sum(args)
    if op == "-":
        return -args[0] if len(args) == 1 else args[0] - sum(args[1:])
    if op == "*":
        r = 1
        for a in args:
            r *= a
        return r
    if op == "str.++":
        return "".join(args)
    if op == "str.contains":
        return args[1] in args[0]
    if op == "str.len":
        return len(args[0])
    if op == "to_real":
        return float(args[0])
    if op == "to_int":
        import math

        return math.floor(args[0])
    return None


def _eq(a, b) -> bool:
    if isinstance(a, bool) or isinstance(b, bool):
        return isinstance(a, bool) and isinstance(b, bool) and a == b
    return a == b


def holds(terms: List[str], env: Dict[str, Any]) -> Optional[bool]:
    res: Optional[bool] = True
    for term in terms:
        v = ev(parse(term), env)
        if v is False:
            return False
        if v is None:
            res = None
    return res
