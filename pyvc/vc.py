"""Verification-condition generation and discharge for one function under a contract."""
from __future__ import annotations

import concurrent.futures as cf
import time
from dataclasses import dataclass, field
from typing import Any, Callable, Dict, List, Optional, Tuple

from . import smt
from .smt import And, Not, TRUE, FALSE
from .symex import (
    Contract,
    Ctx,
    FunctionInfo,
    Interp,
    Path,
    PyRaise,
    SRaise,
    SReturn,
    Unsupported,
    V,
    VDyn,
    VExc,
    World,
    _Return,
    dyn_range_constraint,
    explore,
    new_value,
    values_equal,
)


@dataclass
class Obligation:
    name: str
    kind: str  # 'post' | 'reach' | 'call-pre' | 'lemma'
    decls: List[str]
    asserts: List[str]
    expect: str  # 'unsat' or 'sat'
    meta: Dict[str, Any] = field(default_factory=dict)
    # filled by solving
    answer: Optional[str] = None
    backend: Optional[str] = None
    model: Optional[Dict[str, Any]] = None
    solver_output: str = ""

    @property
    def ok(self) -> bool:
        return self.answer == self.expect

    @property
    def undecided(self) -> bool:
        return self.answer not in ("sat", "unsat")


@dataclass
class FunctionReport:
    function: str
    source: str
    obligations: List[Obligation]
    unsupported: Optional[str] = None
    paths: int = 0
    solver_s: float = 0.0
    paths_full: List[Any] = field(default_factory=list)  # (path condition, implementation outcome) per path, for the differential

    @property
    def failed(self) -> List[Obligation]:
        return [o for o in self.obligations if o.expect == "unsat" and o.answer == "sat"]

    @property
    def undecided(self) -> List[Obligation]:
        return [o for o in self.obligations if o.undecided]

    @property
    def discharged(self) -> List[Obligation]:
        return [o for o in self.obligations if o.expect == "unsat" and o.answer == "unsat"]


def describe_value(v: V) -> str:
    return repr(v)[:200]


def make_args(ctx: Ctx, contract: Contract) -> Dict[str, V]:
    args: Dict[str, V] = {}
    for name, spec in contract.params:
        if callable(spec):
            args[name] = spec(ctx, name)
        else:
            args[name] = new_value(ctx, name, list(spec))
            ctx.assume(dyn_range_constraint(ctx, args[name]))
    return args


def generate(world: World, interp: Interp, fi: FunctionInfo, contract: Contract, label: str) -> FunctionReport:
    """Symbolically execute fi under contract; produce obligations (unsolved)."""

    def run(ctx: Ctx):
        args = make_args(ctx, contract)
        pre = contract.pre(ctx, args)
        ctx.assume(pre)
        ctx.ghost["inline:" + fi.qualname] = True  # the function itself is executed, callees by contract
        order = [p[0] for p in contract.params]
        try:
            try:
                rv = interp.exec_function(ctx, fi, [args[n] for n in order], {})
                impl = ("return", rv)
            except _Return as r:  # pragma: no cover
                impl = ("return", r.v)
        except PyRaise as e:
            impl = ("raise", e.exc, e.args_v)
        ctx.ghost.pop("inline:" + fi.qualname, None)
        n_impl_pc = len(ctx.pc)
        spec = contract.spec(ctx, args)
        # match
        if isinstance(spec, SReturn):
            if impl[0] == "return":
                m = values_equal(ctx, impl[1], spec.v)
            else:
                m = FALSE
        elif isinstance(spec, SRaise):
            if impl[0] == "raise" and impl[1] == spec.exc:
                try:
                    m = spec.pred(ctx, impl[2]) if spec.pred else TRUE
                except PyRaise:
                    m = FALSE
            else:
                m = FALSE
        else:
            raise Unsupported("spec outcome")
        return {"impl": impl, "spec": spec, "match": m, "n_impl_pc": n_impl_pc, "args": args}

    rep = FunctionReport(function=label, source=fi.source_file, obligations=[])
    try:
        paths = explore(world, run)
    except Unsupported as u:
        rep.unsupported = str(u)
        return rep
    rep.paths = len(paths)
    rep.paths_full = [(list(p.pc[: p.outcome["n_impl_pc"]]), p.outcome["impl"]) for p in paths]
    for i, p in enumerate(paths):
        out = p.outcome
        impl = out["impl"]
        desc = f"{impl[0]} {describe_value(impl[1]) if impl[0]=='return' else impl[1]}"
        spec = out["spec"]
        sdesc = f"return {describe_value(spec.v)}" if isinstance(spec, SReturn) else f"raise {spec.exc}"
        meta = {"path": i, "decisions": p.decisions, "impl": desc, "spec": sdesc}
        rep.obligations.append(Obligation(f"{label}:path{i}:reach", "reach", p.decls, list(p.pc), "sat", dict(meta)))
        rep.obligations.append(Obligation(f"{label}:path{i}:post", "post", p.decls, list(p.pc) + [Not(out["match"])], "unsat", dict(meta)))
        for j, (lab, t) in enumerate(p.side_obligations):
            rep.obligations.append(Obligation(f"{label}:path{i}:{lab}#{j}", "call-pre", p.decls, [t], "unsat", dict(meta)))
    return rep


def _decl_name(decl: str) -> str:
    body = decl[len("(declare-const ") :]
    if body.startswith("|"):
        return body[: body.index("|", 1) + 1]
    return body.split()[0]


import re as _re

_SIMPLE_SYMBOL = _re.compile(r"^[A-Za-z~!@$%^&*_\-+=<>.?/][A-Za-z0-9~!@$%^&*_\-+=<>.?/]*$")


def _check_symbols(decls: List[str]):
    for d in decls:
        if d.startswith("(declare-const "):
            n = _decl_name(d)
            if not (n.startswith("|") and n.endswith("|") and "|" not in n[1:-1]) and not _SIMPLE_SYMBOL.match(n):
                raise smt.SolverError(f"not a legal SMT-LIB symbol: {n!r}")


def build_script(world: World, obligations: List[Obligation], solver: str, timeout_ms: int, with_models: bool = False) -> str:
    seen_decl_lists = set()
    for ob in obligations:
        if id(ob.decls) not in seen_decl_lists:
            seen_decl_lists.add(id(ob.decls))
            _check_symbols(ob.decls)
    lines = [smt.prelude(timeout_ms, solver)]
    lines.extend(world.global_decls)
    for ax in world.global_axioms:
        lines.append(f"(assert {ax})")
    for ob in obligations:
        lines.append(f"; {ob.name}")
        lines.append("(push 1)")
        lines.extend(ob.decls)
        for a in ob.asserts:
            if a != TRUE:
                lines.append(f"(assert {a})")
        lines.append("(check-sat)")
        if with_models:
            names = [_decl_name(d) for d in ob.decls if d.startswith("(declare-const")]
            if names:
                lines.append("(get-value (" + " ".join(names) + "))")
        lines.append("(pop 1)")
    return "\n".join(lines) + "\n"


def solve(world: World, obligations: List[Obligation], solvers=("z3", "cvc5"), timeout_ms: int = 10000) -> float:
    """Discharge obligations: first solver on all; unknowns handed to the next one.  Returns solver seconds."""
    total = 0.0
    pending = [o for o in obligations if o.answer is None]
    for si, solver in enumerate(solvers):
        if not pending:
            break
        script = build_script(world, pending, solver, timeout_ms)
        out, dt = smt.run_script(solver, script, timeout_s=max(30.0, len(pending) * timeout_ms / 1000.0 + 10))
        total += dt
        try:
            answers = smt.parse_results(out, len(pending))
        except smt.SolverError as e:
            answers = ["unknown"] * len(pending)
            for o in pending:
                o.solver_output = str(e)[:500]
        nxt = []
        for o, a in zip(pending, answers):
            if a in ("sat", "unsat"):
                o.answer, o.backend = a, solver
            else:
                o.answer = a
                nxt.append(o)
        pending = nxt
    # models for failed 'unsat-expected' obligations
    for o in obligations:
        if o.expect == "unsat" and o.answer == "sat":
            script = build_script(world, [o], o.backend or solvers[0], timeout_ms, with_models=True)
            out, dt = smt.run_script(o.backend or solvers[0], script, timeout_s=timeout_ms / 1000.0 + 10)
            total += dt
            o.solver_output = out[-4000:]
            raw = smt.parse_get_value(out)
            model = {}
            for k, v in raw.items():
                try:
                    model[k] = smt.sexpr_to_py(v)
                except Exception:
                    model[k] = str(v)
            o.model = model
    return total


def cross_check(world: World, obligations: List[Obligation], solver: str, timeout_ms: int = 10000) -> Tuple[int, List[str], float]:
    """Re-run decided obligations on a second solver; return (#agree, disagreements, seconds)."""
    decided = [o for o in obligations if o.answer in ("sat", "unsat")]
    if not decided:
        return 0, [], 0.0
    script = build_script(world, decided, solver, timeout_ms)
    out, dt = smt.run_script(solver, script, timeout_s=max(30.0, len(decided) * timeout_ms / 1000.0 + 10))
    try:
        answers = smt.parse_results(out, len(decided))
    except smt.SolverError as e:
        return 0, [f"solver error: {e}"], dt
    agree = 0
    dis = []
    for o, a in zip(decided, answers):
        if a == o.answer:
            agree += 1
        elif a in ("sat", "unsat"):
            dis.append(f"{o.name}: {o.backend}={o.answer} {solver}={a}")
    return agree, dis, dt


def generate_post(world: World, interp: Interp, fi: FunctionInfo, params, pre, post, label: str) -> FunctionReport:
    """Relational contract: post(ctx, args, impl_outcome) -> Bool term that must hold on every path."""

    def run(ctx: Ctx):
        args = {}
        for name, spec in params:
            if callable(spec):
                args[name] = spec(ctx, name)
            else:
                args[name] = new_value(ctx, name, list(spec))
                ctx.assume(dyn_range_constraint(ctx, args[name]))
        ctx.assume(pre(ctx, args))
        ctx.ghost["inline:" + fi.qualname] = True
        try:
            rv = interp.exec_function(ctx, fi, [args[n] for n, _ in params], {})
            impl = ("return", rv)
        except PyRaise as e:
            impl = ("raise", e.exc, e.args_v)
        ctx.ghost.pop("inline:" + fi.qualname, None)
        try:
            m = post(ctx, args, impl)
        except PyRaise:
            m = FALSE
        return {"impl": impl, "match": m}

    rep = FunctionReport(function=label, source=fi.source_file, obligations=[])
    try:
        paths = explore(world, run)
    except Unsupported as u:
        rep.unsupported = str(u)
        return rep
    rep.paths = len(paths)
    for i, p in enumerate(paths):
        impl = p.outcome["impl"]
        desc = f"{impl[0]} {describe_value(impl[1]) if impl[0]=='return' else impl[1]}"
        meta = {"path": i, "decisions": p.decisions, "impl": desc, "spec": "relational postcondition"}
        rep.obligations.append(Obligation(f"{label}:path{i}:reach", "reach", p.decls, list(p.pc), "sat", dict(meta)))
        rep.obligations.append(Obligation(f"{label}:path{i}:post", "post", p.decls, list(p.pc) + [Not(p.outcome["match"])], "unsat", dict(meta)))
        for j, (lab, t) in enumerate(p.side_obligations):
            rep.obligations.append(Obligation(f"{label}:path{i}:{lab}#{j}", "call-pre", p.decls, [t], "unsat", dict(meta)))
    return rep
