"""Load real source files into a World: functions (ast nodes), module constants, classes."""
from __future__ import annotations

import ast
import os
from typing import Dict, List, Optional

from .symex import (
    ClassInfo,
    Ctx,
    FieldSpec,
    FunctionInfo,
    Interp,
    Unsupported,
    PyRaise,
    V,
    VFunc,
    VModule,
    VTable,
    VClass,
    World,
    builtins_namespace,
)
from . import smt

REPO = os.environ.get("VERIF_REPO", "/repo")


def read_ast(path: str) -> ast.Module:
    with open(path, "r", encoding="utf-8") as f:
        return ast.parse(f.read(), filename=path)


def new_world() -> World:
    w = World()
    w.namespaces["builtins"] = builtins_namespace()
    return w


def load_module(world: World, interp: Interp, path: str, ns_name: str, rel: Optional[str] = None, tables: Optional[List[str]] = None) -> ast.Module:
    """Register every top-level function (and class methods) of the file; evaluate simple module constants.

    tables: names of module-level list/dict constants to expose as VTable (membership via uninterpreted predicate).
    """
    tree = read_ast(path)
    rel = rel or os.path.relpath(path, REPO)
    ns: Dict[str, V] = world.namespaces.setdefault(ns_name, {})
    ctx = Ctx(world, [])
    dummy = FunctionInfo(f"{rel}::<module>", None, None, rel, ns_name)
    for node in tree.body:
        if isinstance(node, ast.FunctionDef):
            q = f"{rel}::{node.name}"
            world.functions[q] = FunctionInfo(q, node, None, rel, ns_name)
            ns[node.name] = VFunc(q)
        elif isinstance(node, ast.ClassDef):
            for sub in node.body:
                if isinstance(sub, ast.FunctionDef):
                    q = f"{rel}::{node.name}.{sub.name}"
                    world.functions[q] = FunctionInfo(q, sub, None, rel, ns_name)
            ns.setdefault(node.name, VClass(node.name, world.class_id(node.name)))
        elif isinstance(node, ast.Import):
            for al in node.names:
                top = al.name.split(".")[0]
                ns.setdefault(al.asname or top, VModule(al.name if al.asname else top))
        elif isinstance(node, ast.ImportFrom):
            for al in node.names:
                if (al.asname or al.name) not in ns:
                    from .symex import VExternal

                    ns[al.asname or al.name] = VExternal(f"{node.module}.{al.name}")
        elif isinstance(node, (ast.Assign, ast.AnnAssign)):
            tgt = node.targets[0] if isinstance(node, ast.Assign) else node.target
            if isinstance(tgt, ast.Name) and node.value is not None:
                if tables and tgt.id in tables:
                    try:
                        py = ast.literal_eval(node.value)
                    except Exception:
                        py = None
                    ns[tgt.id] = VTable(tgt.id, py)
                    continue
                try:
                    ns[tgt.id] = interp.eval(ctx, node.value, {}, dummy)
                except (Unsupported, PyRaise, Exception):
                    pass
    return tree


def find_function(tree: ast.AST, dotted: str) -> ast.AST:
    """Find a (possibly nested) def by dotted path, e.g. 'Position.__eq__' or 'outer.inner'."""
    cur = tree
    for part in dotted.split("."):
        found = None
        for node in ast.iter_child_nodes(cur) if not isinstance(cur, (ast.Module, ast.ClassDef, ast.FunctionDef)) else cur.body:
            if isinstance(node, (ast.FunctionDef, ast.ClassDef)) and node.name == part:
                found = node
                break
        if found is None:
            raise KeyError(dotted)
        cur = found
    return cur
