"""Symbolic executor for a subset of Python, working on the *real* ast nodes.

Exploration is replay-based: the interpreter is ordinary direct-style code; every
fork calls ``ctx.choose([...conditions...])`` which follows a prescribed decision
trace and records the branch condition in the path condition.  ``explore`` re-runs
the interpreter with successive traces until the decision tree is exhausted.

Values carry SMT terms (strings, see smt.py).  Every value on a path has a
definite Python kind; a ``VDyn`` (value of statically unknown kind) is *forced*
into one of its alternatives by forking.
"""
from __future__ import annotations

import ast
from dataclasses import dataclass, field
from typing import Any, Callable, Dict, List, Optional, Sequence, Tuple

from . import smt
from .smt import And, Eq, Ite, Not, Or, TRUE, FALSE


class Unsupported(Exception):
    """Construct outside the supported subset: function is undecided, never a violation."""


class PyRaise(Exception):
    """A Python exception raised by the program under symbolic execution."""

    def __init__(self, exc: str, args: Sequence["V"] = (), note: str = ""):
        super().__init__(exc)
        self.exc = exc
        self.args_v = list(args)
        self.note = note


class _Return(Exception):
    def __init__(self, v: "V"):
        self.v = v


class _Break(Exception):
    pass


class _Continue(Exception):
    pass


class Infeasible(Exception):
    """Path abandoned because a branch condition is syntactically false."""


# ----------------------------------------------------------------------------
# values
# ----------------------------------------------------------------------------


class V:
    kind = "?"


class VNone(V):
    kind = "none"

    def __repr__(self):
        return "None"


class VNotImpl(V):
    kind = "notimpl"

    def __repr__(self):
        return "NotImplemented"


@dataclass
class VBool(V):
    t: str
    kind = "bool"


@dataclass
class VInt(V):
    t: str
    kind = "int"


@dataclass
class VFloat(V):
    t: str
    kind = "float"


@dataclass
class VStr(V):
    t: str
    kind = "str"


@dataclass
class VTuple(V):
    items: List[V]
    names: Optional[List[str]] = None  # field names when the tuple is a NamedTuple instance
    kind = "tuple"


@dataclass
class VList(V):
    items: List[V]
    kind = "list"


@dataclass
class VObj(V):
    """Instance of a known class (ClassInfo) or of an opaque class (cls=None)."""

    cls: Optional[str]
    oid: str  # Int term: identity
    kind = "obj"


@dataclass
class VClass(V):
    """A class object: statically known name, or symbolic (class of a dyn value)."""

    name: Optional[str]
    cid: str  # Int term identifying the class (symbolic classes)
    kind = "class"


@dataclass
class VFunc(V):
    qualname: str
    bound: Optional[V] = None
    kind = "func"


@dataclass
class VBuiltin(V):
    name: str
    kind = "builtin"


@dataclass
class VModule(V):
    name: str
    kind = "module"


@dataclass
class VExcClass(V):
    name: str
    kind = "excclass"


@dataclass
class VExc(V):
    exc: str
    args: List[V]
    kind = "exc"


@dataclass
class VTable(V):
    """A module-level constant collection known by name (membership is an uninterpreted predicate
    axiomatised separately, or decided concretely when the probe is a literal)."""

    name: str
    py: Any
    kind = "table"


@dataclass
class VConstDict(V):
    """A constant dict with string keys (a module-level or closure lookup table), in insertion order."""

    entries: List[Tuple[str, V]]
    kind = "constdict"


@dataclass
class VOpaque(V):
    """Value about which nothing is known except identity (e.g. converter objects)."""

    name: str
    kind = "opaque"


@dataclass
class VSymList(V):
    """A list of statically unknown length: two explicit leading elements, a generic (universal) element `*`
    and a witness (existential) element `w` for the rest."""

    name: str
    elem_alts: List[Any]
    kind = "symlist"


@dataclass
class VGen(V):
    """A generator expression, evaluated lazily by any() / all()."""

    node: Any
    env: Any
    fi: Any
    kind = "genexp"


NELEMS_SYM = 2


def symlist_len(ctx: "Ctx", v: VSymList) -> str:
    n = ctx.declare(f"{v.name}.len", "Int")
    ctx.assume(smt.Le("0", n))
    return n


def symlist_elem(ctx: "Ctx", v: VSymList, k) -> "V":
    key = ("symelem", v.name, k)
    if key not in ctx.memo:
        e = new_value(ctx, f"{v.name}<{k}>", v.elem_alts)
        ctx.assume(dyn_range_constraint(ctx, e))
        ctx.memo[key] = e
    return ctx.memo[key]


def rest_quantifier(ctx: "Ctx", is_any: bool, length: str, elem, pred) -> bool:
    """any()/all() of pred over a sequence abstracted as explicit elements 0..NELEMS_SYM-1, generic `*`, witness `w`.
    elem(k) -> value ; pred(value) -> bool (may fork).  Returns the concrete result on this path."""
    k = ctx.choose([Eq(length, "0")] + [Eq(length, smt.sint(i)) for i in range(1, NELEMS_SYM + 1)] + [smt.Gt(length, smt.sint(NELEMS_SYM))])
    for i in range(min(k, NELEMS_SYM)):
        t = pred(elem(i))
        if is_any and t:
            return True
        if not is_any and not t:
            return False
    if k <= NELEMS_SYM:
        return not is_any
    exists = ctx.choose([TRUE, TRUE]) == 0  # some remaining element decides / none does
    if exists:
        if pred(elem("w")) != is_any:
            raise Infeasible()
        return is_any
    for kk in ("*", "w"):
        if pred(elem(kk)) == is_any:
            raise Infeasible()
    return not is_any


@dataclass
class VExternal(V):
    """Something reached through an import that the world does not model (dotted name)."""

    dotted: str
    bound: Optional[V] = None
    kind = "external"


# pure str -> str library functions / methods: modelled as uninterpreted functions (sound for proving;
# a proof that needs more than "it is a function" fails and is reported with the native search as replay)
PURE_STR_FUNCS = {"urllib.parse.unquote", "urllib.parse.quote", "urllib.parse.unquote_plus", "os.path.normpath", "os.path.normcase", "posixpath.normpath", "unicodedata.normalize"}
PURE_STR_METHODS = {"lower", "upper", "casefold", "strip", "rstrip", "lstrip", "title", "capitalize", "swapcase"}


@dataclass
class VDyn(V):
    """Value of statically unknown kind.  alts: list of alternative kind descriptors:
    'none','bool','int','float','str','notimpl','other', or ('obj', ClassName)."""

    name: str
    alts: List[Any]
    kind = "dyn"


# ----------------------------------------------------------------------------
# world: classes, functions, contracts, module globals
# ----------------------------------------------------------------------------


@dataclass
class FieldSpec:
    alts: List[Any]  # same alphabet as VDyn.alts


@dataclass
class ClassInfo:
    name: str
    fields: Dict[str, FieldSpec]
    methods: Dict[str, str]  # dunder/method name -> function qualname in world.functions, or 'builtin:object.__ne__'
    bases: List[str] = field(default_factory=list)
    properties: Dict[str, str] = field(default_factory=dict)  # property / cached_property name -> getter qualname (evaluated on every read)


@dataclass
class FunctionInfo:
    qualname: str
    node: Optional[ast.AST]  # FunctionDef / Lambda
    contract: Optional["Contract"] = None
    source_file: str = ""
    globals_ns: str = ""  # name of namespace for global lookups
    closure: Dict[str, V] = field(default_factory=dict)
    inline: bool = False  # may be inlined at call sites when it has no contract


class SpecOutcome:
    pass


@dataclass
class SReturn(SpecOutcome):
    v: V


@dataclass
class SRaise(SpecOutcome):
    exc: str
    # predicate over the raised exception's args -> Bool term (None: no constraint)
    pred: Optional[Callable[["Ctx", List[V]], str]] = None


@dataclass
class Contract:
    """Functional contract.  `pre(ctx,args)->term`, `spec(ctx,args)->SpecOutcome` (may fork via ctx)."""

    name: str
    params: List[Tuple[str, Any]]  # (name, alts or V factory)
    pre: Callable[["Ctx", Dict[str, V]], str]
    spec: Callable[["Ctx", Dict[str, V]], SpecOutcome]
    note: str = ""


class World:
    def __init__(self):
        self.classes: Dict[str, ClassInfo] = {}
        self.functions: Dict[str, FunctionInfo] = {}
        self.namespaces: Dict[str, Dict[str, V]] = {}
        # uninterpreted functions / global declarations, emitted in every script
        self.global_decls: List[str] = []
        self.global_axioms: List[str] = []
        self._gd = set()

    def declare_global(self, decl: str):
        if decl not in self._gd:
            self._gd.add(decl)
            self.global_decls.append(decl)

    def class_id(self, name: str) -> str:
        ids = self.__dict__.setdefault("_class_ids", {})
        if name not in ids:
            ids[name] = 1000 + len(ids)
        return smt.sint(ids[name])


# ----------------------------------------------------------------------------
# context of one path
# ----------------------------------------------------------------------------


class Ctx:
    def __init__(self, world: World, trace: List[int]):
        self.world = world
        self.trace = list(trace)
        self.taken: List[Tuple[int, int]] = []
        self.pc: List[str] = []
        self.decls: List[str] = []
        self._declared = set()
        self.counter = 0
        self.side_obligations: List[Tuple[str, str]] = []  # (label, term that must hold under pc at that point)
        self.memo: Dict[Any, V] = {}
        self.ghost: Dict[str, Any] = {}
        self.log: List[str] = []

    # -- symbols
    def declare(self, name: str, sort: str) -> str:
        if name not in self._declared:
            self._declared.add(name)
            self.decls.append(f"(declare-const {name} {sort})")
        return name

    def fresh(self, base: str, sort: str) -> str:
        self.counter += 1
        return self.declare(f"{base}!{self.counter}", sort)

    def assume(self, t: str):
        if t == FALSE:
            raise Infeasible()
        if t != TRUE:
            self.pc.append(t)

    # -- forking
    def choose(self, conds: List[str]) -> int:
        pcs = set(self.pc)
        for i, c in enumerate(conds):
            if c in pcs and c != TRUE:
                return i
        live = [i for i, c in enumerate(conds) if c != FALSE and Not(c) not in pcs]
        if not live:
            raise Infeasible()
        if len(live) == 1:
            self.assume(conds[live[0]])
            return live[0]
        pos = len(self.taken)
        k = self.trace[pos] if pos < len(self.trace) else 0
        self.taken.append((k, len(live)))
        self.assume(conds[live[k]])
        return live[k]

    def branch(self, cond: str) -> bool:
        if cond == TRUE:
            return True
        if cond == FALSE:
            return False
        return self.choose([cond, Not(cond)]) == 0


@dataclass
class Path:
    pc: List[str]
    decls: List[str]
    outcome: Any  # ('return', V) | ('raise', exc, args) | ('unsupported', msg)
    side_obligations: List[Tuple[str, str]]
    decisions: List[int]
    ghost: Dict[str, Any]
    log: List[str]
    spec_outcome: Any = None


def explore(world: World, run: Callable[[Ctx], Any], max_paths: int = 4000) -> List[Path]:
    results: List[Path] = []
    trace: List[int] = []
    while True:
        ctx = Ctx(world, trace)
        try:
            out = run(ctx)
        except Infeasible:
            out = None
        if out is not None:
            results.append(
                Path(list(ctx.pc), list(ctx.decls), out, list(ctx.side_obligations), [k for k, _ in ctx.taken], dict(ctx.ghost), list(ctx.log))
            )
        taken = ctx.taken
        while taken and taken[-1][0] == taken[-1][1] - 1:
            taken.pop()
        if not taken:
            break
        trace = [k for k, _ in taken[:-1]] + [taken[-1][0] + 1]
        if len(results) > max_paths:
            raise Unsupported("path explosion")
    return results


# ----------------------------------------------------------------------------
# dyn handling
# ----------------------------------------------------------------------------

ALT_TAGS = {"none": 0, "bool": 1, "int": 2, "float": 3, "str": 4, "notimpl": 5, "other": 6, "list": 7, "dict": 8, "tuple": 9}


def alt_tag(world: World, alt) -> str:
    if isinstance(alt, tuple) and alt[0] == "obj":
        return world.class_id(alt[1])
    if isinstance(alt, tuple) and alt[0] == "symlist":
        return smt.sint(ALT_TAGS["list"])
    if isinstance(alt, tuple) and alt[0] == "tuple_of":
        import zlib

        return smt.sint(1000 + zlib.crc32(repr(alt).encode()) % 100000)
    return smt.sint(ALT_TAGS[alt])


def dyn_tag(ctx: Ctx, d: VDyn) -> str:
    return ctx.declare(f"{d.name}.tag", "Int")


def make_alt(ctx: Ctx, name: str, alt) -> V:
    if alt == "none":
        return VNone()
    if alt == "notimpl":
        return VNotImpl()
    if alt == "bool":
        return VBool(ctx.declare(f"{name}.b", "Bool"))
    if alt == "int":
        return VInt(ctx.declare(f"{name}.i", "Int"))
    if alt == "float":
        return VFloat(ctx.declare(f"{name}.r", "Real"))
    if alt == "str":
        return VStr(ctx.declare(f"{name}.s", "String"))
    if alt in ("other", "list", "dict", "tuple"):
        return VObj(None if alt == "other" else f"<{alt}>", ctx.declare(f"{name}.oid", "Int"))
    if isinstance(alt, tuple) and alt[0] == "obj":
        return VObj(alt[1], ctx.declare(f"{name}.oid", "Int"))
    if isinstance(alt, tuple) and alt[0] == "symlist":
        return VSymList(name, [("obj", alt[1])] if isinstance(alt[1], str) else list(alt[1]))
    if isinstance(alt, tuple) and alt[0] == "tuple_of":
        # a real tuple with symbolic components: ("tuple_of", [alt, ...])
        return VTuple([make_alt(ctx, f"{name}.{i}", a) for i, a in enumerate(alt[1])])
    raise Unsupported(f"alt {alt}")


def new_value(ctx: Ctx, name: str, alts: List[Any]) -> V:
    if len(alts) == 1:
        return make_alt(ctx, name, alts[0])
    return VDyn(name, list(alts))


def force(ctx: Ctx, v: V) -> V:
    """Resolve a VDyn into one concrete-kind alternative (forking)."""
    if not isinstance(v, VDyn):
        return v
    key = ("force", v.name)
    if key in ctx.memo:
        return ctx.memo[key]
    tag = dyn_tag(ctx, v)
    conds = [Eq(tag, alt_tag(ctx.world, a)) for a in v.alts]
    k = ctx.choose(conds)
    r = make_alt(ctx, v.name, v.alts[k])
    ctx.memo[key] = r
    return r


def dyn_range_constraint(ctx: Ctx, v: V) -> str:
    if isinstance(v, VDyn):
        tag = dyn_tag(ctx, v)
        return Or(*[Eq(tag, alt_tag(ctx.world, a)) for a in v.alts])
    return TRUE


# ----------------------------------------------------------------------------
# interpreter
# ----------------------------------------------------------------------------

NUMERIC = (VBool, VInt, VFloat)


def num_term(v: V) -> Tuple[str, str]:
    """Return (sort, term) numeric view of bool/int/float."""
    if isinstance(v, VBool):
        return "Int", Ite(v.t, "1", "0")
    if isinstance(v, VInt):
        return "Int", v.t
    if isinstance(v, VFloat):
        return "Real", v.t
    raise Unsupported("num_term")


def num_pair(a: V, b: V) -> Tuple[str, str]:
    sa, ta = num_term(a)
    sb, tb = num_term(b)
    if sa == sb:
        return ta, tb
    if sa == "Int":
        ta = smt.ToReal(ta)
    if sb == "Int":
        tb = smt.ToReal(tb)
    return ta, tb


class Interp:
    def __init__(self, world: World):
        self.world = world
        self.call_depth = 0

    # -------------------------------------------------------------- helpers
    def truth(self, ctx: Ctx, v: V) -> bool:
        v = force(ctx, v)
        if isinstance(v, VBool):
            return ctx.branch(v.t)
        if isinstance(v, VNone):
            return False
        if isinstance(v, VNotImpl):
            return True
        if isinstance(v, VInt):
            return ctx.branch(Not(Eq(v.t, "0")))
        if isinstance(v, VFloat):
            return ctx.branch(Not(Eq(v.t, "0.0")))
        if isinstance(v, VStr):
            return ctx.branch(Not(Eq(v.t, '""')))
        if isinstance(v, (VTuple, VList)):
            return len(v.items) > 0
        if isinstance(v, VConstDict):
            return len(v.entries) > 0
        if isinstance(v, VObj):
            if v.cls and v.cls in self.world.classes:
                ci = self.world.classes[v.cls]
                if "__bool__" in ci.methods or "__len__" in ci.methods:
                    raise Unsupported("truthiness via __bool__/__len__")
                return True
            # opaque object: truthiness unknown -> uninterpreted
            t = ctx.declare(f"truthy.{_san(v.oid)}", "Bool")
            return ctx.branch(t)
        if isinstance(v, (VClass, VFunc, VBuiltin, VModule, VExcClass, VOpaque)):
            return True
        raise Unsupported(f"truth of {v}")

    def truth_term(self, ctx: Ctx, v: V) -> str:
        """Truthiness as a term where that is possible without forking (bools), else fork."""
        v = force(ctx, v)
        if isinstance(v, VBool):
            return v.t
        return TRUE if self.truth(ctx, v) else FALSE

    def format_value(self, ctx: Ctx, v: V, conv: int = -1) -> str:
        """format(v, '') / str(v) / repr(v) -> String term."""
        v = force(ctx, v)
        if conv == ord("r"):
            return self.repr_value(ctx, v)
        if isinstance(v, VStr):
            return v.t
        if isinstance(v, VInt):
            if smt.is_int_lit(v.t):
                return smt.sstr(str(smt.int_val(v.t)))
            self.world.declare_global("(declare-fun py_str_int (Int) String)")
            return f"(py_str_int {v.t})"
        if isinstance(v, VBool):
            return Ite(v.t, '"True"', '"False"')
        if isinstance(v, VNone):
            return '"None"'
        if isinstance(v, VFloat):
            self.world.declare_global("(declare-fun py_str_float (Real) String)")
            return f"(py_str_float {v.t})"
        if isinstance(v, VObj):
            if v.cls in self.world.classes:
                ci = self.world.classes[v.cls]
                m = ci.methods.get("__str__") or ci.methods.get("__repr__")
                if m:
                    r = force(ctx, self.call_function(ctx, m, [v], {}))
                    if isinstance(r, VStr):
                        return r.t
                    raise PyRaise("TypeError", [], "__str__ returned non-string")
            self.world.declare_global("(declare-fun py_str_obj (Int) String)")
            return f"(py_str_obj {v.oid})"
        raise Unsupported(f"format of {v}")

    def repr_value(self, ctx: Ctx, v: V) -> str:
        v = force(ctx, v)
        if isinstance(v, VObj) and v.cls in self.world.classes:
            m = self.world.classes[v.cls].methods.get("__repr__")
            if m:
                r = force(ctx, self.call_function(ctx, m, [v], {}))
                if isinstance(r, VStr):
                    return r.t
                raise PyRaise("TypeError", [], "__repr__ returned non-string")
        if isinstance(v, VInt):
            return self.format_value(ctx, v)
        if isinstance(v, VStr):
            self.world.declare_global("(declare-fun py_repr_str (String) String)")
            return f"(py_repr_str {v.t})"
        if isinstance(v, VObj):
            self.world.declare_global("(declare-fun py_repr_obj (Int) String)")
            return f"(py_repr_obj {v.oid})"
        if isinstance(v, (VBool, VNone)):
            return self.format_value(ctx, v)
        raise Unsupported(f"repr of {v}")

    # -------------------------------------------------------------- attribute access
    def getattr(self, ctx: Ctx, v: V, name: str) -> V:
        v = force(ctx, v)
        if name == "__class__" and not isinstance(v, (VModule, VExternal, VClass, VFunc, VBuiltin)):
            # for every value this interpreter models, obj.__class__ is type(obj) (no class here overrides __class__)
            return self.type_of(ctx, v)
        if isinstance(v, VModule):
            ns = self.world.namespaces.get(v.name, {})
            if name in ns:
                return ns[name]
            return VExternal(f"{v.name}.{name}")
        if isinstance(v, VExternal):
            return VExternal(f"{v.dotted}.{name}")
        if isinstance(v, VStr) and name in PURE_STR_METHODS:
            return VExternal(f"str.{name}", bound=v)
        if isinstance(v, VConstDict):
            if name in ("get", "keys", "values", "items"):
                return VExternal(f"constdict.{name}", bound=v)
            if hasattr(dict, name):
                raise Unsupported(f"dict.{name} on a constant table")
            raise PyRaise("AttributeError", [VStr(smt.sstr(f"'dict' object has no attribute '{name}'"))])
        if name == "__class__":
            return self.type_of(ctx, v)
        if isinstance(v, VClass):
            if name in ("__qualname__", "__name__"):
                if v.name is not None:
                    return VStr(smt.sstr(v.name))
                self.world.declare_global(f"(declare-fun py_class_{name.strip('_')} (Int) String)")
                return VStr(f"(py_class_{name.strip('_')} {v.cid})")
            if v.name in self.world.classes:
                m = self.world.classes[v.name].methods.get(name)
                if m:
                    return VFunc(m)
            raise Unsupported(f"class attribute {v.name}.{name}")
        if isinstance(v, VObj):
            if v.cls in self.world.classes:
                ci = self.world.classes[v.cls]
                if name in ci.fields:
                    key = ("field", v.oid, name)
                    if key not in ctx.memo:
                        ctx.memo[key] = new_value(ctx, f"{_san(v.oid)}.{name}", ci.fields[name].alts)
                        c = dyn_range_constraint(ctx, ctx.memo[key])
                        ctx.assume(c)
                    return ctx.memo[key]
                # properties and methods: the class, then its bases (depth-first, left to right - single inheritance and mixins)
                seen: List[str] = []
                stack = [v.cls]
                complete = True
                while stack:
                    cn = stack.pop(0)
                    if cn in seen or cn == "object":
                        continue
                    seen.append(cn)
                    cinfo = self.world.classes.get(cn)
                    if cinfo is None:
                        complete = False  # a base class this world does not know: it may define anything
                        continue
                    if name in cinfo.properties:
                        return self.call_function(ctx, cinfo.properties[name], [v], {})
                    if name in cinfo.methods:
                        return VFunc(cinfo.methods[name], bound=v)
                    stack = list(cinfo.bases) + stack
                if not complete:
                    raise Unsupported(f"attribute {name} of {v.cls}: a base class is not modelled")
                raise PyRaise("AttributeError", [VStr(smt.sstr(f"'{v.cls}' object has no attribute '{name}'"))])
            if v.cls is None:
                # opaque object: attribute may or may not exist
                has = ctx.declare(f"hasattr.{_san(v.oid)}.{name}", "Bool")
                if not ctx.branch(has):
                    raise PyRaise("AttributeError", [VStr(smt.sstr(f"no attribute '{name}'"))])
                key = ("field", v.oid, name)
                if key not in ctx.memo:
                    ctx.memo[key] = VDyn(f"{_san(v.oid)}.{name}", ["none", "bool", "int", "float", "str", "other"])
                    ctx.assume(dyn_range_constraint(ctx, ctx.memo[key]))
                return ctx.memo[key]
            raise PyRaise("AttributeError", [VStr(smt.sstr(f"no attribute '{name}'"))])
        if isinstance(v, VTuple) and v.names is not None and name in v.names:
            return v.items[v.names.index(name)]
        if isinstance(v, VTuple) and v.names is not None and name.startswith("_"):
            raise Unsupported(f"NamedTuple.{name}")
        if isinstance(v, (VNone, VBool, VInt, VFloat, VStr, VTuple, VList, VNotImpl)):
            real = {"none": type(None), "bool": bool, "int": int, "float": float, "str": str, "tuple": tuple, "list": list, "notimpl": type(NotImplemented)}[v.kind]
            if hasattr(real, name):
                # the attribute exists in Python: a method this interpreter may or may not model, never an AttributeError
                return VExternal(f"{v.kind}.{name}", bound=v)
            raise PyRaise("AttributeError", [VStr(smt.sstr(f"'{v.kind}' object has no attribute '{name}'"))])
        raise Unsupported(f"getattr {v}.{name}")

    def hasattr(self, ctx: Ctx, v: V, name: str) -> V:
        v = force(ctx, v)
        if isinstance(v, VObj):
            if v.cls in self.world.classes:
                ci = self.world.classes[v.cls]
                return VBool(TRUE if (name in ci.fields or name in ci.methods) else FALSE)
            if v.cls is None:
                return VBool(ctx.declare(f"hasattr.{_san(v.oid)}.{name}", "Bool"))
            return VBool(FALSE)
        if isinstance(v, (VNone, VBool, VInt, VFloat, VStr, VTuple, VList, VNotImpl)):
            # no builtin scalar has the attribute names this code base probes (name, typeName, ...)
            if name.startswith("__"):
                raise Unsupported("hasattr dunder on builtin")
            import builtins

            pyt = {"none": type(None), "bool": bool, "int": int, "float": float, "str": str, "tuple": tuple, "list": list, "notimpl": type(NotImplemented)}[v.kind]
            return VBool(TRUE if hasattr(pyt, name) else FALSE)
        raise Unsupported(f"hasattr {v}")

    def type_of(self, ctx: Ctx, v: V) -> V:
        v = force(ctx, v)
        if isinstance(v, VObj):
            if v.cls in self.world.classes:
                return VClass(v.cls, self.world.class_id(v.cls))
            self.world.declare_global("(declare-fun py_class_of (Int) Int)")
            # an object of a class this world does not model is an instance of none of the modelled classes (isinstance_ answers the same):
            # its class is none of theirs (ids 1000..) and no builtin kind (small tags)
            ctx.assume(smt.Ge(f"(py_class_of {v.oid})", smt.sint(100000)))
            return VClass(None, f"(py_class_of {v.oid})")
        names = {"none": "NoneType", "bool": "bool", "int": "int", "float": "float", "str": "str", "tuple": "tuple", "list": "list", "notimpl": "NotImplementedType"}
        if v.kind in names:
            return VClass(names[v.kind], smt.sint(ALT_TAGS.get(v.kind, 99)))
        raise Unsupported(f"type of {v}")

    def isinstance_(self, ctx: Ctx, v: V, cls: V) -> bool:
        v = force(ctx, v)
        if isinstance(cls, VTuple):
            return any(self.isinstance_(ctx, v, c) for c in cls.items)
        if isinstance(cls, VClass):
            n = cls.name
            if n == "int":
                return isinstance(v, (VInt, VBool))
            if n == "bool":
                return isinstance(v, VBool)
            if n == "float":
                return isinstance(v, VFloat)
            if n == "str":
                return isinstance(v, VStr)
            if n == "list":
                return isinstance(v, VList) or (isinstance(v, VObj) and v.cls == "<list>")
            if n == "dict":
                return isinstance(v, VObj) and v.cls == "<dict>"
            if n == "tuple":
                return isinstance(v, VTuple) or (isinstance(v, VObj) and v.cls == "<tuple>")
            if n == "object":
                return True
            if n in self.world.classes:
                if isinstance(v, VObj) and v.cls in self.world.classes:
                    return v.cls == n or n in self._all_bases(v.cls)
                return False
        raise Unsupported(f"isinstance({v}, {cls})")

    def _all_bases(self, cname: str) -> List[str]:
        out = []
        for b in self.world.classes[cname].bases:
            out.append(b)
            if b in self.world.classes:
                out.extend(self._all_bases(b))
        return out

    # -------------------------------------------------------------- comparisons
    def op_eq(self, ctx: Ctx, a: V, b: V) -> V:
        a = force(ctx, a)
        b = force(ctx, b)
        r = self._rich(ctx, a, b, "__eq__")
        if r is not None:
            return r
        r = self._rich(ctx, b, a, "__eq__")
        if r is not None:
            return r
        return VBool(self._identity(a, b))

    def op_ne(self, ctx: Ctx, a: V, b: V) -> V:
        a = force(ctx, a)
        b = force(ctx, b)
        r = self._rich(ctx, a, b, "__ne__")
        if r is not None:
            return r
        r = self._rich(ctx, b, a, "__ne__")
        if r is not None:
            return r
        return VBool(Not(self._identity(a, b)))

    def _identity(self, a: V, b: V) -> str:
        if isinstance(a, VObj) and isinstance(b, VObj):
            # an object has exactly one class; an opaque object (cls None) is an instance of none of the known classes
            if a.cls != b.cls:
                return FALSE
            return Eq(a.oid, b.oid)
        if isinstance(a, VNone) and isinstance(b, VNone):
            return TRUE
        if isinstance(a, VNotImpl) and isinstance(b, VNotImpl):
            return TRUE
        if type(a) is not type(b):
            return FALSE
        raise Unsupported(f"identity {a} {b}")

    SWAP = {"__lt__": "__gt__", "__gt__": "__lt__", "__le__": "__ge__", "__ge__": "__le__"}
    SYM = {"__lt__": "<", "__gt__": ">", "__le__": "<=", "__ge__": ">="}

    def op_order(self, ctx: Ctx, a: V, b: V, dunder: str) -> V:
        a = force(ctx, a)
        b = force(ctx, b)
        r = self._rich(ctx, a, b, dunder)
        if r is not None:
            return r
        r = self._rich(ctx, b, a, self.SWAP[dunder])
        if r is not None:
            return r
        raise PyRaise("TypeError", [VStr(smt.sstr(f"'{self.SYM[dunder]}' not supported"))])

    def _rich(self, ctx: Ctx, a: V, b: V, dunder: str) -> Optional[V]:
        """type(a).<dunder>(a, b); None means NotImplemented."""
        if isinstance(a, VObj):
            if a.cls in self.world.classes:
                m = self.world.classes[a.cls].methods.get(dunder)
                if m is None:
                    if dunder == "__eq__":
                        # object.__eq__: True when identical, else NotImplemented
                        if isinstance(b, VObj) and ctx.branch(Eq(a.oid, b.oid)):
                            return VBool(TRUE)
                        return None
                    if dunder == "__ne__":
                        m = "builtin:object.__ne__"
                    else:
                        return None
                if m == "builtin:object.__ne__":
                    r = self._rich(ctx, a, b, "__eq__")
                    if r is None:
                        return None
                    return VBool(Not(self.truth_term(ctx, r)))
                r = force(ctx, self.call_function(ctx, m, [a, b], {}))
                if isinstance(r, VNotImpl):
                    return None
                return r
            # opaque objects: behaviour unknown
            if a.cls is None:
                if dunder in ("__eq__", "__ne__") and not (isinstance(b, VObj) and b.cls in self.world.classes):
                    # opaque vs builtin/opaque: uninterpreted, symmetric equality (== of plain values is symmetric); != is its negation
                    other = b.oid if isinstance(b, VObj) else repr(b)
                    key = ("opq-eq", tuple(sorted([a.oid, other])))
                    if key not in ctx.memo:
                        ctx.memo[key] = ctx.fresh("opq_eq", "Bool")
                    t = ctx.memo[key]
                    return VBool(t if dunder == "__eq__" else Not(t))
                return None  # assume a well-behaved foreign object defers to our class
            return None
        if isinstance(a, NUMERIC) and isinstance(b, NUMERIC):
            ta, tb = num_pair(a, b)
            if dunder == "__eq__":
                return VBool(Eq(ta, tb))
            if dunder == "__ne__":
                return VBool(Not(Eq(ta, tb)))
            op = {"__lt__": smt.Lt, "__le__": smt.Le, "__gt__": smt.Gt, "__ge__": smt.Ge}[dunder]
            return VBool(op(ta, tb))
        if isinstance(a, VStr) and isinstance(b, VStr):
            if dunder == "__eq__":
                return VBool(Eq(a.t, b.t))
            if dunder == "__ne__":
                return VBool(Not(Eq(a.t, b.t)))
            if dunder == "__lt__":
                return VBool(f"(str.< {a.t} {b.t})")
            if dunder == "__le__":
                return VBool(f"(str.<= {a.t} {b.t})")
            if dunder == "__gt__":
                return VBool(f"(str.< {b.t} {a.t})")
            if dunder == "__ge__":
                return VBool(f"(str.<= {b.t} {a.t})")
        if isinstance(a, VNone) and isinstance(b, VNone):
            if dunder == "__eq__":
                return VBool(TRUE)
            if dunder == "__ne__":
                return VBool(FALSE)
            return None
        if isinstance(a, (VTuple, VList)) and type(a) is type(b):
            return self._seq_cmp(ctx, a, b, dunder)
        # builtin vs different builtin / object: NotImplemented
        return None

    def _seq_cmp(self, ctx: Ctx, a, b, dunder: str) -> V:
        # CPython: find first index where items differ (by ==)
        n = min(len(a.items), len(b.items))
        for i in range(n):
            e = self.op_eq(ctx, a.items[i], b.items[i])
            if not self.truth(ctx, e):
                if dunder == "__eq__":
                    return VBool(FALSE)
                if dunder == "__ne__":
                    return VBool(TRUE)
                return self.op_order(ctx, a.items[i], b.items[i], dunder)
        la, lb = len(a.items), len(b.items)
        res = {"__eq__": la == lb, "__ne__": la != lb, "__lt__": la < lb, "__le__": la <= lb, "__gt__": la > lb, "__ge__": la >= lb}[dunder]
        return VBool(TRUE if res else FALSE)

    def op_is(self, ctx: Ctx, a: V, b: V) -> str:
        a = force(ctx, a)
        b = force(ctx, b)
        if isinstance(a, VNone) or isinstance(b, VNone):
            return TRUE if (isinstance(a, VNone) and isinstance(b, VNone)) else FALSE
        if isinstance(a, VNotImpl) or isinstance(b, VNotImpl):
            return TRUE if (isinstance(a, VNotImpl) and isinstance(b, VNotImpl)) else FALSE
        if isinstance(a, VBool) and isinstance(b, VBool):
            return Eq(a.t, b.t)
        if isinstance(a, VObj) and isinstance(b, VObj):
            return self._identity(a, b)
        if isinstance(a, VClass) and isinstance(b, VClass):
            if a.name is not None and b.name is not None:
                return TRUE if a.name == b.name else FALSE
            return Eq(a.cid, b.cid)
        if type(a) is not type(b):
            return FALSE
        if isinstance(a, (VInt, VFloat, VStr)):
            # identity of numbers and strings is not determined by their values: two equal ints parsed from JSON are two objects (CPython only
            # caches -5..256 and interned strings, and the language promises neither).  Sound reading: `a is b` is an unconstrained Boolean
            # that can only be true when the values are equal.
            idn = ctx.fresh("same_object", "Bool")
            ctx.assume(smt.Implies(idn, Eq(a.t, b.t)))
            return idn
        if isinstance(a, (VTuple, VList)):
            idn = ctx.fresh("same_object", "Bool")
            if len(a.items) != len(b.items):
                return FALSE
            return idn
        raise Unsupported(f"is {a} {b}")

    def constdict_lookup(self, ctx: Ctx, d: "VConstDict", key: V) -> Optional[V]:
        """Value stored under `key`, or None when the key is not in the table (forks on a symbolic string key)."""
        key = force(ctx, key)
        if not isinstance(key, VStr):
            if isinstance(key, (VNone, VBool, VInt, VFloat, VTuple)):
                return None  # hashable, equal to no string key
            raise Unsupported(f"lookup of {key.kind} in a constant table")
        for k, v in d.entries:
            if self.truth(ctx, self.op_eq(ctx, key, VStr(smt.sstr(k)))):
                return v
        return None

    def op_in(self, ctx: Ctx, x: V, coll: V) -> V:
        coll = force(ctx, coll)
        if isinstance(coll, VConstDict):
            return VBool(TRUE if self.constdict_lookup(ctx, coll, x) is not None else FALSE)
        if isinstance(coll, (VList, VTuple)):
            for it in coll.items:
                e = self.op_eq(ctx, x, it)  # identity shortcut ignored (values, not objects)
                if self.truth(ctx, e):
                    return VBool(TRUE)
            return VBool(FALSE)
        if isinstance(coll, VTable):
            x = force(ctx, x)
            if isinstance(x, VStr):
                if smt.is_str_lit(x.t):
                    return VBool(TRUE if smt.sexpr_to_py(x.t) in coll.py else FALSE)
                self.world.declare_global(f"(declare-fun member_{coll.name} (String) Bool)")
                return VBool(f"(member_{coll.name} {x.t})")
            raise Unsupported("membership of non-string in table")
        if isinstance(coll, VStr):
            x = force(ctx, x)
            if isinstance(x, VStr):
                return VBool(smt.Contains(coll.t, x.t))
            raise PyRaise("TypeError", [])
        hook = getattr(self, "contains_hook", None)
        if hook is not None:
            return hook(ctx, x, coll)
        raise Unsupported(f"in {coll}")

    # -------------------------------------------------------------- calls
    def call(self, ctx: Ctx, f: V, args: List[V], kwargs: Dict[str, V]) -> V:
        f = force(ctx, f)
        if isinstance(f, VBuiltin):
            return self.call_builtin(ctx, f.name, args, kwargs)
        if isinstance(f, VFunc):
            a = ([f.bound] if f.bound is not None else []) + args
            return self.call_function(ctx, f.qualname, a, kwargs)
        if isinstance(f, VExcClass):
            return VExc(f.name, args)
        if isinstance(f, VExternal) and isinstance(f.bound, VList) and f.dotted in ("list.append", "list.extend") and len(args) == 1 and not kwargs:
            # in-place growth of a list the function built itself (a display or a list it grew before); every holder of the same list sees it
            if id(f.bound) not in ctx.ghost.get("own_lists", {}):
                raise Unsupported("in-place growth of a list that was not built on this path")
            if f.dotted == "list.append":
                f.bound.items.append(args[0])
                return VNone()
            more = force(ctx, args[0])
            if isinstance(more, (VList, VTuple)):
                f.bound.items.extend(more.items)
                return VNone()
            raise Unsupported("list.extend with a symbolic iterable")
        if isinstance(f, VExternal) and isinstance(f.bound, VConstDict) and not kwargs:
            d = f.bound
            if f.dotted == "constdict.keys" and not args:
                return VList([VStr(smt.sstr(k)) for k, _ in d.entries])
            if f.dotted == "constdict.values" and not args:
                return VList([v for _, v in d.entries])
            if f.dotted == "constdict.items" and not args:
                return VList([VTuple([VStr(smt.sstr(k)), v]) for k, v in d.entries])
            if f.dotted == "constdict.get" and len(args) in (1, 2):
                hit = self.constdict_lookup(ctx, d, args[0])
                return hit if hit is not None else (args[1] if len(args) == 2 else VNone())
            raise Unsupported(f"call of {f.dotted}")
        if isinstance(f, VExternal):
            allargs = ([f.bound] if f.bound is not None else []) + [force(ctx, a) for a in args]
            if f.dotted == "str.join" and not kwargs and len(allargs) == 2 and isinstance(allargs[0], VStr) and isinstance(allargs[1], (VList, VTuple)):
                # separator.join(<list built on this path>): the elements are known one by one (a list of unknown length is a symlist: Unsupported)
                parts = [force(ctx, x) for x in allargs[1].items]
                if all(isinstance(x, VStr) for x in parts):
                    out = []
                    for i, x in enumerate(parts):
                        if i:
                            out.append(allargs[0].t)
                        out.append(x.t)
                    return VStr(smt.Concat(*out) if out else smt.sstr(""))
                raise PyRaise("TypeError", [VStr(smt.sstr("sequence item: expected str instance"))])
            if f.dotted in ("str.startswith", "str.endswith") and not kwargs and len(allargs) == 2 and all(isinstance(a, VStr) for a in allargs):
                op = "str.prefixof" if f.dotted == "str.startswith" else "str.suffixof"
                return VBool(f"({op} {allargs[1].t} {allargs[0].t})")
            if f.dotted in ("str.startswith", "str.endswith") and not kwargs and len(allargs) == 2 and isinstance(allargs[0], VStr) and isinstance(allargs[1], VTuple):
                alts = [force(ctx, x) for x in allargs[1].items]
                if all(isinstance(x, VStr) for x in alts):
                    op = "str.prefixof" if f.dotted == "str.startswith" else "str.suffixof"
                    return VBool(Or(*[f"({op} {x.t} {allargs[0].t})" for x in alts]))
            if (f.dotted in PURE_STR_FUNCS or (f.dotted.startswith("str.") and f.bound is not None)) and not kwargs and allargs and all(isinstance(a, VStr) for a in allargs):
                nm = "uf_" + f.dotted.replace(".", "_")
                lits = [a.t for a in allargs[1:]]
                if all(smt.is_str_lit(x) for x in lits):
                    import hashlib

                    if lits:
                        nm += "_" + hashlib.sha1("|".join(lits).encode()).hexdigest()[:6]
                    self.world.declare_global(f"(declare-fun {nm} (String) String)")
                    ctx.ghost.setdefault("uninterpreted", []).append(f.dotted)
                    return VStr(f"({nm} {allargs[0].t})")
            raise Unsupported(f"call of external {f.dotted}")
        if isinstance(f, VClass):
            if f.name == "str" and len(args) == 1:
                return VStr(self.format_value(ctx, args[0]))
            if f.name == "int" and len(args) == 1:
                return self.call_builtin(ctx, "int", args, kwargs)
            if f.name == "bool" and len(args) == 1:
                return VBool(self.truth_term(ctx, args[0]))
            raise Unsupported(f"constructor call {f.name}")
        raise Unsupported(f"call of {f}")

    def call_builtin(self, ctx: Ctx, name: str, args: List[V], kwargs) -> V:
        if name == "isinstance":
            return VBool(TRUE if self.isinstance_(ctx, args[0], args[1]) else FALSE)
        if name == "hasattr":
            n = args[1]
            if isinstance(n, VStr) and smt.is_str_lit(n.t):
                return self.hasattr(ctx, args[0], smt.sexpr_to_py(n.t))
            raise Unsupported("hasattr with non-constant name")
        if name == "getattr" and len(args) in (2, 3) and not kwargs:
            n = force(ctx, args[1])
            if isinstance(n, VStr) and smt.is_str_lit(n.t):
                if len(args) == 2:
                    return self.getattr(ctx, args[0], smt.sexpr_to_py(n.t))
                try:
                    return self.getattr(ctx, args[0], smt.sexpr_to_py(n.t))
                except PyRaise as pr:
                    if pr.exc == "AttributeError":
                        return args[2]
                    raise
            raise Unsupported("getattr with a non-constant name")
        if name == "str":
            return VStr(self.format_value(ctx, args[0]))
        if name == "repr":
            return VStr(self.repr_value(ctx, args[0]))
        if name == "type":
            return self.type_of(ctx, args[0])
        if name == "len":
            v = force(ctx, args[0])
            if isinstance(v, (VList, VTuple)):
                return VInt(smt.sint(len(v.items)))
            if isinstance(v, VConstDict):
                return VInt(smt.sint(len(v.entries)))
            if isinstance(v, VStr):
                return VInt(f"(str.len {v.t})")
            if isinstance(v, VSymList):
                return VInt(symlist_len(ctx, v))
            hook = getattr(self, "len_hook", None)
            if hook is not None:
                return hook(ctx, v)
            raise Unsupported(f"len of {v}")
        if name == "int":
            v = force(ctx, args[0])
            if isinstance(v, VInt):
                return v
            if isinstance(v, VBool):
                return VInt(Ite(v.t, "1", "0"))
            if isinstance(v, VFloat):
                # truncation toward zero
                fl = f"(to_int {v.t})"
                return VInt(Ite(smt.Ge(v.t, "0.0"), fl, f"(- (to_int (- {v.t})))"))
            raise Unsupported(f"int() of {v}")
        if name == "bool":
            return VBool(self.truth_term(ctx, args[0]))
        if name in ("any", "all"):
            v = force(ctx, args[0])
            if isinstance(v, VGen) and not hasattr(self, "anyall_hook"):
                return self.anyall_gen(ctx, name, v)
            if isinstance(v, VGen):
                r = self.anyall_gen(ctx, name, v, allow_fallback=True)
                if r is not None:
                    return r
            if isinstance(v, (VList, VTuple)):
                for it in v.items:
                    t = self.truth(ctx, it)
                    if name == "any" and t:
                        return VBool(TRUE)
                    if name == "all" and not t:
                        return VBool(FALSE)
                return VBool(FALSE if name == "any" else TRUE)
            hook = getattr(self, "anyall_hook", None)
            if hook is not None:
                return hook(ctx, name, v)
            raise Unsupported(f"{name} over {v}")
        hook = getattr(self, "builtin_hook", None)
        if hook is not None:
            r = hook(ctx, name, args, kwargs)
            if r is not None:
                return r
        raise Unsupported(f"builtin {name}")

    def anyall_gen(self, ctx: Ctx, name: str, v: "VGen", allow_fallback: bool = False):
        e = v.node
        if len(e.generators) != 1 or e.generators[0].ifs or e.generators[0].is_async:
            raise Unsupported("generator shape")
        g = e.generators[0]
        it = force(ctx, self.eval(ctx, g.iter, v.env, v.fi))
        is_any = name == "any"

        def pred(node) -> bool:
            env2 = dict(v.env)
            self.assign(ctx, g.target, node, env2, v.fi)
            return self.truth(ctx, self.eval(ctx, e.elt, env2, v.fi))

        if isinstance(it, (VList, VTuple)):
            for item in it.items:
                t = pred(item)
                if is_any and t:
                    return VBool(TRUE)
                if not is_any and not t:
                    return VBool(FALSE)
            return VBool(FALSE if is_any else TRUE)
        if isinstance(it, VSymList):
            r = rest_quantifier(ctx, is_any, symlist_len(ctx, it), lambda k: symlist_elem(ctx, it, k), pred)
            return VBool(TRUE if r else FALSE)
        if allow_fallback:
            return None
        raise Unsupported(f"{name} over {it}")

    def call_function(self, ctx: Ctx, qualname: str, args: List[V], kwargs: Dict[str, V]) -> V:
        if qualname.startswith("builtin:"):
            raise Unsupported(qualname)
        fi = self.world.functions.get(qualname)
        if fi is None:
            raise Unsupported(f"unknown function {qualname}")
        if fi.contract is not None and not ctx.ghost.get("inline:" + qualname):
            c = fi.contract
            amap = self._bind_contract_args(c, args, kwargs)
            pre = c.pre(ctx, amap)
            if pre != TRUE:
                ctx.side_obligations.append((f"call:{qualname}:pre", And(*ctx.pc, Not(pre))))
                ctx.assume(pre)
            out = c.spec(ctx, amap)
            if isinstance(out, SReturn):
                return out.v
            if isinstance(out, SRaise):
                raise PyRaise(out.exc, [], note=f"per contract of {qualname}")
            raise Unsupported("contract outcome")
        if fi.node is not None:
            # a callee under contract is used by its contract (above); a callee without one is executed (inlined): sound, and a helper
            # extracted by a refactoring does not push its caller out of the subset
            if self.call_depth > 6:
                raise Unsupported("inline depth")
            self.call_depth += 1
            try:
                return self.exec_function(ctx, fi, args, kwargs)
            finally:
                self.call_depth -= 1
        raise Unsupported(f"call to {qualname} without contract")

    @staticmethod
    def _bind_contract_args(c: Contract, args: List[V], kwargs: Dict[str, V]) -> Dict[str, V]:
        amap: Dict[str, V] = {}
        names = [p[0] for p in c.params]
        for n, a in zip(names, args):
            amap[n] = a
        for k, v in kwargs.items():
            amap[k] = v
        return amap

    # -------------------------------------------------------------- functions
    def exec_function(self, ctx: Ctx, fi: FunctionInfo, args: List[V], kwargs: Dict[str, V]) -> V:
        node = fi.node
        env: Dict[str, V] = dict(fi.closure)
        decos = [ast.unparse(d) for d in getattr(node, "decorator_list", None) or []]
        if any(d.split(".")[-1] not in ("property", "cached_property", "staticmethod") for d in decos):
            raise Unsupported("decorated function: " + ", ".join(decos))
        a = node.args
        if a.vararg or a.kwarg or a.kwonlyargs or a.posonlyargs:
            raise Unsupported("complex signature")
        params = [x.arg for x in a.args]
        defaults = a.defaults
        if len(args) > len(params):
            raise PyRaise("TypeError", [])
        for n, v in zip(params, args):
            env[n] = v
        for k, v in kwargs.items():
            if k not in params or k in params[: len(args)]:
                raise PyRaise("TypeError", [])
            env[k] = v
        for i, n in enumerate(params):
            if n not in env or (i >= len(args) and n not in kwargs):
                di = i - (len(params) - len(defaults))
                if di < 0:
                    raise PyRaise("TypeError", [])
                env[n] = self.eval(ctx, defaults[di], dict(fi.closure), fi)
        if isinstance(node, ast.Lambda):
            return self.eval(ctx, node.body, env, fi)
        try:
            self.exec_block(ctx, node.body, env, fi)
        except _Return as r:
            return r.v
        return VNone()

    def exec_block(self, ctx: Ctx, stmts: List[ast.stmt], env: Dict[str, V], fi: FunctionInfo):
        for s in stmts:
            self.exec_stmt(ctx, s, env, fi)

    def exec_stmt(self, ctx: Ctx, s: ast.stmt, env: Dict[str, V], fi: FunctionInfo):
        if isinstance(s, ast.Expr):
            if isinstance(s.value, ast.Constant) and isinstance(s.value.value, str):
                return  # docstring
            self.eval(ctx, s.value, env, fi)
            return
        if isinstance(s, ast.Return):
            raise _Return(self.eval(ctx, s.value, env, fi) if s.value is not None else VNone())
        if isinstance(s, ast.If):
            c = self.eval(ctx, s.test, env, fi)
            if self.truth(ctx, c):
                self.exec_block(ctx, s.body, env, fi)
            else:
                self.exec_block(ctx, s.orelse, env, fi)
            return
        if isinstance(s, ast.Assign):
            v = self.eval(ctx, s.value, env, fi)
            for t in s.targets:
                self.assign(ctx, t, v, env, fi)
            return
        if isinstance(s, ast.AnnAssign):
            if s.value is not None:
                self.assign(ctx, s.target, self.eval(ctx, s.value, env, fi), env, fi)
            return
        if isinstance(s, ast.AugAssign):
            hook = getattr(self, "augassign_hook", None)
            if hook is not None and hook(ctx, s, env, fi):
                return
            cur = self.eval(ctx, ast.Name(id=s.target.id, ctx=ast.Load()), env, fi) if isinstance(s.target, ast.Name) else None
            if cur is None:
                raise Unsupported("augassign target")
            v = self.binop(ctx, s.op, cur, self.eval(ctx, s.value, env, fi))
            self.assign(ctx, s.target, v, env, fi)
            return
        if isinstance(s, ast.Raise):
            if s.exc is None:
                raise Unsupported("bare raise")
            e = self.eval(ctx, s.exc, env, fi)
            if isinstance(e, VExcClass):
                e = VExc(e.name, [])
            if isinstance(e, VExc):
                raise PyRaise(e.exc, e.args)
            raise Unsupported("raise of non-exception")
        if isinstance(s, ast.Assert):
            c = self.eval(ctx, s.test, env, fi)
            if not self.truth(ctx, c):
                raise PyRaise("AssertionError", [])
            return
        if isinstance(s, ast.Pass):
            return
        if isinstance(s, ast.Break):
            raise _Break()
        if isinstance(s, ast.Continue):
            raise _Continue()
        if isinstance(s, ast.Global):
            env.setdefault("__globals__", VList([]))
            for n in s.names:
                env["__global_decl__:" + n] = VNone()
            return
        if isinstance(s, ast.FunctionDef):
            q = f"{fi.qualname}.{s.name}"
            self.world.functions[q] = FunctionInfo(q, s, None, fi.source_file, fi.globals_ns, closure=env, inline=True)
            env[s.name] = VFunc(q)
            return
        if isinstance(s, ast.For):
            it = force(ctx, self.eval(ctx, s.iter, env, fi))
            if isinstance(it, VConstDict):
                it = VList([VStr(smt.sstr(k)) for k, _ in it.entries])  # a dict iterates its keys, in insertion order
            if isinstance(it, (VList, VTuple)):
                broke = False
                for item in list(it.items):
                    self.assign(ctx, s.target, item, env, fi)
                    try:
                        self.exec_block(ctx, s.body, env, fi)
                    except _Continue:
                        continue
                    except _Break:
                        broke = True
                        break
                if not broke:
                    self.exec_block(ctx, s.orelse, env, fi)
                return
            if isinstance(it, VSymList) and _is_search_loop(s):
                # `for x in xs: if P(x): return/raise ...`  ==  the any()-abstraction with the body as predicate
                def pred(node) -> bool:
                    env2 = dict(env)
                    self.assign(ctx, s.target, node, env2, fi)
                    try:
                        self.exec_block(ctx, s.body, env2, fi)
                    except _Return as r:
                        ctx.ghost["__loop_return__"] = r.v
                        return True
                    return False

                found = rest_quantifier(ctx, True, symlist_len(ctx, it), lambda k: symlist_elem(ctx, it, k), pred)
                if found:
                    raise _Return(ctx.ghost.pop("__loop_return__"))
                self.exec_block(ctx, s.orelse, env, fi)
                return
            hook = getattr(self, "for_hook", None)
            if hook is not None and hook(ctx, s, it, env, fi):
                return
            raise Unsupported("for over symbolic iterable")
        hook = getattr(self, "stmt_hook", None)
        if hook is not None and hook(ctx, s, env, fi):
            return
        if isinstance(s, ast.Try):
            return self.exec_try(ctx, s, env, fi)
        raise Unsupported(f"statement {type(s).__name__}")

    def exec_try(self, ctx: Ctx, s: ast.Try, env: Dict[str, V], fi: FunctionInfo):
        """try / except / else / finally with CPython's semantics: a handler is chosen by the class of the raised exception (first match in
        source order, builtin hierarchy), `else` runs when the body completed, `finally` always runs and whatever it raises or returns
        replaces a pending raise / return.  (The interpreter's own control signals - Unsupported, Infeasible - are never caught.)"""
        pending: Optional[BaseException] = None
        try:
            try:
                # calls whose exceptions this interpreter does not model (a nested converter.structure) must not be "proved" never to
                # reach a handler: interpreters that model such calls consult this counter and leave the subset
                ctx.ghost["try_depth"] = ctx.ghost.get("try_depth", 0) + (1 if s.handlers else 0)
                try:
                    self.exec_block(ctx, s.body, env, fi)
                finally:
                    ctx.ghost["try_depth"] = ctx.ghost.get("try_depth", 0) - (1 if s.handlers else 0)
            except PyRaise as pr:
                h = self._matching_handler(s.handlers, pr.exc)
                if h is None:
                    raise
                if h.name:
                    env[h.name] = VExc(pr.exc, list(pr.args_v))
                self.exec_block(ctx, h.body, env, fi)
            else:
                self.exec_block(ctx, s.orelse, env, fi)
        except (PyRaise, _Return, _Break, _Continue) as sig:
            pending = sig
        if s.finalbody:
            self.exec_block(ctx, s.finalbody, env, fi)
        if pending is not None:
            raise pending

    @staticmethod
    def _matching_handler(handlers: List[ast.ExceptHandler], exc: str) -> Optional[ast.ExceptHandler]:
        import builtins

        def names(t: Optional[ast.expr]) -> Optional[List[str]]:
            if t is None:
                return ["BaseException"]
            if isinstance(t, ast.Name):
                return [t.id]
            if isinstance(t, ast.Attribute):
                return [t.attr]
            if isinstance(t, ast.Tuple):
                out: List[str] = []
                for e in t.elts:
                    n = names(e)
                    if n is None:
                        return None
                    out += n
                return out
            return None

        raised = getattr(builtins, exc, None)
        for h in handlers:
            ns = names(h.type)
            if ns is None:
                raise Unsupported("except clause with a computed exception class")
            for n in ns:
                if n == exc:
                    return h
                caught = getattr(builtins, n, None)
                if isinstance(raised, type) and isinstance(caught, type) and issubclass(raised, caught):
                    return h
                if not isinstance(raised, type) and n in ("Exception", "BaseException"):
                    return h  # a library exception class: assumed to derive from Exception
        return None

    def assign(self, ctx: Ctx, target: ast.expr, v: V, env: Dict[str, V], fi: FunctionInfo):
        if isinstance(target, ast.Name):
            if ("__global_decl__:" + target.id) in env:
                ctx.ghost["global:" + target.id] = v
                ctx.ghost.setdefault("global_writes", []).append(target.id)
                return
            env[target.id] = v
            return
        if isinstance(target, (ast.Tuple, ast.List)):
            v = force(ctx, v)
            if isinstance(v, (VTuple, VList)) and len(v.items) == len(target.elts):
                for t, x in zip(target.elts, v.items):
                    self.assign(ctx, t, x, env, fi)
                return
            raise Unsupported("unpacking")
        hook = getattr(self, "assign_hook", None)
        if hook is not None and hook(ctx, target, v, env, fi):
            return
        raise Unsupported(f"assignment target {type(target).__name__}")

    def lookup(self, ctx: Ctx, name: str, env: Dict[str, V], fi: FunctionInfo) -> V:
        if ("__global_decl__:" + name) in env or name not in env:
            g = "global:" + name
            if g in ctx.ghost:
                return ctx.ghost[g]
        if name in env and not name.startswith("__global_decl__"):
            return env[name]
        ns = self.world.namespaces.get(fi.globals_ns, {})
        if name in ns:
            return ns[name]
        b = self.world.namespaces.get("builtins", {})
        if name in b:
            return b[name]
        raise Unsupported(f"name {name}")

    def binop(self, ctx: Ctx, op: ast.operator, a: V, b: V) -> V:
        a = force(ctx, a)
        b = force(ctx, b)
        if isinstance(op, ast.Add):
            if isinstance(a, VStr) and isinstance(b, VStr):
                return VStr(smt.Concat(a.t, b.t))
            if isinstance(a, (VInt, VBool)) and isinstance(b, (VInt, VBool)):
                return VInt(smt.Add(num_term(a)[1], num_term(b)[1]))
            if isinstance(a, VList) and isinstance(b, VList):
                lst = VList(a.items + b.items)
                ctx.ghost.setdefault("own_lists", {})[id(lst)] = lst  # `+` builds a new list on this path
                return lst
            if isinstance(a, VTuple) and isinstance(b, VTuple):
                return VTuple(a.items + b.items)
        if isinstance(op, ast.Sub):
            if isinstance(a, (VInt, VBool)) and isinstance(b, (VInt, VBool)):
                return VInt(smt.Sub(num_term(a)[1], num_term(b)[1]))
        if isinstance(op, ast.Mult):
            if isinstance(a, VInt) and isinstance(b, VInt) and smt.is_int_lit(a.t) and smt.is_int_lit(b.t):
                return VInt(smt.sint(smt.int_val(a.t) * smt.int_val(b.t)))
            if isinstance(a, (VInt, VBool)) and isinstance(b, (VInt, VBool)):
                return VInt(f"(* {num_term(a)[1]} {num_term(b)[1]})")
        if isinstance(op, ast.Pow):
            if isinstance(a, VInt) and isinstance(b, VInt) and smt.is_int_lit(a.t) and smt.is_int_lit(b.t) and smt.int_val(b.t) >= 0:
                return VInt(smt.sint(smt.int_val(a.t) ** smt.int_val(b.t)))
        raise Unsupported(f"binop {type(op).__name__} on {a.kind},{b.kind}")

    # -------------------------------------------------------------- expressions
    def eval(self, ctx: Ctx, e: ast.expr, env: Dict[str, V], fi: FunctionInfo) -> V:
        if isinstance(e, ast.Constant):
            return const_value(e.value)
        if isinstance(e, ast.Name):
            return self.lookup(ctx, e.id, env, fi)
        if isinstance(e, ast.Attribute):
            return self.getattr(ctx, self.eval(ctx, e.value, env, fi), e.attr)
        if isinstance(e, ast.UnaryOp):
            v = self.eval(ctx, e.operand, env, fi)
            if isinstance(e.op, ast.Not):
                return VBool(Not(self.truth_term(ctx, v)))
            v = force(ctx, v)
            if isinstance(e.op, ast.USub) and isinstance(v, (VInt, VBool)):
                return VInt(smt.Sub("0", num_term(v)[1]))
            if isinstance(e.op, ast.USub) and isinstance(v, VFloat):
                return VFloat(f"(- {v.t})")
            raise Unsupported("unary op")
        if isinstance(e, ast.BinOp):
            return self.binop(ctx, e.op, self.eval(ctx, e.left, env, fi), self.eval(ctx, e.right, env, fi))
        if isinstance(e, ast.BoolOp):
            # short-circuit, value semantics
            last: V = VNone()
            for i, sub in enumerate(e.values):
                last = self.eval(ctx, sub, env, fi)
                if i == len(e.values) - 1:
                    return last
                t = self.truth(ctx, last)
                if isinstance(e.op, ast.And) and not t:
                    return last
                if isinstance(e.op, ast.Or) and t:
                    return last
            return last
        if isinstance(e, ast.Compare):
            left = self.eval(ctx, e.left, env, fi)
            result: V = VBool(TRUE)
            for i, (op, right_e) in enumerate(zip(e.ops, e.comparators)):
                right = self.eval(ctx, right_e, env, fi)
                result = self.compare(ctx, op, left, right)
                if i < len(e.ops) - 1:
                    if not self.truth(ctx, result):
                        return result
                left = right
            return result
        if isinstance(e, ast.IfExp):
            c = self.eval(ctx, e.test, env, fi)
            return self.eval(ctx, e.body if self.truth(ctx, c) else e.orelse, env, fi)
        if isinstance(e, ast.Call):
            hook = getattr(self, "call_hook", None)
            if hook is not None:
                r = hook(ctx, e, env, fi)
                if r is not None:
                    return r
            if any(isinstance(a, ast.Starred) for a in e.args) or any(k.arg is None for k in e.keywords):
                raise Unsupported("star args")
            f = self.eval(ctx, e.func, env, fi)
            args = [self.eval(ctx, a, env, fi) for a in e.args]
            kwargs = {k.arg: self.eval(ctx, k.value, env, fi) for k in e.keywords}
            return self.call(ctx, f, args, kwargs)
        if isinstance(e, ast.JoinedStr):
            parts = []
            for p in e.values:
                if isinstance(p, ast.Constant):
                    parts.append(smt.sstr(p.value))
                elif isinstance(p, ast.FormattedValue):
                    if p.format_spec is not None:
                        raise Unsupported("format spec")
                    v = self.eval(ctx, p.value, env, fi)
                    if p.conversion == ord("s"):
                        parts.append(self.format_value(ctx, v))
                    else:
                        parts.append(self.format_value(ctx, v, p.conversion))
                else:
                    raise Unsupported("fstring part")
            return VStr(smt.Concat(*parts))
        if isinstance(e, ast.Tuple):
            return VTuple([self.eval(ctx, x, env, fi) for x in e.elts])
        if isinstance(e, ast.Dict) and e.keys and all(isinstance(k, ast.Constant) and isinstance(k.value, str) for k in e.keys):
            # a dict display with literal string keys is a lookup table (never mutated by the subset: stores into a dict are Unsupported)
            return VConstDict([(k.value, self.eval(ctx, v, env, fi)) for k, v in zip(e.keys, e.values)])
        if isinstance(e, ast.List):
            lst = VList([self.eval(ctx, x, env, fi) for x in e.elts])
            ctx.ghost.setdefault("own_lists", {})[id(lst)] = lst  # built on this path: may be grown in place (module constants may not)
            return lst
        if isinstance(e, ast.Subscript):
            base = force(ctx, self.eval(ctx, e.value, env, fi))
            idx = force(ctx, self.eval(ctx, e.slice, env, fi))
            if isinstance(base, (VList, VTuple)) and isinstance(idx, VInt) and smt.is_int_lit(idx.t):
                i = smt.int_val(idx.t)
                if -len(base.items) <= i < len(base.items):
                    return base.items[i]
                raise PyRaise("IndexError", [])
            if isinstance(base, VConstDict):
                hit = self.constdict_lookup(ctx, base, idx)
                if hit is None:
                    raise PyRaise("KeyError", [idx])
                return hit
            hook = getattr(self, "subscript_hook", None)
            if hook is not None:
                r = hook(ctx, base, idx)
                if r is not None:
                    return r
            raise Unsupported(f"subscript {base.kind}[{idx.kind}]")
        if isinstance(e, ast.GeneratorExp) and not hasattr(self, "expr_hook"):
            return VGen(e, dict(env), fi)
        if isinstance(e, ast.Lambda):
            q = f"{fi.qualname}.<lambda@{e.lineno}:{e.col_offset}>"
            self.world.functions[q] = FunctionInfo(q, e, None, fi.source_file, fi.globals_ns, closure=env, inline=True)
            return VFunc(q)
        hook = getattr(self, "expr_hook", None)
        if hook is not None:
            r = hook(ctx, e, env, fi)
            if r is not None:
                return r
        raise Unsupported(f"expression {type(e).__name__}")

    def compare(self, ctx: Ctx, op: ast.cmpop, a: V, b: V) -> V:
        if isinstance(op, ast.Eq):
            return self.op_eq(ctx, a, b)
        if isinstance(op, ast.NotEq):
            return self.op_ne(ctx, a, b)
        if isinstance(op, ast.Lt):
            return self.op_order(ctx, a, b, "__lt__")
        if isinstance(op, ast.LtE):
            return self.op_order(ctx, a, b, "__le__")
        if isinstance(op, ast.Gt):
            return self.op_order(ctx, a, b, "__gt__")
        if isinstance(op, ast.GtE):
            return self.op_order(ctx, a, b, "__ge__")
        if isinstance(op, ast.Is):
            return VBool(self.op_is(ctx, a, b))
        if isinstance(op, ast.IsNot):
            return VBool(Not(self.op_is(ctx, a, b)))
        if isinstance(op, ast.In):
            return self.op_in(ctx, a, b)
        if isinstance(op, ast.NotIn):
            r = self.op_in(ctx, a, b)
            return VBool(Not(self.truth_term(ctx, r)))
        raise Unsupported("cmpop")


def _is_search_loop(s: ast.For) -> bool:
    """Body is a single `if <test>: return <expr>` (no else, no assignments): a search loop."""
    if s.orelse:
        return False
    if len(s.body) != 1 or not isinstance(s.body[0], ast.If) or s.body[0].orelse:
        return False
    inner = s.body[0].body
    return len(inner) == 1 and isinstance(inner[0], ast.Return)


def const_value(c: Any) -> V:
    if c is None:
        return VNone()
    if c is True:
        return VBool(TRUE)
    if c is False:
        return VBool(FALSE)
    if isinstance(c, int):
        return VInt(smt.sint(c))
    if isinstance(c, float):
        return VFloat(smt.sreal(c))
    if isinstance(c, str):
        return VStr(smt.sstr(c))
    if isinstance(c, (list, tuple)):
        items = [const_value(x) for x in c]
        return VList(items) if isinstance(c, list) else VTuple(items)
    if c is NotImplemented:
        return VNotImpl()
    raise Unsupported(f"constant {c!r}")


def _san(t: str) -> str:
    return t.replace("(", "_").replace(")", "_").replace(" ", "_")


def builtins_namespace() -> Dict[str, V]:
    ns: Dict[str, V] = {}
    for n in ("isinstance", "hasattr", "len", "any", "all", "repr", "sorted", "set", "frozenset", "filter", "map", "enumerate", "zip", "range", "getattr", "print", "min", "max"):
        ns[n] = VBuiltin(n)
    for n in ("int", "str", "bool", "float", "list", "dict", "tuple", "object", "type"):
        ns[n] = VClass(n, smt.sint(ALT_TAGS.get(n, 90)))
    ns["type"] = VBuiltin("type")
    ns["NotImplemented"] = VNotImpl()
    for n in ("ValueError", "TypeError", "KeyError", "IndexError", "AttributeError", "AssertionError", "RuntimeError", "Exception", "NotImplementedError"):
        ns[n] = VExcClass(n)
    return ns


# ----------------------------------------------------------------------------
# equality of outcome values (strict about kinds)
# ----------------------------------------------------------------------------


def values_equal(ctx: Ctx, a: V, b: V) -> str:
    a = force(ctx, a)
    b = force(ctx, b)
    if type(a) is not type(b):
        return FALSE
    if isinstance(a, (VNone, VNotImpl)):
        return TRUE
    if isinstance(a, (VBool, VInt, VFloat, VStr)):
        return Eq(a.t, b.t)
    if isinstance(a, (VTuple, VList)):
        if len(a.items) != len(b.items):
            return FALSE
        return And(*[values_equal(ctx, x, y) for x, y in zip(a.items, b.items)])
    if isinstance(a, VObj):
        return And(TRUE if a.cls == b.cls else FALSE, Eq(a.oid, b.oid))
    if isinstance(a, VClass):
        return TRUE if a.name == b.name and a.name is not None else Eq(a.cid, b.cid)
    if isinstance(a, VOpaque):
        return TRUE if a.name == b.name else FALSE
    raise Unsupported(f"values_equal {a} {b}")
