"""C08's postcondition of the dotnet plugin, evaluated on the emitted .cs text against the metamodel."""
from __future__ import annotations

import os
import re
from dataclasses import dataclass, field
from typing import Any, Dict, List, Optional, Tuple

from .metamodel import MetaModel, method_to_class_name

BASE = {"string": "string", "RegExp": "string", "DocumentUri": "Uri", "URI": "Uri", "decimal": "float", "integer": "int", "uinteger": "long", "boolean": "bool", "null": "object"}
IDENT = r"[A-Za-z_][A-Za-z0-9_]*"


@dataclass
class Member:
    wire: str
    cs_type: str
    name: str
    attrs: List[str]
    default: Optional[str]

    @property
    def nullable(self) -> bool:
        return self.cs_type.endswith("?")

    @property
    def null_ignoring(self) -> bool:
        return any("NullValueHandling.Ignore" in a for a in self.attrs)


@dataclass
class Record:
    name: str
    base: str
    attrs: List[str]
    members: List[Member]
    ctor_assigned: List[str]
    ctor_params: List[str]


@dataclass
class CsEnum:
    name: str
    attrs: List[str]
    members: List[Tuple[str, Optional[str], Optional[str]]]  # (name, EnumMember value, numeric value)


def parse_file(text: str) -> Tuple[Optional[Record], Optional[CsEnum]]:
    lines = [l.strip() for l in text.splitlines()]
    lines = [l for l in lines if l and not l.startswith("//")]
    # enum
    for i, l in enumerate(lines):
        m = re.match(rf"public enum ({IDENT})", l)
        if m:
            attrs = _attrs_before(lines, i)
            members = []
            for l2 in lines[i + 1 :]:
                if l2.startswith("}"):
                    break
                mm = re.match(rf'(?:\[EnumMember\(Value = "((?:[^"\\]|\\.)*)"\)\])?\s*({IDENT})\s*(?:=\s*(-?\d+))?\s*,?$', l2)
                if mm and not l2.startswith("["[0:0] + "///") and not l2.startswith("{"):
                    if l2.startswith("["):
                        members.append((mm.group(2), mm.group(1), mm.group(3)))
                    elif re.match(rf"{IDENT}\s*(=\s*-?\d+)?\s*,?$", l2):
                        members.append((mm.group(2), None, mm.group(3)))
            return None, CsEnum(m.group(1), attrs, members)
    for i, l in enumerate(lines):
        m = re.match(rf"public (?:partial )?(?:record|class) ({IDENT})\s*(?::\s*(.*))?$", l)
        if m:
            attrs = _attrs_before(lines, i)
            members: List[Member] = []
            assigned: List[str] = []
            params: List[str] = []
            j = i + 1
            in_ctor = False
            ctor_phase = 0
            while j < len(lines):
                l2 = lines[j]
                if l2.startswith("[JsonConstructor]"):
                    in_ctor = True
                    ctor_phase = 1
                elif in_ctor and ctor_phase == 1:
                    if l2.startswith(")"):
                        ctor_phase = 2
                    elif not l2.startswith("public"):
                        params.append(l2.rstrip(","))
                elif in_ctor and ctor_phase == 2:
                    if l2 == "}":
                        in_ctor = False
                    else:
                        am = re.match(rf"({IDENT})\s*=\s*({IDENT})\s*;", l2)
                        if am:
                            assigned.append(am.group(1))
                dm = re.match(r'\[DataMember\(Name = "((?:[^"\\]|\\.)*)"\)\]', l2)
                if dm and not in_ctor:
                    mattrs = _attrs_before(lines, j)
                    k = j + 1
                    while k < len(lines) and lines[k].startswith("["):
                        mattrs.append(lines[k])
                        k += 1
                    pm = re.match(rf"public (.+?) ({IDENT}) \{{.*?\}}(?:\s*=\s*(.*);)?$", lines[k]) if k < len(lines) else None
                    if pm:
                        members.append(Member(dm.group(1), pm.group(1).strip(), pm.group(2), mattrs, pm.group(3)))
                j += 1
            return Record(m.group(1), (m.group(2) or "").strip(), attrs, members, assigned, params), None
    return None, None


def _attrs_before(lines: List[str], i: int) -> List[str]:
    out = []
    k = i - 1
    while k >= 0 and lines[k].startswith("[") and not lines[k].startswith("[DataMember"):
        out.append(lines[k])
        k -= 1
    return out[::-1]


def upper_camel(s: str) -> str:
    parts = re.sub(r"([a-z0-9])([A-Z])", r"\1 \2", s.replace("_", " ").replace("/", " ").replace("$", " ")).split()
    return "".join(p[:1].upper() + p[1:] for p in parts)


class CsCheck:
    def __init__(self, mm: MetaModel, directory: str):
        self.mm = mm
        self.records: Dict[str, Record] = {}
        self.enums: Dict[str, CsEnum] = {}
        self.files: Dict[str, str] = {}
        for fn in sorted(os.listdir(directory)):
            if fn.endswith(".cs"):
                txt = open(os.path.join(directory, fn), encoding="utf-8").read()
                self.files[fn] = txt
                r, e = parse_file(txt)
                if r:
                    self.records[r.name] = r
                if e:
                    self.enums[e.name] = e
        self.failures: List[Tuple[str, str, Dict[str, Any]]] = []
        self.n = 0
        self.collection_members: List[str] = []

    def ob(self, cond, key, what, **detail):
        self.n += 1
        if not cond:
            self.failures.append((key, what, detail))

    def type_regex(self, t: Dict, depth: int = 0) -> str:
        k = t["kind"]
        if k == "base":
            return re.escape(BASE[t["name"]])
        if k == "stringLiteral":
            return "string"
        if k == "reference":
            n = t["name"]
            if n in self.mm.enumerations and self.mm.enumerations[n].get("supportsCustomValues"):
                return "string" if self.mm.enumerations[n]["type"]["name"] == "string" else "int"
            return IDENT
        if k == "array":
            return rf"ImmutableArray<{self.type_regex(t['element'], depth + 1)}>"
        if k == "map":
            return rf"ImmutableDictionary<{self.type_regex(t['key'], depth + 1)}, (?:{self.type_regex(t['value'], depth + 1)}|{IDENT})>"
        if k == "tuple":
            subs = [self.type_regex(i, depth + 1) for i in t["items"] if not (i["kind"] == "base" and i["name"] == "null")]
            return r"\(" + ", ".join(subs) + r"\)"
        if k == "or":
            subs = [i for i in t["items"] if not (i["kind"] == "base" and i["name"] == "null")]
            if len(subs) == 1:
                return self.type_regex(subs[0], depth + 1)
            alts = ", ".join(self.type_regex(i, depth + 1) for i in subs)
            return rf"(?:OrType<{alts}>|{IDENT})"
        if k in ("literal", "and"):
            return IDENT
        return ".*"

    def check_members(self, rname: str, props: List[Dict], origin: str):
        r = self.records.get(rname)
        self.ob(r is not None, f"dotnet:{rname}.cs:exists", f"{origin}: no record {rname} among the generated .cs files")
        if r is None:
            return
        by_wire = {m.wire: m for m in r.members}
        want = {p["name"] for p in props}
        self.ob(set(by_wire) == want, f"dotnet:{rname}.cs:members", f"record {rname}: data member names {sorted(set(by_wire) ^ want)} differ from the flattened metamodel properties", missing=sorted(want - set(by_wire)), extra=sorted(set(by_wire) - want))
        for p in props:
            m = by_wire.get(p["name"])
            if m is None:
                continue
            t = p["type"]
            nulladm = t["kind"] == "or" and any(i["kind"] == "base" and i["name"] == "null" for i in t["items"])
            optional = bool(p.get("optional"))
            is_coll = m.cs_type.rstrip("?").startswith(("ImmutableArray<", "ImmutableDictionary<"))
            exp_nullable = optional or nulladm
            exp_ignore = optional and not nulladm
            if is_coll and exp_nullable and not m.nullable:
                # recorded defect class (optional immutable collections): one obligation for the whole class
                self.collection_members.append(f"{rname}.{m.name}")
            else:
                self.ob(m.nullable == exp_nullable, f"dotnet:{rname}.cs:{m.name}:nullable", f"record {rname}.{m.name}: {'nullable' if m.nullable else 'not nullable'} but the property is {'optional/null-admitting' if exp_nullable else 'required and not null-admitting'}", cs_type=m.cs_type)
                self.ob(m.null_ignoring == exp_ignore, f"dotnet:{rname}.cs:{m.name}:null-ignoring", f"record {rname}.{m.name}: NullValueHandling.Ignore {'present' if m.null_ignoring else 'absent'} but the property is optional={optional}, null-admitting={nulladm}", attrs=m.attrs)
            rx = self.type_regex(t)
            self.ob(re.fullmatch(rx, m.cs_type.rstrip("?")) is not None, f"dotnet:{rname}.cs:{m.name}:type", f"record {rname}.{m.name}: C# type {m.cs_type} does not have the shape of the mapped metamodel type", cs_type=m.cs_type, expected_shape=rx)
            self.ob(m.name in r.ctor_assigned, f"dotnet:{rname}.cs:{m.name}:ctor", f"record {rname}.{m.name} is not assigned in the [JsonConstructor]", assigned=r.ctor_assigned)

    def run(self) -> List[Tuple[str, str, Dict[str, Any]]]:
        mm = self.mm
        for name, s in mm.structures.items():
            if name.startswith("_") or name == "LSPObject":
                continue
            rn = name
            if name not in self.records:
                # C# forbids a member named like its class (Command.Command): a renamed record is accepted when its name
                # extends the structure's name and its data members are exactly the structure's properties
                want = {p["name"] for p in mm.flatten(name)}
                rn = next((k for k, r in self.records.items() if k.startswith(name) and {m.wire for m in r.members} == want), name)
            self.check_members(rn, mm.flatten(name), f"structure {name}")
        for name, e in mm.enumerations.items():
            en = self.enums.get(name)
            self.ob(en is not None, f"dotnet:{name}.cs:exists", f"enumeration {name}: no enum among the generated .cs files")
            if en is None:
                continue
            is_str = e["type"]["name"] == "string"
            want = sorted(str(v["value"]) for v in e["values"])
            if is_str:
                got = sorted(str(val if val is not None else nm) for nm, val, num in en.members)
            else:
                got = sorted(str(num) for nm, val, num in en.members)
            self.ob(got == want, f"dotnet:{name}.cs:values", f"enum {name}: wire values {sorted(set(got) ^ set(want))} differ from the metamodel", got=got, want=want)
        methods_txt = self.files.get("LSPMethods.cs", "")
        listed = set(re.findall(r'=\s*"((?:[^"\\]|\\.)*)";', methods_txt))
        for m in mm.requests + mm.notifications:
            self.ob(m["method"] in listed, f"dotnet:LSPMethods.cs:{m['method']}", f"LSPMethods has no entry with the exact method string {m['method']!r}")
        for r in mm.requests:
            base = r.get("typeName") or (method_to_class_name(r["method"]) + "Request")
            part = base[:-7] if base.endswith("Request") else base
            rec = self.records.get(base)
            self.ob(rec is not None, f"dotnet:{base}.cs:exists", f"request {r['method']}: no record {base}")
            want_dir = f"MessageDirection.{upper_camel(r['messageDirection'])}"
            if rec is not None:
                attrs = " ".join(rec.attrs)
                mt = re.search(r'LSPRequest\("((?:[^"\\]|\\.)*)",\s*typeof\((\w+)\)', attrs)
                self.ob(mt is not None and mt.group(1) == r["method"], f"dotnet:{base}.cs:LSPRequest method", f"{base}: LSPRequest attribute carries {mt.group(1) if mt else None!r}, not {r['method']!r}")
                self.ob(mt is not None and mt.group(2) == part + "Response", f"dotnet:{base}.cs:LSPRequest pairing", f"{base}: paired with {mt.group(2) if mt else None}, not {part}Response")
                dm = re.search(r"Direction\((MessageDirection\.\w+)\)", attrs)
                self.ob(dm is not None and dm.group(1) == want_dir, f"dotnet:{base}.cs:Direction", f"{base}: tagged {dm.group(1) if dm else None}, the metamodel says {want_dir}")
            resp = self.records.get(part + "Response")
            self.ob(resp is not None, f"dotnet:{part}Response.cs:exists", f"request {r['method']}: no record {part}Response")
            if resp is not None:
                mt = re.search(r"LSPResponse\(typeof\((\w+)\)\)", " ".join(resp.attrs))
                self.ob(mt is not None and mt.group(1) == base, f"dotnet:{part}Response.cs:LSPResponse pairing", f"{part}Response: paired with {mt.group(1) if mt else None}, not {base}")
        for nt in mm.notifications:
            base = nt.get("typeName") or (method_to_class_name(nt["method"]) + "Notification")
            rec = self.records.get(base)
            self.ob(rec is not None, f"dotnet:{base}.cs:exists", f"notification {nt['method']}: no record {base}")
            want_dir = f"MessageDirection.{upper_camel(nt['messageDirection'])}"
            if rec is not None:
                dm = re.search(r"Direction\((MessageDirection\.\w+)\)", " ".join(rec.attrs))
                self.ob(dm is not None and dm.group(1) == want_dir, f"dotnet:{base}.cs:Direction", f"{base}: tagged {dm.group(1) if dm else None}, the metamodel says {want_dir}")
        # the recorded defect class, as ONE obligation
        self.ob(not self.collection_members, "dotnet:optional-immutable-collections", f"{len(self.collection_members)} optional ImmutableArray/ImmutableDictionary members are neither nullable nor null-ignoring (e.g. {self.collection_members[:3]})", members=self.collection_members[:200])
        return self.failures
