"""Which Python class stands for which metamodel declaration (names taken from the metamodel)."""
from __future__ import annotations

from dataclasses import dataclass, field
from typing import Any, Dict, List, Optional

from .metamodel import MetaModel

ID_REQ = {"kind": "or", "items": [{"kind": "base", "name": "integer"}, {"kind": "base", "name": "string"}]}
ID_RESP = {"kind": "or", "items": [{"kind": "base", "name": "integer"}, {"kind": "base", "name": "string"}, {"kind": "base", "name": "null"}]}
JSONRPC = {"kind": "stringLiteral", "value": "2.0"}


@dataclass
class Decl:
    kind: str  # structure | and | literal | request | response | notification
    pyname: str
    props: List[Dict[str, Any]]
    origin: str
    msg: Optional[Dict[str, Any]] = None


def message_decls(mm: MetaModel) -> List[Decl]:
    out: List[Decl] = []
    for r in mm.requests:
        req = mm.class_name_of_message(r, "Request")
        resp = mm.class_name_of_message(r, "Response")
        props = [{"name": "id", "type": ID_REQ, "_envelope": True}]
        if r.get("params"):
            props.append({"name": "params", "type": r["params"], "_envelope": True})
        else:
            props.append({"name": "params", "type": {"kind": "base", "name": "null"}, "optional": True, "_envelope": True, "_absent": True})
        props.append({"name": "method", "type": {"kind": "stringLiteral", "value": r["method"]}, "_envelope": True})
        props.append({"name": "jsonrpc", "type": JSONRPC, "_envelope": True})
        out.append(Decl("request", req, props, f"request {r['method']}", r))
        rprops = [
            {"name": "id", "type": ID_RESP, "_envelope": True, "_required_even_if_null": True},
            {"name": "result", "type": r.get("result") or {"kind": "base", "name": "null"}, "_envelope": True, "_always_written": True},
            {"name": "jsonrpc", "type": JSONRPC, "_envelope": True},
        ]
        out.append(Decl("response", resp, rprops, f"response {r['method']}", r))
    for n in mm.notifications:
        cn = mm.class_name_of_message(n, "Notification")
        props = []
        if n.get("params"):
            props.append({"name": "params", "type": n["params"], "_envelope": True})
        else:
            props.append({"name": "params", "type": {"kind": "base", "name": "null"}, "optional": True, "_envelope": True, "_absent": True})
        props.append({"name": "method", "type": {"kind": "stringLiteral", "value": n["method"]}, "_envelope": True})
        props.append({"name": "jsonrpc", "type": JSONRPC, "_envelope": True})
        out.append(Decl("notification", cn, props, f"notification {n['method']}", n))
    return out


def and_decls(mm: MetaModel) -> List[Decl]:
    out = []
    for m in mm.requests + mm.notifications:
        is_req = m in mm.requests
        base = m.get("typeName") or None
        from .metamodel import method_to_class_name

        base = base or method_to_class_name(m["method"])
        for f, suffix in (("params", "Params"), ("registrationOptions", "Options")):
            t = m.get(f)
            if t and t["kind"] == "and":
                out.append(Decl("and", f"{base}{suffix}", mm.and_props(t), f"{m['method']}:{f}"))
    return out


def structure_decls(mm: MetaModel) -> List[Decl]:
    return [Decl("structure", n, mm.flatten(n), f"structure {n}") for n in mm.structures]


def all_class_decls(mm: MetaModel) -> List[Decl]:
    return structure_decls(mm) + and_decls(mm) + message_decls(mm)
