"""Random instances of the JSON-Schema subset lsp.schema.json uses ($ref, anyOf, const, enum, type, properties, required,
additionalProperties: false, items).  Used by C18: "every schema-valid document loads losslessly" quantifies over documents, and the
committed lsp.json exercises only part of what the schema admits (list-valued params, empty arrays, every optional annotation)."""
from __future__ import annotations

import random
from typing import Any, Dict, List, Optional, Set

STRINGS = ["", "a", "Name", "x y", "naïve", "3.17.0", "line\r\nbreak", "$/odd.method", "textDocument/x"]


class SchemaGen:
    def __init__(self, schema: Dict, exclude_defs: Set[str] = frozenset(), drop_props: Optional[Dict[str, Set[str]]] = None, max_depth: int = 5):
        self.schema = schema
        self.defs = schema["definitions"]
        self.exclude = set(exclude_defs)
        self.drop_props = drop_props or {}
        self.max_depth = max_depth
        self.cost: Dict[str, int] = {}
        self._costs()

    # minimal nesting depth needed to finish an instance of each definition (fixpoint): used to stop recursion
    def _costs(self):
        INF = 10**6
        self.cost = {k: INF for k in self.defs}
        changed = True
        while changed:
            changed = False
            for k, d in self.defs.items():
                c = self._cost_of(d)
                if c < self.cost[k]:
                    self.cost[k] = c
                    changed = True

    def _cost_of(self, s: Dict) -> int:
        INF = 10**6
        if "$ref" in s:
            name = s["$ref"].rsplit("/", 1)[1]
            return INF if name in self.exclude else self.cost.get(name, INF)
        if "anyOf" in s:
            return min(self._cost_of(a) for a in s["anyOf"])
        if "const" in s or "enum" in s:
            return 0
        t = s.get("type")
        if t == "object":
            req = s.get("required", [])
            return 1 + max([self._cost_of(s["properties"][r]) for r in req] or [0])
        if t == "array":
            return 0  # the empty array
        return 0

    def gen(self, s: Dict, rng: random.Random, depth: int = 0, def_name: str = "") -> Any:
        if "$ref" in s:
            name = s["$ref"].rsplit("/", 1)[1]
            return self.gen(self.defs[name], rng, depth, name)
        if "anyOf" in s:
            alts = [a for a in s["anyOf"] if self._cost_of(a) < 10**6]
            if depth >= self.max_depth:
                m = min(self._cost_of(a) for a in alts)
                alts = [a for a in alts if self._cost_of(a) == m]
            return self.gen(rng.choice(alts), rng, depth, def_name)
        if "const" in s:
            return s["const"]
        if "enum" in s:
            return rng.choice(s["enum"])
        t = s.get("type")
        if isinstance(t, list):
            t = rng.choice(t)
        if t == "object":
            out: Dict[str, Any] = {}
            req = set(s.get("required", []))
            dropped = self.drop_props.get(def_name, set())
            for k, ps in s.get("properties", {}).items():
                if k in dropped:
                    continue
                need = k in req
                if not need:
                    if depth >= self.max_depth and self._cost_of(ps) > 0:
                        continue
                    if rng.random() < 0.5:
                        continue
                out[k] = self.gen(ps, rng, depth + 1)
            return out
        if t == "array":
            if depth >= self.max_depth and self._cost_of(s.get("items", {})) > 0:
                return []
            n = rng.choice([0, 0, 1, 1, 2, 3])
            return [self.gen(s.get("items", {}), rng, depth + 1) for _ in range(n)]
        if t == "string":
            return rng.choice(STRINGS)
        if t == "boolean":
            return rng.random() < 0.5
        if t == "integer":
            return rng.choice([0, 1, -1, 7, 2**31])
        if t == "number":
            return rng.choice([0, 1, 2.5, -3])
        if t == "null":
            return None
        return rng.choice(STRINGS)

    def document(self, rng: random.Random, root: str = "MetaModel") -> Any:
        return self.gen({"$ref": f"#/definitions/{root}"}, rng, 0)


def scalar_positions(doc: Any, path=()) -> List[tuple]:
    """Paths of all string / bool / number leaves."""
    out: List[tuple] = []
    if isinstance(doc, dict):
        for k, v in doc.items():
            out += scalar_positions(v, path + (k,))
    elif isinstance(doc, list):
        for i, v in enumerate(doc):
            out += scalar_positions(v, path + (i,))
    elif doc is not None:
        out.append(path)
    return out
