"""Native (concrete) oracles used to replay counterexamples against the real converter."""
from __future__ import annotations

import enum
import json
from typing import Any, Dict, List, Optional, Tuple

from .metamodel import MetaModel, is_num


def json_equal(a: Any, b: Any) -> bool:
    """JSON equality: numbers compare numerically, bool never equals a number, tuples = lists.  Iterative (an explicit work list): valid
    values may be nested hundreds of levels deep and the checker must not be the one that runs out of stack."""
    work = [(a, b)]
    while work:
        a, b = work.pop()
        if isinstance(a, enum.Enum):
            a = a.value
        if isinstance(b, enum.Enum):
            b = b.value
        if isinstance(a, bool) or isinstance(b, bool):
            if not (isinstance(a, bool) and isinstance(b, bool) and a == b):
                return False
            continue
        if is_num(a) and is_num(b):
            if a != b:
                return False
            continue
        if isinstance(a, (list, tuple)) and isinstance(b, (list, tuple)):
            if len(a) != len(b):
                return False
            work.extend(zip(a, b))
            continue
        if isinstance(a, dict) and isinstance(b, dict):
            if any(not isinstance(k, str) for k in a) or any(not isinstance(k, str) for k in b):
                a, b = _strkeys(a), _strkeys(b)  # JSON object keys are strings (integer-keyed maps)
            if set(a) != set(b):
                return False
            work.extend((a[k], b[k]) for k in a)
            continue
        if not (type(a) is type(b) and a == b):
            return False
    return True


def _strkeys(d: Dict) -> Dict:
    return {(k if isinstance(k, str) else json.dumps(k)): v for k, v in d.items()}


def _short(v: Any) -> str:
    try:
        return json.dumps(v, default=str)[:100]
    except (RecursionError, ValueError):
        return f"<{type(v).__name__} too deep to print>"


def json_diff(a: Any, b: Any, path: str = "$") -> Optional[str]:
    """First difference, found by walking down (iteratively) into the first child that differs."""
    if json_equal(a, b):
        return None
    while True:
        if isinstance(a, dict) and isinstance(b, dict):
            a, b = _strkeys(a), _strkeys(b)
            for k in a:
                if k not in b:
                    return f"{path}.{k}: lost (was {_short(a[k])[:80]})"
            for k in b:
                if k not in a:
                    return f"{path}.{k}: appeared ({_short(b[k])[:80]})"
            nxt = next((k for k in a if not json_equal(a[k], b[k])), None)
            if nxt is None:
                return f"{path}: differs"
            a, b, path = a[nxt], b[nxt], f"{path}.{nxt}"
            continue
        if isinstance(a, (list, tuple)) and isinstance(b, (list, tuple)) and len(a) == len(b):
            i = next((i for i, (x, y) in enumerate(zip(a, b)) if not json_equal(x, y)), None)
            if i is None:
                return f"{path}: differs"
            a, b, path = a[i], b[i], f"{path}[{i}]"
            continue
        return f"{path}: {_short(a)} became {_short(b)}"


def reading_problem(live, mm: MetaModel, result: Any, tau: Dict, j: Any, path: str = "$") -> Optional[str]:
    """Is `result` (what structuring returned at a position of type tau for input j) an instance of an alternative
    for which j is valid, with no raw dict where a class is declared?  None = fine."""
    attrs = live.attrs
    if result is None:
        return None if j is None else f"{path}: None returned for non-null input"
    if attrs.has(type(result)):
        cname = type(result).__name__
        if cname in mm.structures:
            if not isinstance(j, dict):
                return f"{path}: {cname} built from a non-object"
            if not mm.valid({"kind": "reference", "name": cname}, j, False):
                return f"{path}: parsed as {cname}, for which the input is not valid"
            from contracts.hooks_generic import classes_admitted

            adm = classes_admitted(mm, tau)
            if adm and cname not in adm:
                return f"{path}: parsed as {cname}, which is not an alternative of {_tname(tau)}"
            return None
        return None
    if isinstance(result, dict):
        tt = mm.resolve_alias(tau)
        if _admits_raw(mm, tau, "obj"):
            return None
        return f"{path}: raw dict where {_tname(tau)} declares classes"
    if isinstance(result, (list, tuple)):
        if not isinstance(j, (list, tuple)) or len(j) != len(result):
            return f"{path}: sequence shape changed"
        from contracts.hooks_generic import array_element_type, tuple_alternative

        eps = array_element_type(mm, tau)
        tt = tuple_alternative(mm, tau, len(result)) if isinstance(result, tuple) else None
        for i, (r, x) in enumerate(zip(result, j)):
            et = tt["items"][i] if tt else eps
            if et is None:
                return f"{path}: sequence where {_tname(tau)} has no array alternative"
            pr = reading_problem(live, mm, r, et, x, f"{path}[{i}]")
            if pr:
                return pr
        return None
    # scalar / enum member
    if isinstance(result, enum.Enum):
        return None if json_equal(result.value, j) else f"{path}: enum value changed"
    return None if json_equal(result, j) else f"{path}: scalar changed from {j!r} to {result!r}"


def _admits_raw(mm: MetaModel, tau: Dict, what: str, depth: int = 0) -> bool:
    t = tau
    if t["kind"] == "reference":
        if t["name"] in ("LSPAny", "LSPObject"):
            return True
        if t["name"] in mm.aliases and depth < 8:
            return _admits_raw(mm, mm.aliases[t["name"]]["type"], what, depth + 1)
        return False
    if t["kind"] == "or":
        return any(_admits_raw(mm, it, what, depth + 1) for it in t["items"])
    if t["kind"] == "map":
        return True
    if t["kind"] == "literal" and not t["value"]["properties"]:
        return True
    return False


def _tname(t: Dict) -> str:
    if t["kind"] in ("base", "reference"):
        return t["name"]
    if t["kind"] == "or":
        return " | ".join(_tname(i) for i in t["items"])
    if t["kind"] == "array":
        return _tname(t["element"]) + "[]"
    return t["kind"]


def check_union_position(live, mm: MetaModel, annotation: Any, tau: Dict, j: Any) -> Dict[str, Any]:
    """Structure j at a union position and compare with the properties' oracles."""
    out: Dict[str, Any] = {"input": j, "valid_strict": mm.valid(tau, j, True)}
    conv = live.converter
    try:
        obj = conv.structure(j, annotation)
    except Exception as e:  # noqa
        out["raised"] = f"{type(e).__name__}: {str(e)[:300]}"
        return out
    out["result_type"] = _shape(obj)
    out["reading_problem"] = reading_problem(live, mm, obj, tau, j)
    try:
        back = conv.unstructure(obj)
        out["unstructured"] = back
        out["normal_form"] = mm.norm(tau, j)
        out["loss"] = json_diff(out["normal_form"], back)
    except Exception as e:  # noqa
        out["unstructure_raised"] = f"{type(e).__name__}: {str(e)[:300]}"
    return out


def _shape(obj: Any) -> Any:
    if isinstance(obj, (list, tuple)):
        return [_shape(x) for x in obj[:4]]
    return type(obj).__name__
