"""The documented metamodel -> Python annotation mapping, built from live classes of lsprotocol.types."""
from __future__ import annotations

import typing
from typing import Any, Dict, List, Optional, Sequence, Tuple, Union

from .metamodel import MetaModel

NoneType = type(None)


class Unmappable(Exception):
    pass


def expected_annotation(mm: MetaModel, T, t: Dict, optional: bool = False, literal_class=None) -> Any:
    """Typing object the attribute annotation must equal (typing ==) for metamodel type t."""
    a = _map(mm, T, t, literal_class)
    if optional or mm.null_admitting(t):
        return Optional[a]
    return a


def _map(mm: MetaModel, T, t: Dict, literal_class=None) -> Any:
    k = t["kind"]
    if k == "base":
        n = t["name"]
        m = {"integer": int, "uinteger": int, "decimal": float, "boolean": bool, "null": NoneType, "string": str, "DocumentUri": str, "URI": str, "RegExp": str}
        if n not in m:
            raise Unmappable(f"base {n}")
        return m[n]
    if k == "stringLiteral":
        return str
    if k == "reference":
        n = t["name"]
        if n == "LSPArray":
            return Sequence[T.LSPAny]
        if n in mm.aliases and n not in ("LSPAny", "LSPObject"):
            # module-level alias objects may keep forward references; expand through the metamodel instead
            return _map(mm, T, mm.aliases[n]["type"], literal_class)
        obj = getattr(T, n, None)
        if obj is None:
            raise Unmappable(f"no definition named {n} in lsprotocol.types")
        if n in mm.enumerations and mm.is_open_enum(n):
            base = str if mm.enumerations[n]["type"]["name"] == "string" else int
            return Union[obj, base]
        return obj
    if k == "array":
        return Sequence[_map(mm, T, t["element"], literal_class)]
    if k == "map":
        return Dict[_map(mm, T, t["key"], literal_class), _map(mm, T, t["value"], literal_class)]
    if k == "tuple":
        return Tuple[tuple(_map(mm, T, it, literal_class) for it in t["items"])]
    if k == "or":
        return Union[tuple(_map(mm, T, it, literal_class) for it in t["items"])]
    if k == "literal":
        if not t["value"]["properties"]:
            return Any
        if literal_class is not None:
            c = literal_class(t)
            if c is not None:
                return c
        raise Unmappable("anonymous literal")
    if k == "and":
        if literal_class is not None:
            c = literal_class(t)
            if c is not None:
                return c
        raise Unmappable("and type")
    raise Unmappable(k)


def has_forward_ref(ann: Any, depth: int = 0) -> Optional[str]:
    """Return a description of an unresolved reference inside a typing object, else None."""
    if isinstance(ann, str):
        return repr(ann)
    if isinstance(ann, typing.ForwardRef):
        return repr(ann)
    if depth > 12 or typing.get_origin(ann) is typing.Literal:
        return None
    for a in typing.get_args(ann):
        if a is Ellipsis:
            continue
        r = has_forward_ref(a, depth + 1)
        if r:
            return r
    return None


def typed_problem(live, ann: Any, obj: Any, path: str = "$", depth: int = 0) -> Optional[str]:
    """C03's typedness walk: does obj (and everything inside) hold values of the annotated types?"""
    attrs = live.attrs
    import enum

    if depth > 40:
        return None
    if ann is Any or ann is object or ann is typing.Any:
        return None
    if ann is getattr(live.types, "LSPObject", None) or ann is getattr(live.types, "LSPAny", None):
        return None  # uninterpreted JSON is what these positions hold
    origin = typing.get_origin(ann)
    if origin is Union:
        probs = []
        for a in typing.get_args(ann):
            p = typed_problem(live, a, obj, path, depth + 1)
            if p is None:
                return None
            probs.append(p)
        deep = max(probs, key=lambda q: q.count(".") + q.count("["))
        if deep.split(":")[0] != path:
            return deep
        return f"{path}: value of type {type(obj).__name__} matches no member of {ann}"
    if ann is NoneType or ann is None:
        return None if obj is None else f"{path}: expected None, got {type(obj).__name__}"
    if origin in (typing.Sequence, list) or getattr(origin, "__name__", "") in ("Sequence", "list"):
        if not isinstance(obj, (list, tuple)):
            return f"{path}: expected a sequence, got {type(obj).__name__}"
        (ea,) = typing.get_args(ann) or (Any,)
        for i, x in enumerate(obj):
            p = typed_problem(live, ea, x, f"{path}[{i}]", depth + 1)
            if p:
                return p
        return None
    if origin is tuple or getattr(origin, "__name__", "") == "tuple":
        if not isinstance(obj, tuple):
            return f"{path}: expected a tuple, got {type(obj).__name__}"
        args = typing.get_args(ann)
        if len(args) != len(obj):
            return f"{path}: tuple arity"
        for i, (a, x) in enumerate(zip(args, obj)):
            p = typed_problem(live, a, x, f"{path}[{i}]", depth + 1)
            if p:
                return p
        return None
    if origin is dict or getattr(origin, "__name__", "") == "dict":
        if not isinstance(obj, dict):
            return f"{path}: expected a dict, got {type(obj).__name__}"
        ka, va = typing.get_args(ann) or (Any, Any)
        for k, v in obj.items():
            p = typed_problem(live, va, v, f"{path}[{k!r}]", depth + 1)
            if p:
                return p
        return None
    if origin is typing.Literal:
        return None if obj in typing.get_args(ann) else f"{path}: {obj!r} not in {ann}"
    if isinstance(ann, type):
        if attrs.has(ann):
            if not isinstance(obj, ann):
                return f"{path}: expected {ann.__name__}, got {type(obj).__name__}"
            for f in attrs.fields(type(obj)):
                p = typed_problem(live, f.type, getattr(obj, f.name), f"{path}.{f.name}", depth + 1)
                if p:
                    return p
            return None
        if issubclass(ann, enum.Enum):
            if isinstance(obj, ann):
                return None
            try:
                ann(obj)
                return None  # a primitive equal to a member
            except Exception:
                return f"{path}: {obj!r} is not a member of {ann.__name__}"
        if ann is float:
            return None if isinstance(obj, (int, float)) and not isinstance(obj, bool) else f"{path}: expected a number, got {type(obj).__name__}"
        if ann is int:
            return None if isinstance(obj, int) and not isinstance(obj, bool) else f"{path}: expected int, got {type(obj).__name__}"
        if ann is object:
            return None
        return None if isinstance(obj, ann) else f"{path}: expected {ann.__name__}, got {type(obj).__name__}"
    return None
