"""The documented metamodel -> Python annotation mapping, built from live classes of lsprotocol.types."""
from __future__ import annotations

import typing
from typing import Any, Dict, List, Optional, Sequence, Tuple, Union

from .metamodel import MetaModel

NoneType = type(None)


class Unmappable(Exception):
    pass


def expected_annotation(mm: MetaModel, T, t: Dict, optional: bool = False, literal_class=None) -> Any:
    """Typing object the attribute annotation must equal (typing ==) for metamodel type t."""
    a = _map(mm, T, t, literal_class)
    if optional or mm.null_admitting(t):
        return Optional[a]
    return a


def _map(mm: MetaModel, T, t: Dict, literal_class=None) -> Any:
    k = t["kind"]
    if k == "base":
        n = t["name"]
        m = {"integer": int, "uinteger": int, "decimal": float, "boolean": bool, "null": NoneType, "string": str, "DocumentUri": str, "URI": str, "RegExp": str}
        if n not in m:
            raise Unmappable(f"base {n}")
        return m[n]
    if k == "stringLiteral":
        return str
    if k == "reference":
        n = t["name"]
        if n == "LSPArray":
            return Sequence[T.LSPAny]
        if n in mm.aliases and n not in ("LSPAny", "LSPObject"):
            # module-level alias objects may keep forward references; expand through the metamodel instead
            return _map(mm, T, mm.aliases[n]["type"], literal_class)
        obj = getattr(T, n, None)
        if obj is None:
            raise Unmappable(f"no definition named {n} in lsprotocol.types")
        if n in mm.enumerations and mm.is_open_enum(n):
            base = str if mm.enumerations[n]["type"]["name"] == "string" else int
            return Union[obj, base]
        return obj
    if k == "array":
        return Sequence[_map(mm, T, t["element"], literal_class)]
    if k == "map":
        return Dict[_map(mm, T, t["key"], literal_class), _map(mm, T, t["value"], literal_class)]
    if k == "tuple":
        return Tuple[tuple(_map(mm, T, it, literal_class) for it in t["items"])]
    if k == "or":
        return Union[tuple(_map(mm, T, it, literal_class) for it in t["items"])]
    if k == "literal":
        if not t["value"]["properties"]:
            return Any
        if literal_class is not None:
            c = literal_class(t)
            if c is not None:
                return c
        raise Unmappable("anonymous literal")
    if k == "and":
        if literal_class is not None:
            c = literal_class(t)
            if c is not None:
                return c
        raise Unmappable("and type")
    raise Unmappable(k)


def has_forward_ref(ann: Any, depth: int = 0) -> Optional[str]:
    """Return a description of an unresolved reference inside a typing object, else None."""
    if isinstance(ann, str):
        return repr(ann)
    if isinstance(ann, typing.ForwardRef):
        return repr(ann)
    if depth > 12 or typing.get_origin(ann) is typing.Literal:
        return None
    for a in typing.get_args(ann):
        if a is Ellipsis:
            continue
        r = has_forward_ref(a, depth + 1)
        if r:
            return r
    return None


def typed_problem(live, ann: Any, obj: Any, path: str = "$", depth: int = 0) -> Optional[str]:
    """C03's typedness walk: does obj (and everything inside) hold values of the annotated types?"""
    attrs = live.attrs
    import enum

    if depth > 40:
        return None
    if ann is Any or ann is object or ann is typing.Any:
        return None
    if ann is getattr(live.types, "LSPObject", None) or ann is getattr(live.types, "LSPAny", None):
        return None  # uninterpreted JSON is what these positions hold
    origin = typing.get_origin(ann)
    if origin is Union:
        probs = []
        for a in typing.get_args(ann):
            p = typed_problem(live, a, obj, path, depth + 1)
            if p is None:
                return None
            probs.append(p)
        deep = max(probs, key=lambda q: q.count(".") + q.count("["))
        if deep.split(":")[0] != path:
            return deep
        return f"{path}: value of type {type(obj).__name__} matches no member of {ann}"
    if ann is NoneType or ann is None:
        return None if obj is None else f"{path}: expected None, got {type(obj).__name__}"
    if origin in (typing.Sequence, list) or getattr(origin, "__name__", "") in ("Sequence", "list"):
        if not isinstance(obj, (list, tuple)):
            return f"{path}: expected a sequence, got {type(obj).__name__}"
        (ea,) = typing.get_args(ann) or (Any,)
        for i, x in enumerate(obj):
            p = typed_problem(live, ea, x, f"{path}[{i}]", depth + 1)
            if p:
                return p
        return None
    if origin is tuple or getattr(origin, "__name__", "") == "tuple":
        if not isinstance(obj, tuple):
            return f"{path}: expected a tuple, got {type(obj).__name__}"
        args = typing.get_args(ann)
        if len(args) != len(obj):
            return f"{path}: tuple arity"
        for i, (a, x) in enumerate(zip(args, obj)):
            p = typed_problem(live, a, x, f"{path}[{i}]", depth + 1)
            if p:
                return p
        return None
    if origin is dict or getattr(origin, "__name__", "") == "dict":
        if not isinstance(obj, dict):
            return f"{path}: expected a dict, got {type(obj).__name__}"
        ka, va = typing.get_args(ann) or (Any, Any)
        for k, v in obj.items():
            p = typed_problem(live, va, v, f"{path}[{k!r}]", depth + 1)
            if p:
                return p
        return None
    if origin is typing.Literal:
        return None if obj in typing.get_args(ann) else f"{path}: {obj!r} not in {ann}"
    if isinstance(ann, type):
        if attrs.has(ann):
            if not isinstance(obj, ann):
                return f"{path}: expected {ann.__name__}, got {type(obj).__name__}"
            for f in attrs.fields(type(obj)):
                p = typed_problem(live, f.type, getattr(obj, f.name), f"{path}.{f.name}", depth + 1)
                if p:
                    return p
            return None
        if issubclass(ann, enum.Enum):
            if isinstance(obj, ann):
                return None
            try:
                ann(obj)
                return None  # a primitive equal to a member
            except Exception:
                return f"{path}: {obj!r} is not a member of {ann.__name__}"
        if ann is float:
            return None if isinstance(obj, (int, float)) and not isinstance(obj, bool) else f"{path}: expected a number, got {type(obj).__name__}"
        if ann is int:
            return None if isinstance(obj, int) and not isinstance(obj, bool) else f"{path}: expected int, got {type(obj).__name__}"
        if ann is object:
            return None
        return None if isinstance(obj, ann) else f"{path}: expected {ann.__name__}, got {type(obj).__name__}"
    return None


# ---------------------------------------------------------------------------------------------
# structural comparison (anonymous literal / and types are compared by structure, not by generated name)
# ---------------------------------------------------------------------------------------------


def contains_anonymous(t: Dict) -> bool:
    k = t["kind"]
    if k == "literal":
        return bool(t["value"]["properties"])
    if k == "and":
        return True
    if k == "array":
        return contains_anonymous(t["element"])
    if k == "map":
        return contains_anonymous(t["value"])
    if k in ("or", "tuple"):
        return any(contains_anonymous(i) for i in t["items"])
    return False


def annotation_matches(live, mm: MetaModel, ann: Any, t: Dict, optional: bool, depth: int = 0) -> bool:
    """ann is the mapping of t (wrapped in Optional when optional or null-admitting); literals matched structurally."""
    if not contains_anonymous(t):
        try:
            return ann == expected_annotation(mm, live.types, t, optional)
        except Unmappable:
            return False
    if optional or mm.null_admitting(t):
        if typing.get_origin(ann) is not Union or NoneType not in typing.get_args(ann):
            return False
        rest = [a for a in typing.get_args(ann) if a is not NoneType]
        ann2 = rest[0] if len(rest) == 1 else Union[tuple(rest)]
        t2 = t
        if t["kind"] == "or":
            items = [i for i in t["items"] if not (i["kind"] == "base" and i["name"] == "null")]
            t2 = items[0] if len(items) == 1 else {"kind": "or", "items": items}
        return _struct_match(live, mm, ann2, t2, depth)
    return _struct_match(live, mm, ann, t, depth)


def _struct_match(live, mm: MetaModel, ann: Any, t: Dict, depth: int) -> bool:
    if depth > 12:
        return True
    if not contains_anonymous(t):
        try:
            return ann == _map(mm, live.types, t)
        except Unmappable:
            return False
    k = t["kind"]
    origin = typing.get_origin(ann)
    if k in ("literal", "and"):
        props = t["value"]["properties"] if k == "literal" else mm.and_props(t)
        if not (isinstance(ann, type) and live.attrs.has(ann)):
            return False
        fields = {(live.wire_name(ann, a.name) or a.name): a for a in live.attrs.fields(ann)}
        if set(fields) != {p["name"] for p in props}:
            return False
        return all(annotation_matches(live, mm, fields[p["name"]].type, p["type"], bool(p.get("optional")), depth + 1) for p in props)
    if k == "array":
        args = typing.get_args(ann)
        return getattr(origin, "__name__", "") in ("Sequence", "list") and len(args) == 1 and _struct_match(live, mm, args[0], t["element"], depth + 1)
    if k == "map":
        args = typing.get_args(ann)
        return getattr(origin, "__name__", "") in ("dict", "Dict") and len(args) == 2 and _struct_match(live, mm, args[1], t["value"], depth + 1)
    if k == "tuple":
        args = typing.get_args(ann)
        return getattr(origin, "__name__", "") in ("tuple", "Tuple") and len(args) == len(t["items"]) and all(_struct_match(live, mm, a, it, depth + 1) for a, it in zip(args, t["items"]))
    if k == "or":
        args = list(typing.get_args(ann)) if origin is Union else [ann]
        items = list(t["items"])
        used = set()
        for it in items:
            hit = None
            for i, a in enumerate(args):
                if i in used:
                    continue
                if (it["kind"] == "base" and it["name"] == "null" and a is NoneType) or (not (it["kind"] == "base" and it["name"] == "null") and _struct_match(live, mm, a, it, depth + 1)):
                    hit = i
                    break
            if hit is None:
                return False
            used.add(hit)
        return len(used) == len(args)
    return False


def all_anonymous_types(mm: MetaModel) -> List[Dict]:
    out: List[Dict] = []

    def walk(t):
        k = t["kind"]
        if k == "literal":
            if t["value"]["properties"]:
                out.append(t)
            for p in t["value"]["properties"]:
                walk(p["type"])
        elif k == "and":
            out.append(t)
        elif k == "array":
            walk(t["element"])
        elif k == "map":
            walk(t["value"])
        elif k in ("or", "tuple"):
            for i in t["items"]:
                walk(i)

    for _, t in mm.all_types_iter():
        walk(t)
    return out
