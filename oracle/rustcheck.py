"""C07's postcondition of generate_lib_rs, evaluated on the emitted text against the metamodel."""
from __future__ import annotations

import re
from typing import Any, Dict, List, Optional, Set, Tuple

from .metamodel import MetaModel, method_to_class_name
from .rustparse import Item, parse, serde_camel, strip_box

BASE = {"string": "String", "RegExp": "String", "DocumentUri": "Url", "URI": "Url", "decimal": "Decimal", "integer": "i32", "uinteger": "u32", "boolean": "bool"}
LIT = "«lit»"


class RustCheck:
    def __init__(self, mm: MetaModel, src: str):
        self.mm = mm
        self.items = parse(src)
        self.by_name: Dict[str, List[Item]] = {}
        for it in self.items:
            self.by_name.setdefault(it.name, []).append(it)
        self.failures: List[Tuple[str, str, Dict[str, Any]]] = []
        self.n = 0

    def ob(self, cond: bool, key: str, what: str, **detail):
        self.n += 1
        if not cond:
            self.failures.append((key, what, detail))

    def item(self, name: str, kind: str) -> Optional[Item]:
        for it in self.by_name.get(name, []):
            if it.kind == kind:
                return it
        return None

    # ------------------------------------------------------------------ type mapping of the statement
    def rust_type(self, t: Dict, top: bool = True) -> str:
        """Mapped Rust type.  At the top of a property the Option wrapper of a null-admitting type is checked separately; a
        null-admitting type NESTED in an array / map / tuple / union maps to Option<T> (null is a value there)."""
        k = t["kind"]
        if not top and k in ("or", "tuple") and any(i["kind"] == "base" and i["name"] == "null" for i in t["items"]):
            return f"Option<{self.rust_type(t, True)}>"
        if k == "base":
            if t["name"] == "null":
                return "LSPNull"
            return BASE[t["name"]]
        if k == "stringLiteral":
            return "String"
        if k == "reference":
            n = t["name"]
            if n in self.mm.enumerations and self.mm.enumerations[n].get("supportsCustomValues"):
                return f"CustomStringEnum<{n}>" if self.mm.enumerations[n]["type"]["name"] == "string" else f"CustomIntEnum<{n}>"
            return n
        if k == "array":
            return f"Vec<{self.rust_type(t['element'], False)}>"
        if k == "map":
            return f"HashMap<{self.rust_type(t['key'], False)},{self.rust_type(t['value'], False)}>"
        if k == "or":
            subs = [self.rust_type(i, False) for i in t["items"] if not (i["kind"] == "base" and i["name"] == "null")]
            if len(subs) == 1:
                return subs[0]
            return f"OR{len(subs)}<{','.join(subs)}>"
        if k == "tuple":
            subs = [self.rust_type(i, False) for i in t["items"] if not (i["kind"] == "base" and i["name"] == "null")]
            return subs[0] if len(subs) == 1 else f"({','.join(subs)})"
        if k == "literal":
            return LIT if t["value"]["properties"] else "LSPObject"
        return f"<{k}>"

    def type_matches(self, got: str, want: str, lits: List[Dict]) -> bool:
        got = strip_box(got.replace(" ", ""))
        if LIT not in want:
            return got == want
        rx = re.escape(want).replace(re.escape(LIT), r"([A-Za-z0-9_]+)")
        m = re.fullmatch(rx, got)
        if not m:
            return False
        # each captured identifier names a struct whose serde field names equal the literal's property names
        for ident, lit in zip(m.groups(), lits):
            st = self.item(ident, "struct")
            if st is None:
                return False
            names = {f.rename or serde_camel(f.name) for f in st.fields}
            if names != {p["name"] for p in lit["value"]["properties"]}:
                return False
        return True

    def literals_in(self, t: Dict) -> List[Dict]:
        out = []

        def walk(x):
            k = x["kind"]
            if k == "literal":
                if x["value"]["properties"]:
                    out.append(x)
            elif k == "array":
                walk(x["element"])
            elif k == "map":
                walk(x["value"])
            elif k in ("or", "tuple"):
                for i in x["items"]:
                    walk(i)

        walk(t)
        return out

    def option_expected(self, p: Dict) -> bool:
        t = p["type"]
        nulladm = t["kind"] in ("or", "tuple") and any(i["kind"] == "base" and i["name"] == "null" for i in t["items"])
        return bool(p.get("optional")) or nulladm

    # ------------------------------------------------------------------ checks
    def check_struct_props(self, sname: str, props: List[Dict], gated_expected: Optional[bool], origin: str):
        st = self.item(sname, "struct")
        self.ob(st is not None, f"rust:struct {sname}:exists", f"{origin}: no struct {sname} in lib.rs")
        if st is None:
            return
        if gated_expected is not None:
            self.ob(st.gated == gated_expected, f"rust:struct {sname}:gate", f"struct {sname} is {'not ' if not st.gated else ''}feature-gated but {origin} is {'not ' if not gated_expected else ''}proposed")
        camel = st.rename_all == "camelCase"
        names = {}
        for f in st.fields:
            names[f.rename or (serde_camel(f.name) if camel else f.name)] = f
        want = {p["name"] for p in props}
        self.ob(set(names) == want, f"rust:struct {sname}:fields", f"struct {sname}: serde field names {sorted(set(names) ^ want)} differ from the flattened metamodel properties", missing=sorted(want - set(names)), extra=sorted(set(names) - want))
        for p in props:
            f = names.get(p["name"])
            if f is None:
                continue
            opt = f.ty.replace(" ", "").startswith("Option<")
            exp_opt = self.option_expected(p)
            self.ob(opt == exp_opt, f"rust:struct {sname}.{f.name}:option", f"struct {sname}.{f.name}: {'wrapped' if opt else 'not wrapped'} in Option but the property is {'optional/null-admitting' if exp_opt else 'required and not null-admitting'}", type=f.ty)
            inner = f.ty.replace(" ", "")
            if opt:
                inner = inner[len("Option<") : -1]
            want_t = self.rust_type(p["type"])
            self.ob(self.type_matches(inner, want_t, self.literals_in(p["type"])), f"rust:struct {sname}.{f.name}:type", f"struct {sname}.{f.name}: Rust type {f.ty} is not the mapping of the metamodel type (expected {want_t})", type=f.ty, expected=want_t)
            self.ob(f.gated == bool(p.get("proposed")), f"rust:struct {sname}.{f.name}:gate", f"struct {sname}.{f.name}: {'gated' if f.gated else 'not gated'} but the property is {'proposed' if p.get('proposed') else 'not proposed'}")

    def run(self) -> List[Tuple[str, str, Dict[str, Any]]]:
        mm = self.mm
        # structures
        for name, s in mm.structures.items():
            if name in ("LSPObject",):
                continue
            self.check_struct_props(name, mm.flatten(name), bool(s.get("proposed")), f"structure {name}")
        # enumerations
        for name, e in mm.enumerations.items():
            en = self.item(name, "enum")
            self.ob(en is not None, f"rust:enum {name}:exists", f"enumeration {name}: no enum in lib.rs")
            if en is None:
                continue
            self.ob(en.gated == bool(e.get("proposed")), f"rust:enum {name}:gate", f"enum {name}: gating does not match proposed={bool(e.get('proposed'))}")
            is_str = e["type"]["name"] == "string"
            want = [v["value"] for v in e["values"]]
            if is_str:
                got = [v.rename if v.rename is not None else v.name for v in en.variants]
            else:
                got = [_int(v.discriminant) for v in en.variants]
            self.ob(sorted(map(str, got)) == sorted(map(str, want)), f"rust:enum {name}:values", f"enum {name}: serde discriminants {sorted(set(map(str, got)) ^ set(map(str, want)))} differ from the metamodel values", got=got, want=want)
            # gating of values
            byval = {}
            for v in en.variants:
                byval[str(v.rename if is_str and v.rename is not None else v.name if is_str else _int(v.discriminant))] = v
            for ev in e["values"]:
                v = byval.get(str(ev["value"]))
                if v is not None:
                    self.ob(v.gated == bool(ev.get("proposed")), f"rust:enum {name}::{v.name}:gate", f"enum {name} value {ev['value']!r}: proposed={bool(ev.get('proposed'))} but gated={v.gated}")
            if not is_str:
                # hand-generated Serialize / Deserialize impls must list the same values
                impls = [i for i in self.by_name.get(name, []) if i.kind == "impl"]
                ser = " ".join(i.raw for i in impls)
                vals_ser = sorted(set(int(x) for x in re.findall(r"serialize_i32\s*\(\s*(-?\s*\d+)\s*\)", ser.replace("- ", "-"))))
                vals_de = sorted(set(int(x.replace(" ", "")) for x in re.findall(r"(-?\s*\d+)\s*=>\s*Ok", ser)))
                self.ob(vals_ser == sorted(set(want)) and vals_de == sorted(set(want)), f"rust:enum {name}:serde-impl", f"enum {name}: the Serialize/Deserialize impls list {vals_ser}/{vals_de}, metamodel has {sorted(set(want))}")
        # type aliases
        for name, a in mm.aliases.items():
            t = a["type"]
            if name in ("LSPAny", "LSPObject", "LSPArray"):
                continue
            if t["kind"] == "or":
                en = self.item(name, "enum")
                self.ob(en is not None and en.untagged, f"rust:alias {name}:untagged-enum", f"alias {name} (an `or` type) is not an untagged enum in lib.rs")
                if en is not None:
                    self.ob(len(en.variants) == len(t["items"]), f"rust:alias {name}:variants", f"alias {name}: {len(en.variants)} variants for {len(t['items'])} alternatives")
                    self.ob(en.gated == bool(a.get("proposed")), f"rust:alias {name}:gate", f"alias {name}: gating does not match proposed={bool(a.get('proposed'))}")
                    want_payloads = sorted(self.rust_type(i) for i in t["items"] if not (i["kind"] == "base" and i["name"] == "null"))
                    got_payloads = sorted(strip_box(v.payload.replace(" ", "")) for v in en.variants if v.payload)
                    if not any(LIT in w for w in want_payloads):
                        self.ob(got_payloads == want_payloads, f"rust:alias {name}:payloads", f"alias {name}: variant payload types {got_payloads} are not the mapped alternatives {want_payloads}")
            else:
                ty = self.item(name, "type")
                self.ob(ty is not None, f"rust:alias {name}:exists", f"alias {name}: no `type` item in lib.rs")
                if ty is not None:
                    want_t = self.rust_type(t)
                    self.ob(self.type_matches(ty.target, want_t, self.literals_in(t)), f"rust:alias {name}:target", f"alias {name} = {ty.target}, expected {want_t}")
                    self.ob(ty.gated == bool(a.get("proposed")), f"rust:alias {name}:gate", f"alias {name}: gating does not match proposed={bool(a.get('proposed'))}")
        # messages
        for enum_name, msgs in (("LSPRequestMethods", mm.requests), ("LSPNotificationMethods", mm.notifications)):
            en = self.item(enum_name, "enum")
            self.ob(en is not None, f"rust:enum {enum_name}:exists", f"no enum {enum_name}")
            renames = {v.rename: v for v in en.variants} if en else {}
            for m in msgs:
                self.ob(m["method"] in renames, f"rust:method {m['method']}:variant", f"{enum_name} has no variant renamed to {m['method']!r}")
            for r in renames:
                self.ob(any(m["method"] == r for m in msgs), f"rust:method {r}:extra-variant", f"{enum_name} has a variant {r!r} that is not a method of the metamodel")
        for r in self.mm.requests:
            base = r.get("typeName") or (method_to_class_name(r["method"]) + "Request")
            part = base[:-7] if base.endswith("Request") else base
            prop = bool(r.get("proposed"))
            req = self.item(base, "struct")
            self.ob(req is not None, f"rust:struct {base}:exists", f"request {r['method']}: no struct {base}")
            if req is not None:
                names = {f.rename or serde_camel(f.name) for f in req.fields}
                self.ob({"jsonrpc", "method", "id", "params"} == names, f"rust:struct {base}:fields", f"request struct {base} has fields {sorted(names)}")
                self.ob(req.gated == prop, f"rust:struct {base}:gate", f"request struct {base}: gated={req.gated} but the request is proposed={prop}")
            resp = self.item(part + "Response", "struct")
            self.ob(resp is not None, f"rust:struct {part}Response:exists", f"request {r['method']}: no struct {part}Response")
            if resp is not None:
                names = {f.rename or serde_camel(f.name) for f in resp.fields}
                self.ob({"jsonrpc", "id", "result"} <= names, f"rust:struct {part}Response:fields", f"response struct {part}Response has fields {sorted(names)}")
                self.ob(resp.gated == prop, f"rust:struct {part}Response:gate", f"response struct {part}Response: gated={resp.gated} but its request is proposed={prop} (its result type is gated with the request)")
        for nt in self.mm.notifications:
            base = nt.get("typeName") or (method_to_class_name(nt["method"]) + "Notification")
            st = self.item(base, "struct")
            self.ob(st is not None, f"rust:struct {base}:exists", f"notification {nt['method']}: no struct {base}")
            if st is not None:
                names = {f.rename or serde_camel(f.name) for f in st.fields}
                self.ob({"jsonrpc", "method", "params"} == names, f"rust:struct {base}:fields", f"notification struct {base} has fields {sorted(names)}")
                self.ob(st.gated == bool(nt.get("proposed")), f"rust:struct {base}:gate", f"notification struct {base}: gated={st.gated} but proposed={bool(nt.get('proposed'))}")
        # only proposed items are gated: every gated struct/enum/type must be accounted for above
        accounted = set(mm.structures) | set(mm.enumerations) | set(mm.aliases)
        for r in mm.requests:
            b = r.get("typeName") or (method_to_class_name(r["method"]) + "Request")
            accounted |= {b, (b[:-7] if b.endswith("Request") else b) + "Response"}
        for nt in mm.notifications:
            accounted.add(nt.get("typeName") or (method_to_class_name(nt["method"]) + "Notification"))
        for it in self.items:
            if it.kind in ("struct", "enum", "type") and it.gated and it.name not in accounted:
                # literal structs of proposed properties may be gated: tolerate those whose name starts with a gated owner
                self.ob(False, f"rust:{it.kind} {it.name}:gate-extra", f"{it.kind} {it.name} is feature-gated but corresponds to no proposed metamodel element")
        return self.failures


def _int(s: Optional[str]) -> Optional[int]:
    if s is None:
        return None
    try:
        return int(s.replace(" ", ""))
    except ValueError:
        return None
