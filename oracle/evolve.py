"""Catalogue of spec-evolution edits (C06): each edit maps the committed metamodel document to an evolved one that is
schema-valid and inside the generator's input discipline."""
from __future__ import annotations

import copy
import random
from typing import Any, Callable, Dict, List, Tuple

S = {"kind": "base", "name": "string"}
I = {"kind": "base", "name": "integer"}
U = {"kind": "base", "name": "uinteger"}
B = {"kind": "base", "name": "boolean"}
D = {"kind": "base", "name": "decimal"}
N = {"kind": "base", "name": "null"}
URI = {"kind": "base", "name": "DocumentUri"}


def ref(n):
    return {"kind": "reference", "name": n}


def arr(t):
    return {"kind": "array", "element": t}


def orn(t):
    return {"kind": "or", "items": [t, N]}


def lit(props):
    return {"kind": "literal", "value": {"properties": props}}


def prop(name, t, optional=False, **kw):
    p = {"name": name, "type": t}
    if optional:
        p["optional"] = True
    p.update(kw)
    return p


def struct(doc, name):
    return next(s for s in doc["structures"] if s["name"] == name)


def union_participants(doc) -> set:
    """Structures that are alternatives of some `or` type (through aliases), and all their ancestors.  The Python package
    parses such unions with HAND-WRITTEN hooks whose discriminators enumerate the alternatives' keys; changing the key sets
    of the alternatives is outside the input discipline the generator (which does not regenerate the hooks) can honour."""
    structs = {s["name"]: s for s in doc["structures"]}
    aliases = {a["name"]: a for a in doc["typeAliases"]}
    hit = set()

    def alts(t, depth=0):
        if depth > 8:
            return
        k = t["kind"]
        if k == "reference":
            if t["name"] in structs:
                hit.add(t["name"])
            elif t["name"] in aliases:
                alts(aliases[t["name"]]["type"], depth + 1)
        elif k == "or":
            for i in t["items"]:
                alts(i, depth + 1)
        elif k == "array":
            alts(t["element"], depth + 1)

    def walk(t):
        k = t["kind"]
        if k == "or":
            non_null = [i for i in t["items"] if not (i["kind"] == "base" and i["name"] == "null")]
            if len(non_null) >= 2:
                for i in non_null:
                    alts(i)
            for i in t["items"]:
                walk(i)
        elif k == "array":
            walk(t["element"])
        elif k == "map":
            walk(t["value"])
        elif k in ("tuple", "and"):
            for i in t["items"]:
                walk(i)
        elif k == "literal":
            for p in t["value"]["properties"]:
                walk(p["type"])

    for s_ in doc["structures"]:
        for p in s_["properties"]:
            walk(p["type"])
    for a in doc["typeAliases"]:
        walk(a["type"])
    for m in doc["requests"] + doc["notifications"]:
        for f in ("params", "result", "partialResult", "registrationOptions"):
            if isinstance(m.get(f), dict):
                walk(m[f])
    # ancestors
    changed = True
    while changed:
        changed = False
        for n in list(hit):
            for r in (structs[n].get("extends") or []) + (structs[n].get("mixins") or []):
                if r.get("kind") == "reference" and r["name"] in structs and r["name"] not in hit:
                    hit.add(r["name"])
                    changed = True
    return hit


def optional_sites(doc, rnd: random.Random, k: int) -> List[str]:
    """Names of existing structures that are good hosts for a new optional property (plain parameter / options structures)."""
    excluded = union_participants(doc)
    names = [s["name"] for s in doc["structures"] if not s["name"].startswith("_") and s["properties"] and s["name"] not in ("LSPObject",) and s["name"] not in excluded]
    rnd.shuffle(names)
    return names[:k]


Edit = Tuple[str, Callable[[Dict, random.Random], None]]


def add_request(doc, method, type_name, params, result, **kw):
    r = {"method": method, "messageDirection": kw.pop("messageDirection", "clientToServer"), "result": result}
    if type_name:
        r["typeName"] = type_name
    if params:
        r["params"] = params
    r.update(kw)
    doc["requests"].append(r)


def add_notification(doc, method, type_name, params, **kw):
    n = {"method": method, "messageDirection": kw.pop("messageDirection", "serverToClient")}
    if type_name:
        n["typeName"] = type_name
    if params:
        n["params"] = params
    n.update(kw)
    doc["notifications"].append(n)


def e_new_structure(doc, rnd):
    doc["structures"].append({"name": "VerifThing", "properties": [prop("label", S), prop("count", U, True), prop("ratio", D, True), prop("flag", B), prop("target", URI, True)], "documentation": "A new structure."})
    struct(doc, optional_sites(doc, rnd, 1)[0])["properties"].append(prop("verifThing", ref("VerifThing"), True))


def e_base_props(doc, rnd):
    host = struct(doc, optional_sites(doc, rnd, 1)[0])
    host["properties"] += [prop("verifInt", I, True), prop("verifUint", U, True), prop("verifStr", S, True), prop("verifBool", B, True), prop("verifDec", D, True), prop("verifUri", URI, True)]


def e_container_props(doc, rnd):
    host = struct(doc, optional_sites(doc, rnd, 1)[0])
    host["properties"] += [
        prop("verifList", arr(ref("Position")), True),
        prop("verifStrings", arr(S), True),
        prop("verifMap", {"kind": "map", "key": S, "value": ref("Range")}, True),
        prop("verifIntMap", {"kind": "map", "key": I, "value": S}, True),
        prop("verifPair", {"kind": "tuple", "items": [U, U]}, True),
        prop("verifEnum", ref("MarkupKind"), True),
        prop("verifOpenEnum", ref("CodeActionKind"), True),
        prop("verifEnums", arr(ref("SymbolKind")), True),
    ]


def e_null_admitting(doc, rnd):
    doc["structures"].append({"name": "VerifNullable", "properties": [prop("required", orn(S)), prop("maybe", orn(ref("Range")), True), prop("n", orn(I)), prop("items", orn(arr(ref("Position")))), {**prop("explicitlyRequired", orn(S)), "optional": False}, prop("nullFirst", {"kind": "or", "items": [{"kind": "base", "name": "null"}, S]}), prop("nullInTheMiddle", {"kind": "or", "items": [I, {"kind": "base", "name": "null"}, S]}), prop("nullFirstOptional", {"kind": "or", "items": [{"kind": "base", "name": "null"}, ref("Range")]}, True), prop("emptyLiteral", {"kind": "stringLiteral", "value": ""}), prop("emptyLiteralOptional", {"kind": "stringLiteral", "value": ""}, True), {**prop("explicitlyRequiredPlain", U), "optional": False}]})
    struct(doc, optional_sites(doc, rnd, 1)[0])["properties"].append(prop("verifNullable", ref("VerifNullable"), True))


def e_literal_property(doc, rnd):
    host = struct(doc, optional_sites(doc, rnd, 1)[0])
    host["properties"].append(prop("verifDetails", lit([prop("message", S), prop("code", I, True), prop("source", S)]), True))


def e_literal_in_array(doc, rnd):
    host = struct(doc, optional_sites(doc, rnd, 1)[0])
    host["properties"].append(prop("verifEntries", arr(lit([prop("key", S), prop("weight", U, True)])), True))


def e_literal_union_member(doc, rnd):
    host = struct(doc, optional_sites(doc, rnd, 1)[0])
    host["properties"].append(prop("verifChoice", orn(lit([prop("enabled", B), prop("level", U, True)])), True))


def e_keyword_names(doc, rnd):
    doc["structures"].append({"name": "VerifKeywords", "properties": [prop("class", S), prop("from", S, True), prop("import", B, True), prop("global", orn(S)), prop("lambda", U, True), prop("type", S, True), prop("None", S, True) if False else prop("is", S, True)]})
    struct(doc, optional_sites(doc, rnd, 1)[0])["properties"].append(prop("verifKeywords", ref("VerifKeywords"), True))


def e_extends_mixins(doc, rnd):
    doc["structures"] += [
        # the base carries a non-empty literal: every descendant inherits a property whose type is an anonymous structure
        {"name": "VerifBaseOptions", "properties": [prop("baseFlag", B, True), prop("baseDetails", lit([prop("reason", S), prop("code", I, True)]), True)], "mixins": [ref("WorkDoneProgressOptions")]},
        {"name": "VerifMidOptions", "properties": [prop("mid", S, True)], "extends": [ref("VerifBaseOptions")]},
        {"name": "VerifLeafOptions", "properties": [prop("leaf", U)], "extends": [ref("VerifMidOptions")], "mixins": [ref("StaticRegistrationOptions")]},
        # a mixin that itself has a mixin (the committed model has only leaf mixins)
        {"name": "VerifViaMixin", "properties": [prop("own", S)], "mixins": [ref("VerifBaseOptions")]},
        # the same base reached along two paths (legal, acyclic): a redundantly listed mixin, and a diamond (added after seed C06-12)
        {"name": "VerifRedundantMixin", "properties": [prop("redundant", B, True)], "extends": [ref("VerifMidOptions")], "mixins": [ref("WorkDoneProgressOptions")]},
        {"name": "VerifLeftOptions", "properties": [prop("left", S, True)], "extends": [ref("VerifBaseOptions")]},
        {"name": "VerifDiamondOptions", "properties": [prop("bottom", I, True)], "extends": [ref("VerifLeftOptions")], "mixins": [ref("VerifViaMixin")]},
    ]
    struct(doc, optional_sites(doc, rnd, 1)[0])["properties"] += [
        prop("verifLeaf", ref("VerifLeafOptions"), True),
        prop("verifViaMixin", ref("VerifViaMixin"), True),
        prop("verifRedundantMixin", ref("VerifRedundantMixin"), True),
        prop("verifDiamond", ref("VerifDiamondOptions"), True),
    ]


def e_redeclared_property(doc, rnd):
    doc["structures"] += [
        # re-declares inherited / mixed-in properties with a different type, optionality or null-admission
        {"name": "VerifStrictRegistration", "properties": [prop("documentSelector", ref("DocumentSelector"))], "extends": [ref("TextDocumentRegistrationOptions")]},
        {"name": "VerifTrackedParams", "properties": [prop("workDoneToken", ref("ProgressToken")), prop("command", S)], "mixins": [ref("WorkDoneProgressParams")]},
        {"name": "VerifMaybeVersioned", "properties": [prop("version", I, True)], "extends": [ref("VersionedNotebookDocumentIdentifier")]},
        # a structure BELOW a re-declaration that does not re-declare the property itself: two ancestors declare it, the nearest wins
        # (added after seed C04-13)
        {"name": "VerifStrictLeaf", "properties": [prop("leafNote", S, True)], "extends": [ref("VerifStrictRegistration")]},
        {"name": "VerifTrackedLeaf", "properties": [prop("leafFlag", B)], "extends": [ref("VerifTrackedParams")]},
        {"name": "VerifMaybeLeaf", "properties": [], "mixins": [ref("VerifMaybeVersioned")]},
    ]
    struct(doc, optional_sites(doc, rnd, 1)[0])["properties"] += [prop("verifStrict", ref("VerifStrictRegistration"), True), prop("verifTracked", ref("VerifTrackedParams"), True), prop("verifMaybe", ref("VerifMaybeVersioned"), True), prop("verifStrictLeaf", ref("VerifStrictLeaf"), True), prop("verifTrackedLeaf", ref("VerifTrackedLeaf"), True), prop("verifMaybeLeaf", ref("VerifMaybeLeaf"), True)]


def e_enums(doc, rnd):
    doc["enumerations"] += [
        {"name": "VerifColor", "type": {"kind": "base", "name": "string"}, "values": [{"name": "Red", "value": "red"}, {"name": "Green", "value": "green", "proposed": True}, {"name": "Empty", "value": ""}, {"name": "Thumb", "value": "ok\U0001F44D"}, {"name": "Umlaut", "value": "gr\u00fcn"}, {"name": "Spaced", "value": "dark red"}, {"name": "UnitSeparated", "value": "a\u001fb"}]},
        {"name": "VerifLevel", "type": {"kind": "base", "name": "uinteger"}, "values": [{"name": "Zero", "value": 0}, {"name": "Low", "value": 1}, {"name": "High", "value": 2, "proposed": True}]},
    ]
    next(e for e in doc["enumerations"] if e["name"] == "DiagnosticTag")["values"].append({"name": "Experimental", "value": 3, "proposed": True})
    next(e for e in doc["enumerations"] if e["name"] == "MarkupKind")["values"].append({"name": "Html", "value": "html"})
    struct(doc, optional_sites(doc, rnd, 1)[0])["properties"] += [prop("verifColor", ref("VerifColor"), True), prop("verifLevel", ref("VerifLevel"), True), prop("verifColors", arr(ref("VerifColor")), True)]


def e_messages(doc, rnd):
    doc["structures"] += [
        {"name": "VerifFooParams", "properties": [prop("textDocument", ref("TextDocumentIdentifier")), prop("depth", U, True)]},
        {"name": "VerifFooResult", "properties": [prop("items", arr(ref("Location")))]},
    ]
    add_request(doc, "textDocument/verifFoo", "VerifFooRequest", ref("VerifFooParams"), orn(ref("VerifFooResult")))
    add_request(doc, "verif/bar", None, ref("VerifFooParams"), N, messageDirection="both")
    add_request(doc, "verif/noParams", "VerifNoParamsRequest", None, arr(ref("Location")))
    add_notification(doc, "verif/didFoo", "VerifDidFooNotification", ref("VerifFooParams"), messageDirection="clientToServer")
    add_notification(doc, "$/verifTick", None, ref("VerifFooParams"), messageDirection="both")
    # method names that contain the words Request / Notification themselves
    add_request(doc, "verifRequest/list", None, ref("VerifFooParams"), arr(ref("Location")))
    add_request(doc, "verifRequest/create", None, ref("VerifFooParams"), N)
    add_request(doc, "verifRequest/refresh", "VerifRequestRefreshRequest", None, N)
    add_notification(doc, "verifNotification/changed", None, ref("VerifFooParams"))


def e_marks(doc, rnd):
    doc["structures"].append({"name": "VerifProposed", "properties": [prop("a", S), prop("b", U, True, proposed=True, since="3.18.0")], "proposed": True, "since": "3.18.0", "documentation": "Proposed thing.\n@since 3.18.0\n@proposed"})
    doc["structures"].append({"name": "VerifDeprecated", "properties": [prop("old", S, True, deprecated="use new"), prop("new", S, True, sinceTags=["3.18.0", "3.18.1 - changed"])], "deprecated": "gone soon"})
    # explicit `false` marks (schema-valid, never written by the committed model) and since texts wrapped with CR LF / CR
    doc["structures"].append({"name": "VerifStable", "proposed": False, "since": "3.18.0 - wrapped\r\nover two lines", "properties": [prop("s", S, True, proposed=False, sinceTags=["3.17.0", "3.18.0 - changed\rlater"]), prop("t", U, True, proposed=False)]})
    doc["enumerations"].append({"name": "VerifStableKind", "type": S, "proposed": False, "values": [{"name": "A", "value": "a", "proposed": False}, {"name": "B", "value": "b", "since": "3.18.0\r\n(second line)"}]})
    doc["typeAliases"].append({"name": "VerifStableName", "type": S, "proposed": False})
    add_request(doc, "verif/stable", "VerifStableRequest", ref("VerifStable"), orn(ref("VerifStable")), proposed=False)
    add_notification(doc, "verif/stableNote", "VerifStableNoteNotification", ref("VerifStable"), proposed=False)
    host = struct(doc, optional_sites(doc, rnd, 1)[0])
    host["properties"] += [prop("verifProposed", ref("VerifProposed"), True, proposed=True), prop("verifDeprecated", ref("VerifDeprecated"), True), prop("verifStable", ref("VerifStable"), True, proposed=False), prop("verifStableKind", ref("VerifStableKind"), True)]
    # marks on existing plain (non-`or`) aliases: base-typed, array-typed and reference-typed ones
    for an, mark in (
        ("Pattern", {"deprecated": "use GlobPattern", "since": "3.17.0"}),
        ("RegularExpressionEngineKind", {"proposed": True, "since": "3.18.0"}),  # base-typed alias
        ("DefinitionLink", {"proposed": True}),  # reference-typed alias
        ("DocumentSelector", {"proposed": True, "sinceTags": ["3.18.0"]}),  # array-typed alias
    ):
        for a in doc["typeAliases"]:
            if a["name"] == an:
                a.update(mark)
    add_request(doc, "verif/proposed", "VerifProposedRequest", ref("VerifProposed"), orn(ref("VerifProposed")), proposed=True, since="3.18.0")
    add_notification(doc, "verif/proposedNote", "VerifProposedNoteNotification", ref("VerifProposed"), proposed=True)


def e_remove_optional(doc, rnd):
    excluded = union_participants(doc)
    cands = [(s, p) for s in doc["structures"] for p in s["properties"] if p.get("optional") and p["type"]["kind"] == "base" and s["name"] not in excluded]
    rnd.shuffle(cands)
    for s, p in cands[:5]:
        s["properties"].remove(p)


def e_literal_optional_middle(doc, rnd):
    doc["structures"].append({"name": "VerifStatusParams", "properties": [prop("details", lit([prop("message", S), prop("code", I, True), prop("source", S)]))]})
    add_notification(doc, "window/verifStatus", "VerifStatusNotification", ref("VerifStatusParams"))


def e_name_shapes(doc, rnd):
    """Names that stress the case conversions and the keyword handling of every plugin.  Kept inside the naming discipline every LSP
    name obeys (lowerCamelCase words; no consecutive capitals such as `isHTML`, whose wire name the snake/camel derivation of the
    Python and Rust packages cannot reproduce; not `self`, which is no keyword but collides with the attrs-generated __init__)."""
    doc["structures"].append(
        {
            "name": "VerifNames",
            "properties": [prop("uri2", S, True), prop("utf8Offset", U, True), prop("x", S, True), prop("a1b2C3", S, True), prop("maxLineLength", U), prop("kind", S, True), prop("match", S, True), prop("async", B, True)],
        }
    )
    doc["enumerations"].append({"name": "VerifWords", "type": S, "values": [{"name": "None", "value": "none"}, {"name": "True", "value": "true"}, {"name": "class", "value": "class"}, {"name": "UTF8", "value": "utf-8"}, {"name": "lowerCamel", "value": "lowerCamel"}]})
    struct(doc, optional_sites(doc, rnd, 1)[0])["properties"] += [prop("verifNames", ref("VerifNames"), True), prop("verifWords", ref("VerifWords"), True)]


def e_nested_containers(doc, rnd):
    host = struct(doc, optional_sites(doc, rnd, 1)[0])
    host["properties"] += [
        prop("verifGrid", arr(arr(U)), True),
        prop("verifRangesByUri", {"kind": "map", "key": URI, "value": arr(ref("Range"))}, True),
        prop("verifPairs", arr({"kind": "tuple", "items": [U, U]}), True),
        prop("verifMapOfMaps", {"kind": "map", "key": S, "value": {"kind": "map", "key": S, "value": B}}, True),
        prop("verifNullableList", orn(arr(S)), True),
        prop("verifNullableNames", arr(orn(S)), True),
        prop("verifNullableCounts", {"kind": "map", "key": S, "value": orn(I)}, True),
        prop("verifNullablePair", {"kind": "tuple", "items": [U, orn(S)]}, True),
        prop("verifPairWithNull", {"kind": "tuple", "items": [U, {"kind": "base", "name": "null"}]}, True),
    ]


def e_message_shapes(doc, rnd):
    """Requests / notifications using every optional message field."""
    doc["structures"] += [
        {"name": "VerifQueryParams", "properties": [prop("query", S)], "mixins": [ref("WorkDoneProgressParams"), ref("PartialResultParams")]},
        {"name": "VerifQueryRegistrationOptions", "properties": [prop("deep", B, True)], "extends": [ref("TextDocumentRegistrationOptions")]},
        {"name": "VerifQueryError", "properties": [prop("retry", B)]},
        {"name": "VerifEmpty", "properties": []},
    ]
    add_request(doc, "textDocument/verifQuery", "VerifQueryRequest", ref("VerifQueryParams"), orn(arr(ref("Location"))), partialResult=arr(ref("Location")), registrationOptions=ref("VerifQueryRegistrationOptions"), errorData=ref("VerifQueryError"))
    add_request(doc, "verif/count", "VerifCountRequest", None, U)
    add_request(doc, "verif/kind", "VerifKindRequest", None, ref("MarkupKind"))
    add_request(doc, "verif/kinds", "VerifKindsRequest", None, orn(arr(ref("SymbolKind"))))
    add_request(doc, "verif/kindByName", "VerifKindByNameRequest", None, {"kind": "map", "key": S, "value": ref("DiagnosticSeverity")})
    add_request(doc, "verif/names", "VerifNamesRequest", ref("VerifEmpty"), arr(S), messageDirection="serverToClient")
    add_notification(doc, "verif/ping", "VerifPingNotification", None)
    add_notification(doc, "$/VERIFPING", "VerifUpperPingNotification", None)
    add_request(doc, "$/VERIFGC", "VerifUpperGcRequest", None, {"kind": "base", "name": "null"})
    add_notification(doc, "textDocument/verifDidQuery", "VerifDidQueryNotification", ref("VerifQueryParams"), messageDirection="clientToServer", registrationOptions=ref("VerifQueryRegistrationOptions"))


def e_alias_shapes(doc, rnd):
    """Type aliases of every type form (the committed model has or / array / reference / base aliases only)."""
    doc["typeAliases"] += [
        {"name": "VerifMode", "type": {"kind": "stringLiteral", "value": "strict"}},
        {"name": "VerifIndex", "type": {"kind": "map", "key": S, "value": U}},
        {"name": "VerifSpan", "type": {"kind": "tuple", "items": [U, U]}},
        {"name": "VerifNameList", "type": arr(S)},
    ]
    struct(doc, optional_sites(doc, rnd, 1)[0])["properties"] += [prop("verifIndex", ref("VerifIndex"), True), prop("verifSpan", ref("VerifSpan"), True), prop("verifAliasedNames", ref("VerifNameList"), True)]


def e_nullable_request_params(doc, rnd):
    """A request whose params type admits null.  Schema-valid, but outside what the python / rust / dotnet plugins process (they require
    the params of a message to be a reference); the testdata plugin does process it, so it is checked on its own (RESTRICTED)."""
    add_request(doc, "verif/activeDocument", "VerifActiveDocumentRequest", orn(ref("TextDocumentIdentifier")), orn(ref("Range")))
    add_notification(doc, "verif/didFocus", "VerifDidFocusNotification", orn(ref("TextDocumentIdentifier")))


def e_single_alternative_or_alias(doc, rnd):
    """`type X = string | null` at the alias level: one alternative besides null."""
    doc["typeAliases"].append({"name": "VerifMaybeName", "type": orn(S)})
    struct(doc, optional_sites(doc, rnd, 1)[0])["properties"].append(prop("verifMaybeName", ref("VerifMaybeName"), True))


def e_null_before_container(doc, rnd):
    """`integer | null | string[]`: null in the middle, followed by an alternative that has no name.  A new union of a scalar and a container
    needs a hand-written structure hook in the Python package (the documented limit of the family), so this shape is checked for the rust
    and dotnet plugins only."""
    doc["structures"].append({"name": "VerifNullPlacement", "properties": [prop("nullBeforeArray", {"kind": "or", "items": [I, {"kind": "base", "name": "null"}, arr(S)]}), prop("nullBeforeMap", {"kind": "or", "items": [{"kind": "base", "name": "null"}, {"kind": "map", "key": S, "value": U}]}, True)]})


# edits that only some plugins can process: name -> (function, plugins to run, sub-checks to run).  The plugins listed are RUN (their
# failure is reported under the stable key evolve:<plugin>:exit:<edit>, recorded in known_findings.jsonl where it is a known limitation)
RESTRICTED = {
    "nullable-message-params": (e_nullable_request_params, ["python", "rust", "dotnet"], ["C17"]),
    "single-alternative-or-alias": (e_single_alternative_or_alias, ["python", "rust", "dotnet"], ["C07"]),
    "null-before-container": (e_null_before_container, ["rust", "dotnet"], ["C07", "C08"]),
}


EDITS: List[Edit] = [
    ("new-structure", e_new_structure),
    ("base-properties", e_base_props),
    ("container-properties", e_container_props),
    ("null-admitting", e_null_admitting),
    ("literal-property", e_literal_property),
    ("literal-array-element", e_literal_in_array),
    ("literal-union-member", e_literal_union_member),
    ("keyword-names", e_keyword_names),
    ("extends-mixins", e_extends_mixins),
    ("redeclared-property", e_redeclared_property),
    ("enumerations", e_enums),
    ("messages", e_messages),
    ("marks", e_marks),
    ("remove-optional", e_remove_optional),
    ("literal-optional-middle", e_literal_optional_middle),
    ("name-shapes", e_name_shapes),
    ("nested-containers", e_nested_containers),
    ("message-shapes", e_message_shapes),
    ("alias-shapes", e_alias_shapes),
]


def evolve(doc: Dict, names: List[str], seed: int) -> Dict:
    d = copy.deepcopy(doc)
    rnd = random.Random(seed)
    table = dict(EDITS)
    table.update({k: v[0] for k, v in RESTRICTED.items()})
    for n in names:
        table[n](d, rnd)
    return d
