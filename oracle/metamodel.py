"""Metamodel semantics, written from the property statements and generator/lsp.json (raw JSON),
independent of the generator's model classes and of the Python package.

valid / strict-valid / normal form / witnesses; see DESIGN.md section 3.
"""
from __future__ import annotations

import json
import os
from typing import Any, Dict, Iterable, List, Optional, Tuple

INT_MIN, INT_MAX = -(2**31), 2**31 - 1
UINT_MIN, UINT_MAX = 0, 2**31 - 1
STRING_BASES = ("string", "URI", "DocumentUri", "RegExp", "Uri")


def is_num(j) -> bool:
    return isinstance(j, (int, float)) and not isinstance(j, bool)


def is_int(j) -> bool:
    return isinstance(j, int) and not isinstance(j, bool)


class MetaModel:
    def __init__(self, doc: Dict[str, Any], python_customizations: bool = True):
        self.doc = doc
        self.structures: Dict[str, Dict] = {s["name"]: s for s in doc["structures"]}
        self.enumerations: Dict[str, Dict] = {e["name"]: e for e in doc["enumerations"]}
        self.aliases: Dict[str, Dict] = {a["name"]: a for a in doc["typeAliases"]}
        self.requests: List[Dict] = doc["requests"]
        self.notifications: List[Dict] = doc["notifications"]
        # C13: "the documented CompletionItemKind customisation"
        self.open_enum_extra = {"CompletionItemKind"} if python_customizations else set()
        self._flat: Dict[str, List[Dict]] = {}
        self.null_optional_ok = False

    @classmethod
    def load(cls, path: Optional[str] = None, **kw) -> "MetaModel":
        path = path or os.path.join(os.environ.get("VERIF_REPO", "/repo"), "generator", "lsp.json")
        with open(path, "rb") as f:
            return cls(json.load(f), **kw)

    # ------------------------------------------------------------------ structure flattening
    def parents(self, s: Dict) -> List[str]:
        out = []
        for r in (s.get("extends") or []) + (s.get("mixins") or []):
            if r.get("kind") == "reference" and r["name"] in self.structures:
                out.append(r["name"])
        return out

    def flatten(self, name: str) -> List[Dict]:
        """Own properties, then inherited ones; nearest declaration wins (own > parent > grandparent;
        ties: extends before mixins, listed order, depth-first as declared)."""
        if name in self._flat:
            return self._flat[name]
        s = self.structures[name]
        seen: Dict[str, Tuple[int, Dict]] = {}
        order: List[str] = []

        def visit(n: str, depth: int, stack: Tuple[str, ...]):
            if n in stack:
                raise ValueError(f"inheritance cycle through {n}")
            for p in self.structures[n]["properties"]:
                if p["name"] not in seen:
                    seen[p["name"]] = (depth, p)
                    order.append(p["name"])
                elif seen[p["name"]][0] > depth:
                    seen[p["name"]] = (depth, p)
            for par in self.parents(self.structures[n]):
                visit(par, depth + 1, stack + (n,))

        visit(name, 0, ())
        res = [seen[n][1] for n in order]
        self._flat[name] = res
        return res

    def flatten_conflicts(self, name: str) -> List[str]:
        """Property names declared more than once along the inheritance graph with different types/optionality."""
        decls: Dict[str, List[Dict]] = {}

        def visit(n: str, stack):
            if n in stack:
                return
            for p in self.structures[n]["properties"]:
                decls.setdefault(p["name"], []).append(p)
            for par in self.parents(self.structures[n]):
                visit(par, stack + (n,))

        visit(name, ())
        return [k for k, v in decls.items() if any(strip_doc(x) != strip_doc(v[0]) for x in v[1:])]

    # ------------------------------------------------------------------ type predicates
    @staticmethod
    def null_admitting(t: Dict) -> bool:
        """Direct `null` member of an `or` (the documented rule)."""
        return t["kind"] == "or" and any(i["kind"] == "base" and i["name"] == "null" for i in t["items"])

    @staticmethod
    def is_string_literal(t: Dict) -> bool:
        return t["kind"] == "stringLiteral"

    def is_open_enum(self, name: str) -> bool:
        e = self.enumerations[name]
        return bool(e.get("supportsCustomValues")) or name in self.open_enum_extra

    def resolve_alias(self, t: Dict) -> Dict:
        seen = set()
        while t["kind"] == "reference" and t["name"] in self.aliases and t["name"] not in ("LSPAny", "LSPObject", "LSPArray"):
            if t["name"] in seen:
                break
            seen.add(t["name"])
            t = self.aliases[t["name"]]["type"]
        return t

    def literal_props(self, t: Dict) -> List[Dict]:
        return t["value"]["properties"]

    def and_props(self, t: Dict) -> List[Dict]:
        props: Dict[str, Dict] = {}
        for it in t["items"]:
            if it["kind"] == "reference" and it["name"] in self.structures:
                for p in self.flatten(it["name"]):
                    props.setdefault(p["name"], p)
        return list(props.values())

    # ------------------------------------------------------------------ validity
    def valid(self, t: Dict, j: Any, strict: bool = True, open_empty: bool = False) -> bool:
        k = t["kind"]
        if k == "base":
            n = t["name"]
            if n == "integer":
                return is_int(j) and INT_MIN <= j <= INT_MAX
            if n == "uinteger":
                return is_int(j) and UINT_MIN <= j <= UINT_MAX
            if n == "decimal":
                return is_num(j)
            if n == "boolean":
                return isinstance(j, bool)
            if n == "null":
                return j is None
            if n in STRING_BASES:
                return isinstance(j, str)
            raise ValueError(f"unknown base {n}")
        if k == "reference":
            n = t["name"]
            if n == "LSPAny":
                return True
            if n == "LSPObject":
                return isinstance(j, dict)
            if n == "LSPArray":
                return isinstance(j, list)
            if n in self.structures:
                return self.valid_props(self.flatten(n), j, strict, open_empty)
            if n in self.enumerations:
                return self.valid_enum(n, j)
            if n in self.aliases:
                return self.valid(self.aliases[n]["type"], j, strict, open_empty)
            raise ValueError(f"unknown reference {n}")
        if k == "array":
            return isinstance(j, list) and all(self.valid(t["element"], x, strict, open_empty) for x in j)
        if k == "map":
            if not isinstance(j, dict):
                return False
            return all(self.valid_map_key(t["key"], kk) and self.valid(t["value"], vv, strict, open_empty) for kk, vv in j.items())
        if k == "tuple":
            return isinstance(j, (list, tuple)) and len(j) == len(t["items"]) and all(self.valid(it, x, strict, open_empty) for it, x in zip(t["items"], j))
        if k == "or":
            return any(self.valid(it, j, strict, open_empty) for it in t["items"])
        if k == "and":
            if not isinstance(j, dict):
                return False
            if not all(self.valid(it, j, False, open_empty) for it in t["items"]):
                return False
            if strict:
                declared = {p["name"] for p in self.and_props(t)}
                return set(j) <= declared
            return True
        if k == "literal":
            return self.valid_props(self.literal_props(t), j, strict, open_empty)
        if k == "stringLiteral":
            return isinstance(j, str) and j == t["value"]
        if k in ("integerLiteral", "booleanLiteral"):
            return j == t["value"] and type(j) is type(t["value"])
        raise ValueError(f"unknown kind {k}")

    def valid_map_key(self, kt: Dict, key: Any) -> bool:
        # JSON object keys are strings; integer-keyed maps carry decimal strings
        if not isinstance(key, str):
            return False
        if kt["kind"] == "base" and kt["name"] == "integer":
            try:
                return INT_MIN <= int(key) <= INT_MAX
            except ValueError:
                return False
        return True

    def valid_enum(self, name: str, j: Any) -> bool:
        e = self.enumerations[name]
        bt = e["type"]["name"]
        if bt == "string":
            base_ok = isinstance(j, str)
        elif bt == "integer":
            base_ok = is_int(j) and INT_MIN <= j <= INT_MAX
        else:
            base_ok = is_int(j) and UINT_MIN <= j <= UINT_MAX
        if not base_ok:
            return False
        if self.is_open_enum(name):
            return True
        return any(v["value"] == j for v in e["values"])

    def valid_props(self, props: List[Dict], j: Any, strict: bool, open_empty: bool = False) -> bool:
        if not isinstance(j, dict):
            return False
        names = {p["name"] for p in props}
        if strict and not (open_empty and not props):
            if not set(j) <= names:
                return False
        for p in props:
            if p["name"] in j:
                v = j[p["name"]]
                if v is None and self.null_optional_ok and p.get("optional") and not self.null_admitting(p["type"]):
                    continue  # reading used for C17 only (the testdata plugin's convention)
                if not self.valid(p["type"], v, strict, open_empty):
                    return False
            elif not p.get("optional"):
                return False
        return True

    # ------------------------------------------------------------------ normal form (C01/C02/C10)
    def norm(self, t: Dict, j: Any) -> Any:
        """Normal form of a strictly valid value: what a loss-free round trip must produce."""
        k = t["kind"]
        if k == "base":
            return j
        if k == "reference":
            n = t["name"]
            if n in ("LSPAny", "LSPObject", "LSPArray"):
                return j
            if n in self.structures:
                return self.norm_props(self.flatten(n), j)
            if n in self.enumerations:
                return j
            return self.norm(self.aliases[n]["type"], j)
        if k == "array":
            return [self.norm(t["element"], x) for x in j]
        if k == "map":
            return {kk: self.norm(t["value"], vv) for kk, vv in j.items()}
        if k == "tuple":
            return [self.norm(it, x) for it, x in zip(t["items"], j)]
        if k == "or":
            # normal forms of all alternatives the value is valid for must agree for the round trip to be
            # well defined; pick the alternative declaring the most keys of j (most informative reading).
            cands = [it for it in t["items"] if self.valid(it, j, True)]
            if not cands:
                return j
            best = max(cands, key=lambda it: self._declared_count(it, j))
            return self.norm(best, j)
        if k == "and":
            return self.norm_props(self.and_props(t), j)
        if k == "literal":
            return self.norm_props(self.literal_props(t), j)
        return j

    def _declared_count(self, t: Dict, j: Any) -> int:
        if not isinstance(j, dict):
            return 0
        t = self.resolve_alias(t)
        if t["kind"] == "reference" and t["name"] in self.structures:
            return len(self.flatten(t["name"]))
        if t["kind"] == "literal":
            return len(self.literal_props(t))
        return 0

    def norm_props(self, props: List[Dict], j: Dict) -> Dict:
        out = {}
        for p in props:
            n = p["name"]
            special = self.null_admitting(p["type"]) or p["type"]["kind"] == "stringLiteral"
            if n in j and j[n] is not None:
                out[n] = self.norm(p["type"], j[n])
            elif n in j and j[n] is None and (self.null_admitting(p["type"]) or not p.get("optional")):
                out[n] = None  # explicit null: kept where the type has a direct null member, or the property is required (LSPAny)
            elif self.null_admitting(p["type"]):
                out[n] = None  # null-admitting: always written
            elif p["type"]["kind"] == "stringLiteral":
                out[n] = p["type"]["value"]
            # other unset optional: omitted
        # keys not declared (only possible for open-empty reading) are kept
        for n in j:
            if n not in out and n not in {p["name"] for p in props}:
                out[n] = j[n]
        return out

    # ------------------------------------------------------------------ witnesses
    def witness(self, t: Dict, maximal: bool = False, depth: int = 0, variant: int = 0) -> Any:
        """A strictly valid value of type t (minimal: required properties only)."""
        k = t["kind"]
        if k == "base":
            n = t["name"]
            return {"integer": -1 if variant else 1, "uinteger": 1, "decimal": 1.5, "boolean": True, "null": None}.get(n, "s" if n != "DocumentUri" and n != "URI" else "file:///a")
        if k == "reference":
            n = t["name"]
            if n == "LSPAny":
                return {"any": [1, "x", None]} if maximal else 1
            if n == "LSPObject":
                return {"k": 1} if maximal else {}
            if n == "LSPArray":
                return [1] if maximal else []
            if n in self.structures:
                return self.witness_props(self.flatten(n), maximal, depth)
            if n in self.enumerations:
                return self.enumerations[n]["values"][variant % len(self.enumerations[n]["values"])]["value"]
            return self.witness(self.aliases[n]["type"], maximal, depth, variant)
        if k == "array":
            return [self.witness(t["element"], maximal, depth + 1)] if (maximal and depth < 3) else []
        if k == "map":
            if maximal and depth < 3:
                key = "1" if t["key"].get("name") == "integer" else "k"
                return {key: self.witness(t["value"], maximal, depth + 1)}
            return {}
        if k == "tuple":
            return [self.witness(it, maximal, depth + 1) for it in t["items"]]
        if k == "or":
            items = [i for i in t["items"] if not (i["kind"] == "base" and i["name"] == "null")] or t["items"]
            return self.witness(items[variant % len(items)], maximal, depth + 1)
        if k == "and":
            return self.witness_props(self.and_props(t), maximal, depth)
        if k == "literal":
            return self.witness_props(self.literal_props(t), maximal, depth)
        if k == "stringLiteral":
            return t["value"]
        raise ValueError(k)

    def witness_props(self, props: List[Dict], maximal: bool, depth: int) -> Dict:
        out = {}
        for p in props:
            if not p.get("optional") or (maximal and depth < 3):
                out[p["name"]] = self.witness(p["type"], maximal, depth + 1)
        return out

    # ------------------------------------------------------------------ random strictly valid values (thorough tiers)
    def random_value(self, t: Dict, rng, depth: int = 0) -> Any:
        """A random strictly valid value of type t: optional properties present with probability 1/2, every union alternative,
        arrays / maps of 0..3 entries, boundary and odd scalars (falsy LSPAny payloads, empty strings, range ends)."""
        if depth > 6:
            return self.witness(t, False, depth)
        k = t["kind"]
        if k == "base":
            n = t["name"]
            if n == "integer":
                return rng.choice([INT_MIN, -1, 0, 1, 7, INT_MAX, rng.randrange(INT_MIN, INT_MAX + 1)])
            if n == "uinteger":
                return rng.choice([0, 1, 2, 80, UINT_MAX, rng.randrange(0, UINT_MAX + 1)])
            if n == "decimal":
                return rng.choice([0.0, 1.5, -2.25, 1e10, 3, 0])
            if n == "boolean":
                return rng.choice([True, False])
            if n == "null":
                return None
            if n in ("DocumentUri", "URI"):
                return rng.choice(["file:///a", "untitled:x", "file:///c%3A/a%20b", "https://h/p?q#f"])
            return rng.choice(["", "s", "a b", "\u00fcn\u00ef", "xxxxx", "0", "null"])
        if k == "reference":
            n = t["name"]
            if n == "LSPAny":
                return rng.choice([None, 0, 0.0, False, "", {}, [], 1, "x", {"a": [1, None, {"b": {}}]}, [[], {}], True])
            if n == "LSPObject":
                return rng.choice([{}, {"k": 1}, {"a": None, "b": [1, "x"]}])
            if n == "LSPArray":
                return rng.choice([[], [1], [None, {"a": 1}, "s"]])
            if n in self.structures:
                return self._random_props(self.flatten(n), rng, depth)
            if n in self.enumerations:
                e = self.enumerations[n]
                vals = [v["value"] for v in e["values"]]
                if self.is_open_enum(n) and rng.random() < 0.3:
                    return "x-custom" if e["type"]["name"] == "string" else 4242
                return rng.choice(vals)
            return self.random_value(self.aliases[n]["type"], rng, depth)
        if k == "array":
            return [self.random_value(t["element"], rng, depth + 1) for _ in range(rng.choice([0, 1, 1, 2, 3]) if depth < 4 else 0)]
        if k == "map":
            out = {}
            for i in range(rng.choice([0, 1, 2]) if depth < 4 else 0):
                key = str(rng.choice([0, 1, 17])) if t["key"].get("name") == "integer" else rng.choice(["k", "file:///a", "a b"])
                out[key] = self.random_value(t["value"], rng, depth + 1)
            return out
        if k == "tuple":
            return [self.random_value(it, rng, depth + 1) for it in t["items"]]
        if k == "or":
            return self.random_value(rng.choice(t["items"]), rng, depth + 1)
        if k == "and":
            return self._random_props(self.and_props(t), rng, depth)
        if k == "literal":
            return self._random_props(self.literal_props(t), rng, depth)
        if k == "stringLiteral":
            return t["value"]
        raise ValueError(k)

    def _random_props(self, props: List[Dict], rng, depth: int) -> Dict:
        out = {}
        for p in props:
            if not p.get("optional") or (depth < 4 and rng.random() < 0.5):
                out[p["name"]] = self.random_value(p["type"], rng, depth + 1)
        return out

    # ------------------------------------------------------------------ messages
    def class_name_of_message(self, msg: Dict, suffix: str) -> str:
        """Class names as the metamodel declares them: typeName, else derived from the method."""
        base = msg.get("typeName") or method_to_class_name(msg["method"])
        if suffix == "Notification":
            return base if base.endswith("Notification") else base + "Notification"
        if not base.endswith("Request"):
            base += "Request"
        part = base[: -len("Request")]  # the trailing word only: a method may contain "Request" itself
        return part + suffix

    def all_types_iter(self) -> Iterable[Tuple[str, Dict]]:
        """Every type expression of the model with a readable location."""
        for s in self.doc["structures"]:
            for p in s["properties"]:
                yield f"{s['name']}.{p['name']}", p["type"]
        for a in self.doc["typeAliases"]:
            yield f"alias {a['name']}", a["type"]
        for r in self.requests:
            for f in ("params", "result", "partialResult", "errorData", "registrationOptions"):
                if r.get(f):
                    yield f"{r['method']}:{f}", r[f]
        for n in self.notifications:
            for f in ("params", "registrationOptions"):
                if n.get(f):
                    yield f"{n['method']}:{f}", n[f]


def method_to_class_name(method: str) -> str:
    """textDocument/didSave -> TextDocumentDidSave ; $/progress -> Progress (independent implementation)."""
    name = method[2:] if method.startswith("$/") else method
    out = []
    for seg in name.split("/"):
        # split camelCase into words
        words, cur = [], ""
        for ch in seg:
            if ch.isupper() and cur and not cur[-1].isupper():
                words.append(cur)
                cur = ch
            else:
                cur += ch
        if cur:
            words.append(cur)
        out.extend(w[:1].upper() + w[1:].lower() if not w.isupper() else w[:1] + w[1:].lower() for w in words)
    return "".join(out)


def method_to_constant(method: str) -> str:
    """textDocument/didSave -> TEXT_DOCUMENT_DID_SAVE (independent implementation)."""
    name = method
    if name.startswith("$"):
        name = name[1:]
    if name.startswith("/"):
        name = name[1:]
    out = []
    for seg in name.split("/"):
        cur = ""
        words = []
        for i, ch in enumerate(seg):
            if ch.isupper() and cur and (cur[-1].islower() or cur[-1].isdigit()):
                words.append(cur)
                cur = ch
            else:
                cur += ch
        if cur:
            words.append(cur)
        out.append("_".join(w.upper() for w in words))
    return "_".join(out)


ANNOT_KEYS = ("documentation", "since", "sinceTags", "proposed", "deprecated")


def strip_doc(x: Any) -> Any:
    if isinstance(x, dict):
        return {k: strip_doc(v) for k, v in x.items() if k not in ANNOT_KEYS}
    if isinstance(x, list):
        return [strip_doc(v) for v in x]
    return x
