"""Parser for the regular subset of Rust the rust plugin emits: items with outer attributes,
struct fields, enum variants, type aliases.  impl blocks are kept as raw text."""
from __future__ import annotations

import re
from dataclasses import dataclass, field
from typing import Dict, List, Optional, Tuple


@dataclass
class Field:
    name: str
    ty: str
    attrs: List[str]

    @property
    def gated(self) -> bool:
        return any(re.sub(r"\s", "", a) == 'cfg(feature="proposed")' for a in self.attrs)

    @property
    def rename(self) -> Optional[str]:
        for a in self.attrs:
            m = re.search(r'serde\(.*?rename\s*=\s*"((?:[^"\\]|\\.)*)"', a, re.S)
            if m:
                return m.group(1)
        return None

    @property
    def skip_if_none(self) -> bool:
        return any("skip_serializing_if" in a for a in self.attrs)


@dataclass
class Variant:
    name: str
    payload: Optional[str]
    discriminant: Optional[str]
    attrs: List[str]

    @property
    def gated(self) -> bool:
        return any(re.sub(r"\s", "", a) == 'cfg(feature="proposed")' for a in self.attrs)

    @property
    def rename(self) -> Optional[str]:
        for a in self.attrs:
            m = re.search(r'serde\(.*?rename\s*=\s*"((?:[^"\\]|\\.)*)"', a, re.S)
            if m:
                return m.group(1)
        return None


@dataclass
class Item:
    kind: str  # struct | enum | type | impl | use | other
    name: str
    attrs: List[str]
    generics: str = ""
    fields: List[Field] = field(default_factory=list)
    variants: List[Variant] = field(default_factory=list)
    target: str = ""  # type alias target
    raw: str = ""

    @property
    def gated(self) -> bool:
        return any(re.sub(r"\s", "", a) == 'cfg(feature="proposed")' for a in self.attrs)

    @property
    def untagged(self) -> bool:
        return any(re.sub(r"\s", "", a).startswith("serde(") and "untagged" in a for a in self.attrs)

    @property
    def rename_all(self) -> Optional[str]:
        for a in self.attrs:
            m = re.search(r'rename_all\s*=\s*"(\w+)"', a)
            if m:
                return m.group(1)
        return None


TOKEN = re.compile(r'///[^\n]*|//[^\n]*|/\*.*?\*/|"(?:[^"\\]|\\.)*"|\'(?:[^\'\\]|\\.)\'|[A-Za-z_][A-Za-z0-9_]*|\d+|->|=>|::|[{}()\[\]<>,;:=#!&\'\*\?\-\+\.\|]|\s+|.', re.S)


def tokenize(src: str) -> List[str]:
    out = []
    for m in TOKEN.finditer(src):
        t = m.group(0)
        if t.isspace() or t.startswith("//") or t.startswith("/*"):
            continue
        out.append(t)
    return out


class Parser:
    def __init__(self, src: str):
        self.t = tokenize(src)
        self.i = 0

    def peek(self, k=0):
        return self.t[self.i + k] if self.i + k < len(self.t) else None

    def next(self):
        x = self.t[self.i]
        self.i += 1
        return x

    def attr(self) -> str:
        # '#' '[' ... ']'  (or '#![...]')
        assert self.next() == "#"
        if self.peek() == "!":
            self.next()
        assert self.next() == "["
        depth = 1
        parts = []
        while depth:
            x = self.next()
            if x == "[":
                depth += 1
            elif x == "]":
                depth -= 1
                if depth == 0:
                    break
            parts.append(x)
        return _join(parts)

    def balanced(self, open_: str, close: str) -> List[str]:
        assert self.next() == open_
        depth = 1
        parts = []
        while depth:
            x = self.next()
            if x == open_:
                depth += 1
            elif x == close:
                depth -= 1
                if depth == 0:
                    break
            parts.append(x)
        return parts

    def type_until(self, stops: Tuple[str, ...]) -> str:
        depth = 0
        parts = []
        while True:
            x = self.peek()
            if x is None:
                break
            if depth == 0 and x in stops:
                break
            if x in "<([":
                depth += 1
            elif x in ">)]":
                if depth == 0:
                    break
                depth -= 1
            parts.append(self.next())
        return "".join(parts)

    def items(self) -> List[Item]:
        out: List[Item] = []
        while self.peek() is not None:
            attrs = []
            while self.peek() == "#":
                attrs.append(self.attr())
            x = self.peek()
            if x is None:
                break
            if x == "pub":
                self.next()
                if self.peek() == "(":
                    self.balanced("(", ")")
                x = self.peek()
            if x == "struct":
                self.next()
                name = self.next()
                gen = ""
                if self.peek() == "<":
                    gen = "".join(self.balanced("<", ">"))
                it = Item("struct", name, attrs, gen)
                if self.peek() == "{":
                    self.next()
                    while self.peek() != "}":
                        fattrs = []
                        while self.peek() == "#":
                            fattrs.append(self.attr())
                        if self.peek() == "pub":
                            self.next()
                            if self.peek() == "(":
                                self.balanced("(", ")")
                        fname = self.next()
                        assert self.next() == ":", f"struct {name}: expected ':' after {fname}"
                        ty = self.type_until((",", "}"))
                        if self.peek() == ",":
                            self.next()
                        it.fields.append(Field(fname, ty, fattrs))
                    self.next()
                else:
                    self.type_until((";",))
                    if self.peek() == ";":
                        self.next()
                out.append(it)
            elif x == "enum":
                self.next()
                name = self.next()
                gen = ""
                if self.peek() == "<":
                    gen = "".join(self.balanced("<", ">"))
                it = Item("enum", name, attrs, gen)
                assert self.next() == "{"
                while self.peek() != "}":
                    vattrs = []
                    while self.peek() == "#":
                        vattrs.append(self.attr())
                    vname = self.next()
                    payload = None
                    disc = None
                    if self.peek() == "(":
                        payload = "".join(self.balanced("(", ")"))
                    elif self.peek() == "{":
                        payload = "{" + "".join(self.balanced("{", "}")) + "}"
                    if self.peek() == "=":
                        self.next()
                        disc = self.type_until((",", "}"))
                    if self.peek() == ",":
                        self.next()
                    it.variants.append(Variant(vname, payload, disc, vattrs))
                self.next()
                out.append(it)
            elif x == "type":
                self.next()
                name = self.next()
                gen = ""
                if self.peek() == "<":
                    gen = "".join(self.balanced("<", ">"))
                assert self.next() == "="
                tgt = self.type_until((";",))
                self.next()
                out.append(Item("type", name, attrs, gen, target=tgt))
            elif x == "impl":
                start = self.i
                while self.peek() != "{":
                    self.next()
                hdr = "".join(self.t[start : self.i])
                body = self.balanced("{", "}")
                m = re.search(r"for([A-Za-z0-9_]+)$", hdr.replace(" ", ""))
                out.append(Item("impl", m.group(1) if m else hdr, attrs, raw=hdr + " { " + " ".join(body) + " }"))
            elif x == "use":
                self.type_until((";",))
                self.next()
                out.append(Item("use", "", attrs))
            else:
                # unknown top-level construct: skip to ';' or balanced block
                start = self.i
                while self.peek() not in (None, ";", "{"):
                    self.next()
                if self.peek() == "{":
                    self.balanced("{", "}")
                elif self.peek() == ";":
                    self.next()
                out.append(Item("other", "".join(self.t[start : start + 3]), attrs))
        return out


def _join(parts: List[str]) -> str:
    return "".join(parts)


def serde_camel(ident: str) -> str:
    """serde rename_all = "camelCase" applied to a snake_case field identifier."""
    parts = ident.split("_")
    out = ""
    first = True
    for p in parts:
        if p == "":
            continue
        if first:
            out += p
            first = False
        else:
            out += p[:1].upper() + p[1:]
    return out


def strip_box(ty: str) -> str:
    prev = None
    while prev != ty:
        prev = ty
        ty = re.sub(r"Box<((?:[^<>]|<[^<>]*>)*)>", r"\1", ty)
    return ty


def parse(src: str) -> List[Item]:
    return Parser(src).items()
