import importlib
import os
import sys
import traceback

HERE = os.path.dirname(os.path.dirname(os.path.abspath(__file__)))
sys.path.insert(0, HERE)


def replay(pid: str, path: str) -> int:
    """Re-decide ONE recorded violation on the current tree: the check is run again (quick tier, outputs to a scratch directory) and the
    obligation named in the replay file is looked up among its violations.  exit 1 + VIOLATION line if it fails again, 0 if it does not."""
    import json
    import shutil
    import subprocess
    import tempfile

    body = json.load(open(path, encoding="utf-8"))
    key = body.get("obligation")
    print(f"replaying {pid} obligation {key!r}: {str(body.get('what'))[:300]}")
    for k in ("input", "input_with_extras", "history", "native_replay", "replay"):
        if k in body:
            print(f"  {k}: {json.dumps(body[k], default=str)[:600]}")
    scr = tempfile.mkdtemp(prefix="verif-replay-")
    try:
        env = dict(os.environ, VERIF_EVIDENCE_DIR=os.path.join(scr, "ev"), VERIF_REPLAY_DIR=os.path.join(scr, "rp"))
        p = subprocess.run([sys.executable, os.path.abspath(__file__), pid, "--tier", "quick"], env=env, capture_output=True, text=True)
        lines = p.stdout.splitlines()
        again = [i for i, l in enumerate(lines) if l.startswith("  obligation: ") and l.split("obligation: ", 1)[1] == key]
        if again:
            tail = " no-failing-input-found" if lines[again[0] - 1].endswith("no-failing-input-found") else ""
            print(f"VIOLATION property={pid} replay={path}{tail}")
            print(lines[again[0] + 1] if again[0] + 1 < len(lines) else "")
            return 1
        if p.returncode not in (0, 1):
            print(f"CHECKER-ERROR property={pid} the check exits {p.returncode} on the current tree; the obligation could not be re-decided")
            return p.returncode
        print(f"not reproduced: obligation {key!r} is discharged on the current tree (the check exits {p.returncode})")
        return 0
    finally:
        shutil.rmtree(scr, ignore_errors=True)


def main():
    if len(sys.argv) < 2:
        print("usage: check <ID> [--tier quick|thorough] [--replay FILE]")
        return 3
    pid = sys.argv[1]
    try:
        mod = importlib.import_module(f"props.{pid}")
    except ModuleNotFoundError as e:
        print(f"CHECKER-ERROR property={pid} no check: {e}")
        return 3
    try:
        if "--replay" in sys.argv:
            return replay(pid, sys.argv[sys.argv.index("--replay") + 1])
        return int(mod.main(sys.argv[2:]))
    except Exception:
        traceback.print_exc()
        print(f"CHECKER-ERROR property={pid} crashed")
        return 3


sys.exit(main())
