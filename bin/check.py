import importlib
import os
import sys
import traceback

HERE = os.path.dirname(os.path.dirname(os.path.abspath(__file__)))
sys.path.insert(0, HERE)


def main():
    if len(sys.argv) < 2:
        print("usage: check <ID> [--tier quick|thorough] [--replay FILE]")
        return 3
    pid = sys.argv[1]
    try:
        mod = importlib.import_module(f"props.{pid}")
    except ModuleNotFoundError as e:
        print(f"CHECKER-ERROR property={pid} no check: {e}")
        return 3
    try:
        if "--replay" in sys.argv:
            path = sys.argv[sys.argv.index("--replay") + 1]
            if hasattr(mod, "replay"):
                return int(mod.replay(path))
            print(open(path).read())
            return 0
        return int(mod.main(sys.argv[2:]))
    except Exception:
        traceback.print_exc()
        print(f"CHECKER-ERROR property={pid} crashed")
        return 3


sys.exit(main())
