#!/bin/bash
# usage: tools/try_patch.sh <patch.diff> <ID> [<ID>...]   -- apply a seeded change to /repo, run the quick checks, undo.
# Evidence and replays of these runs go to a scratch directory, not to /verif/evidence.
set -u
PATCH="$(realpath "$1")"; shift
HERE="$(cd "$(dirname "$0")/.." && pwd)"
SCR="$(mktemp -d /tmp/verif-try.XXXXXX)"
if ! git -C /repo diff --quiet; then echo "/repo has uncommitted changes; refusing"; exit 9; fi
git -C /repo apply "$PATCH" 2>/dev/null || { echo "patch does not apply"; exit 9; }
git -C /repo reset -q 2>/dev/null
trap 'git -C /repo checkout -- . ; rm -rf "$SCR"' EXIT
for id in "$@"; do
  echo "=== $id on $(basename "$(dirname "$PATCH")")/$(basename "$PATCH")"
  VERIF_EVIDENCE_DIR="$SCR/ev" VERIF_REPLAY_DIR="$SCR/replays" "$HERE/bin/check" "$id" ${TIER:+--tier $TIER} 2>&1 | grep -v "^  what\|^  obligation" | tail -${LINES_SHOWN:-12}
  echo "exit=${PIPESTATUS[0]}"
done
