#!/bin/bash
# usage: tools/try_patch.sh [--in-repo] <patch.diff> <ID> [<ID>...]
# Runs the quick checks against a seeded change.  Default: on a scratch worktree of /repo's HEAD (VERIF_REPO=<worktree>),
# so /repo itself is never touched; --in-repo applies the patch to /repo, runs, and undoes it (what the harness does).
# Evidence and replays of these runs go to a scratch directory, not to /verif/evidence.
set -u
MODE=worktree
if [ "$1" = "--in-repo" ]; then MODE=repo; shift; fi
PATCH="$(realpath "$1")"; shift
HERE="$(cd "$(dirname "$0")/.." && pwd)"
SCR="$(mktemp -d /tmp/verif-try.XXXXXX)"
if [ "$MODE" = repo ]; then
  if ! git -C /repo diff --quiet; then echo "/repo has uncommitted changes; refusing"; exit 9; fi
  git -C /repo apply "$PATCH" 2>/dev/null || { echo "patch does not apply"; exit 9; }
  trap 'git -C /repo checkout -- . ; rm -rf "$SCR"' EXIT
  TARGET=/repo
else
  WT="$SCR/wt"
  git -C /repo worktree add -q --detach "$WT" HEAD || exit 9
  trap 'git -C /repo worktree remove --force "$WT" 2>/dev/null; rm -rf "$SCR"' EXIT
  git -C "$WT" apply "$PATCH" 2>/dev/null || { echo "patch does not apply"; exit 9; }
  TARGET="$WT"
fi
for id in "$@"; do
  echo "=== $id on $(basename "$(dirname "$PATCH")")/$(basename "$PATCH")"
  VERIF_REPO="$TARGET" VERIF_EVIDENCE_DIR="$SCR/ev" VERIF_REPLAY_DIR="$SCR/replays" "$HERE/bin/check" "$id" ${TIER:+--tier $TIER} 2>&1 | grep -v "^  what\|^  obligation" | tail -${LINES_SHOWN:-12}
  echo "exit=${PIPESTATUS[0]}"
done
