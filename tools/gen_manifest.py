"""Regenerate MANIFEST.json from tools/manifest_src.py (single source of truth for the checks table)."""
import json, os, sys
HERE = os.path.dirname(os.path.dirname(os.path.abspath(__file__)))
sys.path.insert(0, os.path.join(HERE, "tools"))
import manifest_src as S

props = [json.loads(l)["id"] for l in open(os.path.join(HERE, "properties.jsonl"))]
checks = []
for pid in props:
    c = S.CHECKS.get(pid)
    if not c:
        continue
    checks.append({
        "property_id": pid,
        "quick_cmd": f"bin/check {pid} --tier quick",
        "thorough_cmd": f"bin/check {pid} --tier thorough",
        "evidence_file": f"evidence/{pid}.json",
        "replay_cmd_template": f"bin/check {pid} --replay {{path}}",
        "engine": c.get("engine", "pyvc"),
        "level_claimed": {"category": c["level"], "text": c["text"], "design_ref": c.get("design_ref", "DESIGN.md section 5")},
        "level_note": c["note"],
        "technique": c["technique"],
    })
na = [{"property_id": pid, "reason": S.NOT_APPLICABLE.get(pid, "check not built yet (work in progress); nothing is claimed for this property")} for pid in props if pid not in S.CHECKS]
m = {
    "version": 1,
    "setup_cmd": S.SETUP,
    "hooks": S.HOOKS,
    "engines": S.ENGINES,
    "checks": checks,
    "notes": S.NOTES,
    "not_applicable": na,
}
json.dump(m, open(os.path.join(HERE, "MANIFEST.json"), "w"), indent=1)
import jsonschema
jsonschema.validate(m, json.load(open("/root/.vp/MANIFEST.schema.json")))
print("MANIFEST.json written:", len(checks), "checks,", len(na), "not claimed")
