"""Subprocess helper (C01): structure and unstructure the minimal and the maximal witness of every generated class and print one line per
(class, witness): 'ok <sha256 of the re-serialised JSON>' or 'raise <ExceptionType>'.  Run once normally and once with `python -O`: the
library must not behave differently when assertions are compiled away."""
import hashlib
import json
import os
import sys

VERIF = os.path.dirname(os.path.dirname(os.path.abspath(__file__)))
sys.path.insert(0, VERIF)

from lib.pylive import Live  # noqa: E402
from lib.sweeps import decl_type  # noqa: E402
from oracle.metamodel import MetaModel  # noqa: E402
from oracle.pairing import all_class_decls  # noqa: E402


def main():
    live = Live()
    mm = MetaModel.load()
    conv = live.converter
    for d in all_class_decls(mm):
        cls = getattr(live.types, d.pyname, None)
        if cls is None:
            continue
        t = decl_type(d)
        for mx in (False, True):
            try:
                j = mm.witness(t, mx)
            except Exception:  # noqa
                continue
            try:
                back = conv.unstructure(conv.structure(j, cls))
                print(d.pyname, int(mx), "ok", hashlib.sha256(json.dumps(back, sort_keys=True, default=str).encode()).hexdigest()[:16])
            except Exception as e:  # noqa
                print(d.pyname, int(mx), "raise", type(e).__name__)


if __name__ == "__main__":
    main()
