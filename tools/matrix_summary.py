"""Summarise seeded/MATRIX.json: per seed, which quick checks exit 1; totals for DESIGN.md section 8."""
import json
import os
import sys

HERE = os.path.dirname(os.path.dirname(os.path.abspath(__file__)))
m = json.load(open(os.path.join(HERE, "seeded", "MATRIX.json")))
head = m.pop("repo_head", "?")
own, other, none, ctrl_ok, ctrl_bad, errors = [], [], [], [], [], []
for seed, res in sorted(m.items()):
    if "_error" in res:
        errors.append((seed, res["_error"]))
        continue
    caught = sorted(k for k, v in res.items() if isinstance(v, dict) and v["exit"] == 1)
    odd = sorted(k for k, v in res.items() if isinstance(v, dict) and v["exit"] not in (0, 1))
    if odd:
        errors.append((seed, f"exit codes other than 0/1: {odd}"))
    if seed.startswith("_"):
        (ctrl_bad if caught or odd else ctrl_ok).append(seed)
        continue
    p = seed.split("-")[0]
    if p in caught:
        own.append(seed)
    elif caught:
        other.append((seed, caught))
    else:
        none.append(seed)
print(f"repo head {head}; seeds {len(own) + len(other) + len(none)}: own {len(own)}, by another check {len(other)}, not caught {len(none)}; negative controls silent {len(ctrl_ok)}, alarming {len(ctrl_bad)}")
by = {}
for s, c in other:
    by.setdefault(",".join(c), []).append(s)
for c, ss in sorted(by.items()):
    print(f"  caught by {c}: {' '.join(ss)}")
print("  not caught:", " ".join(none))
if ctrl_bad:
    print("  ALARMING CONTROLS:", ctrl_bad)
for s, e in errors:
    print("  ERROR", s, e)
