SETUP = "true"
HOOKS = {
    "guard": "LSPROTOCOL_VERIF",
    "enable": "no source hooks: contracts are sidecar files under /verif/contracts, run-time wrappers are installed by monkey-patching inside the checker's own process",
    "baseline_off_cmd": "cd /repo && /venv/bin/python -m pytest -ra -q -p no:cacheprovider --timeout=900 --continue-on-collection-errors",
    "source_commits": [],
    "add_only": True,
}
ENGINES = [
    {"name": "pyvc", "path": "pyvc/", "serves_properties": ["C01","C02","C03","C10","C11","C12","C13","C14","C15","C20"], "kind_free_text": "verification-condition generator: symbolic execution of the real ast.FunctionDef nodes of /repo against sidecar functional contracts, SMT-LIB2 obligations discharged by z3 (cvc5 fallback / cross-check)"},
    {"name": "regen", "path": "lib/gen.py", "serves_properties": ["C05", "C16", "C18"], "kind_free_text": "runs the real generator command of the working tree into scratch directories and compares / inspects its output"},
    {"name": "tables", "path": "oracle/", "serves_properties": ["C01","C02","C03","C04","C09","C10","C11","C12","C13"], "kind_free_text": "exhaustive evaluation of finite table obligations (live classes vs generator/lsp.json through an independent metamodel oracle)"},
]
NOTES = "bin/check <ID>: exit 0 held, 1 violation (VIOLATION line + replay file), 2 undecided (solver unknown), 3 checker/assumption broken. See DESIGN.md."
NOT_APPLICABLE = {}
CHECKS = {
    "C12": {
        "level": "proof",
        "technique": "contract-based deductive verification: AST->SMT VCs of both validators (all arguments) + exhaustive attachment table",
        "text": "integer_validator/uinteger_validator are proved against the statement's ranges for every Python value (symbolic execution of the real source, z3); the attachment of the right validator to every integer-typed attribute is evaluated exhaustively against the metamodel; the two entry points are probed on the boundary set at every site (bounded, not counted as proved).",
        "note": "trusted: z3/cvc5, the pyvc encoder (DESIGN 2.2-2.3), CPython int/bool semantics, the cattrs int()+constructor row (probed per site). A function that leaves the verified subset is decided by a bounded native grid, labelled as such in the evidence.",
        "design_ref": "DESIGN.md 5/C12",
    },
    "C20": {
        "level": "proof",
        "technique": "contract-based deductive verification: lemma programs over the six operators / repr executed symbolically through the real dunder methods (types.py + functools helpers), SMT-discharged for all ints",
        "text": "46 lemmas (six operators on Position pairs, Range/Location ==/!=, reprs, comparisons with unrelated objects) are proved for all uinteger fields and all strings by symbolic execution of the real method bodies found in the live class __dict__ under the CPython operator-dispatch rules; z3 discharges every path obligation.",
        "note": "trusted: z3/cvc5, pyvc's model of CPython rich-comparison dispatch and tuple comparison, inspect.getsource for the functools helpers; type invariant of the fields is a precondition. Methods that leave the subset fall back to a bounded native grid (labelled).",
        "design_ref": "DESIGN.md 5/C20",
    },
    "C01": {
        "level": "proof",
        "technique": "contract-based deductive verification of every union handler (AST->SMT, O0 no-raise / O1 right alternative / O2 nothing lost) + exhaustive class-lemma tables + alias-root table",
        "text": "every effective union handler (59 hand-written hooks read from their real ast nodes; cattrs default disambiguators read from the live closure) is executed symbolically on a probe-tree abstraction of its JSON input under the precondition 'strictly valid for the metamodel type at the use site'; obligations are discharged by z3 (cvc5 fallback); counter-models are concretised and replayed on the real converter. O2 requires the chosen class to declare every property of the input, so the per-class lemma gives a loss-free round trip by induction on the value; the lemma's leaves (attribute per property, wire names, annotations, omit rule) are evaluated exhaustively; every alias is tried as a root; a bounded root sweep replays the argument natively on every class.",
        "note": "trusted: z3/cvc5; the pyvc/jsonsym encoder (DESIGN 2.2-2.4) incl. the array (2 explicit + generic element) and object (presence bits + 'some undeclared key') abstractions; cattrs/attrs per-class rows of DESIGN 2.4 (assumed, exercised by native sweeps on every class); the metamodel oracle. Handlers outside the subset fall back to a bounded native input family (labelled).",
        "design_ref": "DESIGN.md 4, 5/C01",
    },
    "C02": {
        "level": "proof",
        "technique": "SMT contracts on _omit / is_special_property + exhaustive wire-name / omit / annotation tables on two converters + constructor-path sweep",
        "text": "The omit decision is proved (for all classes and attribute names) to be non-membership of the qualified name in the special table; the table's extension, the effective wire name of every attribute (read from the overrides the live converter holds, so _to_camel_case is exercised on every committed name) and the annotations are evaluated exhaustively on two converters that met the classes in opposite orders; a constructor-path sweep (normal form, re-structure, re-serialise) replays it on every class.",
        "note": "trusted: z3/cvc5, pyvc, cattrs unstructure rows (assumed, exercised by the sweep), oracle normal form. _to_camel_case itself is outside the SMT fragment (split/title): decided by exhaustive evaluation on the committed names only.",
        "design_ref": "DESIGN.md 5/C02",
    },
    "C03": {
        "level": "proof",
        "technique": "contract-based deductive verification of every union handler (O0/O1: result is an instance of an alternative the input is valid for; no pass-through of objects) + annotation table + typedness sweep",
        "text": "every effective union handler (59 hand-written hooks read from their real ast nodes; cattrs default disambiguators read from the live closure) is executed symbolically on a probe-tree abstraction of its JSON input under the precondition 'strictly valid for the metamodel type at the use site'; obligations are discharged by z3 (cvc5 fallback); counter-models are concretised and replayed on the real converter. O1 fails with a concrete shape when a handler returns a raw dict/list where a class is declared or picks a class the input is not valid for; annotations of every attribute are compared with the metamodel mapping (typing ==) and checked free of unresolved references; an isinstance walk over the object graph of every class root replays it natively.",
        "note": "trusted: z3/cvc5; the pyvc/jsonsym encoder (DESIGN 2.2-2.4) incl. the array (2 explicit + generic element) and object (presence bits + 'some undeclared key') abstractions; cattrs/attrs per-class rows of DESIGN 2.4 (assumed, exercised by native sweeps on every class); the metamodel oracle. Handlers outside the subset fall back to a bounded native input family (labelled).",
        "design_ref": "DESIGN.md 4, 5/C03",
    },
    "C04": {
        "level": "proof",
        "technique": "exhaustive two-directional table comparison of live classes/enums/aliases with the metamodel (finite domain, complete)",
        "text": "Every structure/enumeration/alias and every flattened property of generator/lsp.json is compared with the live package in both directions: attribute per property (paired by effective wire name), no extra attribute/class, required-iff rule, defaults, annotation under the documented mapping (typing ==), validator per base type, literal default + in_ validator, enum values. The quantifier of C04 is this finite set, so evaluation is complete.",
        "note": "trusted: the independent metamodel oracle (flattening, mapping), attrs.fields / cattrs overrides as read from live objects, typing equality. Not deduced: the generator functions that produced the table (their decision helpers are C06/C10 work).",
        "design_ref": "DESIGN.md 5/C04",
    },
    "C09": {
        "level": "proof",
        "technique": "exhaustive evaluation of the METHOD_TO_TYPES / constants / direction / registry tables against the metamodel (finite, complete)",
        "text": "95 methods x (message class, response class, params, registration options, default method, constant, direction) plus 'nothing extra', and registry completeness for every name types.py defines, evaluated after import and after the first and second get_converter(); every annotation is free of unresolved references afterwards.",
        "note": "trusted: oracle derivation of class / constant names from typeName / method; typing equality.",
        "design_ref": "DESIGN.md 5/C09",
    },
    "C10": {
        "level": "proof",
        "technique": "SMT contracts on _omit / is_special_property (all classes, all names) + exhaustive per-attribute special/default table on two converters + toggle sweep",
        "text": "_omit is proved to be the negation of is_special_property, which is proved to be membership of '<Class>.<attr>' in the special table; the table's extension is compared attribute by attribute with the rule of the statement (null-admitting, string literal, envelope method/jsonrpc/result) through the omit_if_default the live converter actually holds, in both class orders; defaults give the parsing half; each attribute is toggled on a concrete instance as replay.",
        "note": "trusted: z3/cvc5, pyvc, cattrs omit_if_default row (assumed, exercised by the toggle sweep), oracle rule.",
        "design_ref": "DESIGN.md 5/C10",
    },
    "C11": {
        "level": "proof",
        "technique": "SMT proof of both range validators + real-arithmetic lemma on int() coercion + exhaustive attachment tables + frame condition on hooks + exhaustive single-edit sweep",
        "text": "Rejection of each of the four edits is reduced to attachment facts evaluated for every eligible property (no default; proved range validator; exact enum annotation; in_([literal]) validator) plus assumed cattrs rows; the coercion lemma over the reals is discharged by z3 and fails exactly for non-integral numbers within 1 of a bound (recorded finding); union hooks must not call outside their frame (symbolic execution reports any other call); every eligible (class, property, edit) is applied to a minimal and a maximal instance, twice, as replay.",
        "note": "trusted: z3/cvc5, pyvc, cattrs/attrs rows (missing key, Enum(v), validators run by the constructor), surrounding value of the sweep is bounded.",
        "design_ref": "DESIGN.md 5/C11",
    },
    "C13": {
        "level": "proof",
        "technique": "exhaustive enum tables + union-handler contract at every open-enum position (O0/O1 pass-through; O4 closed enum inside a union is not passed through unchecked) + use-site sweep",
        "text": "40 enumerations x values (none missing/added/altered; member-name count = metamodel value count); handlers at open-enum positions are proved to pass every value of the base type through; handlers whose union contains a closed enumeration are proved not to pass a non-member through unchecked; closed enumerations are annotated with exactly the enum class; every use site x every declared value x custom values is replayed natively.",
        "note": "trusted: z3/cvc5; the pyvc/jsonsym encoder (DESIGN 2.2-2.4) incl. the array (2 explicit + generic element) and object (presence bits + 'some undeclared key') abstractions; cattrs/attrs per-class rows of DESIGN 2.4 (assumed, exercised by native sweeps on every class); the metamodel oracle. Handlers outside the subset fall back to a bounded native input family (labelled).",
        "design_ref": "DESIGN.md 5/C13",
    },
    "C14": {
        "level": "proof",
        "technique": "dispatch-table evaluation on a live converter + contract-based deductive verification of every effective union handler (O0 no raise, O1 right alternative, per-alternative cover)",
        "text": "every effective union handler (59 hand-written hooks read from their real ast nodes; cattrs default disambiguators read from the live closure) is executed symbolically on a probe-tree abstraction of its JSON input under the precondition 'strictly valid for the metamodel type at the use site'; obligations are discharged by z3 (cvc5 fallback); counter-models are concretised and replayed on the real converter. A union position whose effective handler is cattrs' raise_error is a violation with a concrete input; for every other position O0 and O1 are proved for all strictly valid inputs, and each alternative is shown satisfiable as a precondition.",
        "note": "trusted: z3/cvc5; the pyvc/jsonsym encoder (DESIGN 2.2-2.4) incl. the array (2 explicit + generic element) and object (presence bits + 'some undeclared key') abstractions; cattrs/attrs per-class rows of DESIGN 2.4 (assumed, exercised by native sweeps on every class); the metamodel oracle. Handlers outside the subset fall back to a bounded native input family (labelled).",
        "design_ref": "DESIGN.md 4, 5/C14",
    },
    "C15": {
        "level": "proof",
        "technique": "two-run (relational) SMT obligation per pair of handler paths: inputs agreeing on everything but undeclared keys reach the same outcome; call-site scan for forbid_extra_keys; extras sweep",
        "text": "For every union handler and every pair of paths with different outcomes, z3 shows that no two inputs that agree on all declared keys (and differ arbitrarily on keys no alternative declares, at every expanded level) can take the two paths; the precondition of the assumed cattrs 'extra keys ignored' row (forbid_extra_keys never passed) is scanned; extras at every object node of valid values of every class are replayed natively.",
        "note": "trusted: z3/cvc5; the pyvc/jsonsym encoder (DESIGN 2.2-2.4) incl. the array (2 explicit + generic element) and object (presence bits + 'some undeclared key') abstractions; cattrs/attrs per-class rows of DESIGN 2.4 (assumed, exercised by native sweeps on every class); the metamodel oracle. Handlers outside the subset fall back to a bounded native input family (labelled).",
        "design_ref": "DESIGN.md 4, 5/C15",
    },
    "C05": {
        "level": "translation_validation",
        "technique": "run-time contract check of the plugins' postcondition on the one configuration the property quantifies over: regenerate, then AST (python) / rustfmt+byte (rust) comparison in both directions",
        "text": "The python and rust plugins are run from the current tree into a scratch directory; every top-level statement of types.py is compared by ast.dump after docstring-whitespace normalisation, lib.rs byte-for-byte after rustfmt (edition from Cargo.toml); counts are compared so extra statements/items on either side are found. The domain is a singleton, so evaluation is complete; it is not deduction.",
        "note": "trusted: rustfmt 1.9, python ast; the formatter for Python is assumed to change docstring whitespace only.",
        "design_ref": "DESIGN.md 5/C05",
        "engine": "regen",
    },
    "C18": {
        "level": "proof",
        "technique": "SMT contracts on the 22 hand-written __eq__ methods (structural equality, never raises) + structural dominance obligations on main() + finite schema<->model-class table + native replays (double load, read-back, merge, schema-violating edits x plugins)",
        "text": "Every __eq__ of generator/model.py is symbolically executed with opaque field values and proved equal to 'same class and all structural attrs fields equal', which also rules out reads of non-fields; main() is shown to validate every model file, unconditionally and in the same loop that appends it, against a schema object whose root is constrained, before create_lsp_model and the plugin, with no write before; the schema's object definitions and type kinds are compared with the model classes; merge and read-back are evaluated on the committed model (bounded), the gate is replayed with schema-violating edits through the real command.",
        "note": "trusted: z3/cvc5, pyvc, jsonschema, attrs constructors; merge=concatenation is evaluated on splits of the committed model, not deduced; lossless loading is the finite schema/class comparison plus attrs semantics.",
        "design_ref": "DESIGN.md 5/C18",
    },
}
