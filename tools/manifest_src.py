SETUP = "true"
HOOKS = {
    "guard": "LSPROTOCOL_VERIF",
    "enable": "no source hooks: contracts are sidecar files under /verif/contracts, run-time wrappers are installed by monkey-patching inside the checker's own process",
    "baseline_off_cmd": "cd /repo && /venv/bin/python -m pytest -ra -q -p no:cacheprovider --timeout=900 --continue-on-collection-errors",
    "source_commits": [],
    "add_only": True,
}
ENGINES = [
    {"name": "pyvc", "path": "pyvc/", "serves_properties": ["C12", "C20"], "kind_free_text": "verification-condition generator: symbolic execution of the real ast.FunctionDef nodes of /repo against sidecar functional contracts, SMT-LIB2 obligations discharged by z3 (cvc5 fallback / cross-check)"},
    {"name": "tables", "path": "oracle/", "serves_properties": ["C12"], "kind_free_text": "exhaustive evaluation of finite table obligations (live classes vs generator/lsp.json through an independent metamodel oracle)"},
]
NOTES = "bin/check <ID>: exit 0 held, 1 violation (VIOLATION line + replay file), 2 undecided (solver unknown), 3 checker/assumption broken. See DESIGN.md."
NOT_APPLICABLE = {}
CHECKS = {
    "C12": {
        "level": "proof",
        "technique": "contract-based deductive verification: AST->SMT VCs of both validators (all arguments) + exhaustive attachment table",
        "text": "integer_validator/uinteger_validator are proved against the statement's ranges for every Python value (symbolic execution of the real source, z3); the attachment of the right validator to every integer-typed attribute is evaluated exhaustively against the metamodel; the two entry points are probed on the boundary set at every site (bounded, not counted as proved).",
        "note": "trusted: z3/cvc5, the pyvc encoder (DESIGN 2.2-2.3), CPython int/bool semantics, the cattrs int()+constructor row (probed per site). A function that leaves the verified subset is decided by a bounded native grid, labelled as such in the evidence.",
        "design_ref": "DESIGN.md 5/C12",
    },
    "C20": {
        "level": "proof",
        "technique": "contract-based deductive verification: lemma programs over the six operators / repr executed symbolically through the real dunder methods (types.py + functools helpers), SMT-discharged for all ints",
        "text": "46 lemmas (six operators on Position pairs, Range/Location ==/!=, reprs, comparisons with unrelated objects) are proved for all uinteger fields and all strings by symbolic execution of the real method bodies found in the live class __dict__ under the CPython operator-dispatch rules; z3 discharges every path obligation.",
        "note": "trusted: z3/cvc5, pyvc's model of CPython rich-comparison dispatch and tuple comparison, inspect.getsource for the functools helpers; type invariant of the fields is a precondition. Methods that leave the subset fall back to a bounded native grid (labelled).",
        "design_ref": "DESIGN.md 5/C20",
    },
}
