"""Subprocess helper for C19: build converters in the given history, print the battery results of selected ones.

usage: c19_probe.py '<json spec>'
spec = {"history": ["fresh", "nodetail", "forbid", "custom", "fresh+hook", "lenient", ...], "report": [indices], "use_all": bool,
        "preempt": {"point": k} (optional: two threads, thread A suspended at its k-th line event inside lsprotocol)}
"""
import json
import os
import sys
import threading

REPO = os.environ.get("VERIF_REPO", "/repo")
sys.path.insert(0, os.path.join(REPO, "packages", "python"))


def make(kind):
    import cattrs
    from lsprotocol import converters

    if kind == "fresh":
        return converters.get_converter()
    if kind == "nodetail":
        return converters.get_converter(cattrs.Converter(detailed_validation=False))
    if kind == "forbid":
        return converters.get_converter(cattrs.Converter(forbid_extra_keys=True))
    if kind == "custom":
        import lsprotocol.types as T

        c = cattrs.Converter()
        c.register_unstructure_hook(T.Position, lambda p: [p.line, p.character])
        c = converters.get_converter(c)
        return c
    if kind == "fresh+hook":
        # a user customises the converter get_converter() handed out (after the fact): nobody else's converter may notice
        import lsprotocol.types as T

        c = converters.get_converter()
        c.register_unstructure_hook(T.Position, lambda p: f"{p.line}:{p.character}")
        c.register_structure_hook(T.Position, lambda v, _: T.Position(line=int(str(v).split(":")[0]), character=int(str(v).split(":")[1])) if isinstance(v, str) else T.Position(**v))
        return c
    if kind == "copy":
        # a copy of a converter that get_converter() handed out (cattrs.Converter.copy): must parse and serialise like the original
        return converters.get_converter().copy()
    if kind == "prefer":
        return converters.get_converter(cattrs.Converter(prefer_attrib_converters=True))
    if kind == "omitdefault":
        return converters.get_converter(cattrs.Converter(omit_if_default=True))
    if kind.startswith("kw:"):
        # a keyword option of get_converter() itself, discovered from its signature: get_converter(<name>=<flipped default>)
        name, val = kind[3:].split("=", 1)
        return converters.get_converter(**{name: json.loads(val)})
    if kind == "interrupted-first":
        # the process's first get_converter() is interrupted part-way through forward-reference resolution (Ctrl-C, here: the 50th call of
        # attrs.resolve_types raises KeyboardInterrupt once); the application catches it and asks again: that converter must be a normal one
        import attrs

        real = attrs.resolve_types
        state = {"n": 0}

        def interrupted(*a, **k):
            state["n"] += 1
            if state["n"] == 50:
                raise KeyboardInterrupt()
            return real(*a, **k)

        attrs.resolve_types = interrupted
        try:
            try:
                converters.get_converter()
                make.notes.append("interruption-not-reached" if state["n"] < 50 else "first-call-survived")
            except KeyboardInterrupt:
                make.notes.append("interrupted")
        finally:
            attrs.resolve_types = real
        return converters.get_converter()
    if kind == "lenient":
        # a user converter that is deliberately lenient about a few enumerations (its own business): nobody else's converter may inherit that
        import lsprotocol.types as T

        c = cattrs.Converter()
        for e in (T.DiagnosticSeverity, T.MarkupKind, T.FileChangeType, T.SymbolKind):
            c.register_structure_hook(e, lambda v, _: v)
        return converters.get_converter(c)
    raise ValueError(kind)


make.notes = []


def battery(conv):
    import lsprotocol.types as T

    out = []
    cases = [
        (T.Position, {"line": 1, "character": 2}),
        (T.Position, {"line": -1, "character": 2}),
        (T.Position, {"line": 1, "character": 2, "extra": 1}),
        (T.Range, {"start": {"line": 1, "character": 2}, "end": {"line": 3, "character": 4}}),
        (T.Location, {"uri": "file:///a", "range": {"start": {"line": 1, "character": 2}, "end": {"line": 3, "character": 4}}}),
        (T.CreateFile, {"kind": "create", "uri": "file:///a"}),
        (T.CreateFile, {"kind": "rename", "uri": "file:///a"}),
        (T.CompletionItem, {"label": "x", "kind": 3, "documentation": {"kind": "markdown", "value": "v"}}),
        (T.ServerCapabilities, {"hoverProvider": True, "declarationProvider": {"documentSelector": None, "workDoneProgress": True}, "textDocumentSync": 1}),
        (T.InitializeResponse, {"id": 1, "jsonrpc": "2.0", "result": {"capabilities": {}}}),
        (T.SignatureHelpResponse, {"id": 1, "jsonrpc": "2.0", "result": None}),
        (T.WorkspaceEdit, {"documentChanges": [{"kind": "create", "uri": "file:///a"}, {"textDocument": {"uri": "file:///b", "version": None}, "edits": [{"range": {"start": {"line": 0, "character": 0}, "end": {"line": 0, "character": 0}}, "newText": "t"}]}]}),
        (T.DidChangeTextDocumentParams, {"textDocument": {"uri": "u", "version": 1}}),
        (T.Hover, {"contents": ["s", {"language": "py", "value": "v"}]}),
        # unknown properties at nested nodes, values outside closed enumerations
        (T.Range, {"start": {"line": 1, "character": 2, "zzz": 0}, "end": {"line": 3, "character": 4}, "yyy": None}),
        (T.TextEdit, {"range": {"start": {"line": 0, "character": 0}, "end": {"line": 0, "character": 1}}, "newText": "t", "new_text": "u"}),
        (T.Diagnostic, {"range": {"start": {"line": 0, "character": 0}, "end": {"line": 0, "character": 1}}, "message": "m", "severity": 99}),
        (T.Diagnostic, {"range": {"start": {"line": 0, "character": 0}, "end": {"line": 0, "character": 1}}, "message": "m", "severity": 2, "extra": {"a": 1}}),
        (T.MarkupContent, {"kind": "html", "value": "v"}),
        (T.FileEvent, {"uri": "file:///a", "type": 4}),
        # lists that go through hand-written list hooks, with items that carry multi-word (renamed) properties
        (T.WorkspaceSymbolResponse, {"id": 1, "jsonrpc": "2.0", "result": [{"name": "n", "kind": 5, "containerName": "c", "location": {"uri": "u", "range": {"start": {"line": 0, "character": 0}, "end": {"line": 0, "character": 1}}}}]}),
        (T.WorkspaceSymbolResponse, {"id": 1, "jsonrpc": "2.0", "result": [{"name": "n", "kind": 5, "containerName": "c", "location": {"uri": "u"}, "data": 1}]}),
        (T.WorkspaceSymbolResponse, {"id": 1, "jsonrpc": "2.0", "result": [{"name": "n", "kind": 5, "containerName": "c", "deprecated": True, "location": {"uri": "u", "range": {"start": {"line": 0, "character": 0}, "end": {"line": 0, "character": 1}}}}]}),
        (T.DocumentSymbolResponse, {"id": 1, "jsonrpc": "2.0", "result": [{"name": "n", "kind": 5, "range": {"start": {"line": 0, "character": 0}, "end": {"line": 0, "character": 1}}, "selectionRange": {"start": {"line": 0, "character": 0}, "end": {"line": 0, "character": 1}}, "children": []}]}),
        (T.DocumentSymbolResponse, {"id": 1, "jsonrpc": "2.0", "result": [{"name": "n", "kind": 5, "containerName": "c", "location": {"uri": "u", "range": {"start": {"line": 0, "character": 0}, "end": {"line": 0, "character": 1}}}}]}),
        (T.CompletionResponse, {"id": 1, "jsonrpc": "2.0", "result": {"isIncomplete": False, "items": [{"label": "x", "insertTextFormat": 2, "textEdit": {"newText": "t", "insert": {"start": {"line": 0, "character": 0}, "end": {"line": 0, "character": 1}}, "replace": {"start": {"line": 0, "character": 0}, "end": {"line": 0, "character": 2}}}}], "itemDefaults": {"commitCharacters": ["."], "insertTextMode": 1}}}),
        (T.CodeActionResponse, {"id": 1, "jsonrpc": "2.0", "result": [{"title": "t", "command": "c"}, {"title": "a", "isPreferred": True, "edit": {"changeAnnotations": {"k": {"label": "l", "needsConfirmation": True}}}}]}),
        (T.DefinitionResponse, {"id": 1, "jsonrpc": "2.0", "result": [{"targetUri": "u", "targetRange": {"start": {"line": 0, "character": 0}, "end": {"line": 0, "character": 1}}, "targetSelectionRange": {"start": {"line": 0, "character": 0}, "end": {"line": 0, "character": 1}}}]}),
        (T.InlayHintResponse, {"id": 1, "jsonrpc": "2.0", "result": [{"position": {"line": 0, "character": 0}, "label": [{"value": "v", "tooltip": {"kind": "markdown", "value": "m"}}], "paddingLeft": True}]}),
        (T.DocumentDiagnosticResponse, {"id": 1, "jsonrpc": "2.0", "result": {"kind": "full", "resultId": "r", "items": [], "relatedDocuments": {"u": {"kind": "unchanged", "resultId": "q"}}}}),
        (T.SemanticTokensDeltaResponse, {"id": 1, "jsonrpc": "2.0", "result": {"resultId": "r", "edits": [{"start": 0, "deleteCount": 1, "data": [1]}]}}),
        (T.NotebookDocumentSyncOptions, {"notebookSelector": [{"notebook": {"notebookType": "t"}, "cells": [{"language": "py"}]}], "save": True}),
        (T.DocumentSymbol, {"name": "n", "kind": 99, "range": {"start": {"line": 0, "character": 0}, "end": {"line": 0, "character": 1}}, "selectionRange": {"start": {"line": 0, "character": 0}, "end": {"line": 0, "character": 1}}}),
    ]
    for cls, j in cases:
        try:
            obj = conv.structure(j, cls)
            out.append([cls.__name__, "ok", repr(obj)[:300], json.dumps(conv.unstructure(obj), sort_keys=True, default=str)])
        except Exception as e:  # noqa
            out.append([cls.__name__, "raise", type(e).__name__])
    # constructor path: out-of-range values must be rejected whatever other converters exist or are doing
    for label, f in (("ctor-invalid", lambda: T.Position(line=-1, character=0)), ("ctor-invalid", lambda: T.Position(line=2**31, character=0)), ("ctor-invalid", lambda: T.Diagnostic(range=None, message=5))):
        try:
            f()
            out.append([label, "accepted"])
        except Exception as e:  # noqa
            out.append([label, "raise", type(e).__name__])
    try:
        out.append(["ctor", json.dumps(conv.unstructure(T.SignatureHelpResponse(id=1)), sort_keys=True)])
        out.append(["ctor", json.dumps(conv.unstructure(T.OptionalVersionedTextDocumentIdentifier(uri="u")), sort_keys=True)])
        out.append(["ctor", json.dumps(conv.unstructure(T.CompletionItem(label="x")), sort_keys=True)])
    except Exception as e:  # noqa
        out.append(["ctor", "raise", type(e).__name__, str(e)[:100]])
    return out


def keyword_toggles():
    """Boolean keyword options of get_converter(), each flipped (none on the pinned tree: the signature is (converter=None))."""
    import inspect
    from lsprotocol import converters

    out = []
    for name, p in inspect.signature(converters.get_converter).parameters.items():
        if isinstance(p.default, bool):
            out.append(f"kw:{name}={json.dumps(not p.default)}")
    return out


def during(spec):
    """Thread A is parked INSIDE a structure() call of a converter of each configuration (its payload is a dict whose first access blocks);
    thread B meanwhile creates a fresh converter and runs the battery, and once more after A has finished."""
    import lsprotocol.types as T

    res = {}
    for kind in spec["during"]["kinds"] + keyword_toggles():
        started, release = threading.Event(), threading.Event()

        class Blocking(dict):
            def _park(self):
                if not started.is_set():
                    started.set()
                    release.wait(20)

            def __getitem__(self, k):
                self._park()
                return dict.__getitem__(self, k)

            def __contains__(self, k):
                self._park()
                return dict.__contains__(self, k)

            def get(self, k, d=None):
                self._park()
                return dict.get(self, k, d)

            def __iter__(self):
                self._park()
                return dict.__iter__(self)

        out = {}

        def run_a():
            try:
                c = make(kind)
                c.structure(Blocking(line=1, character=2), T.Position)
                out["A"] = "ok"
            except Exception as e:  # noqa
                out["A"] = f"raise {type(e).__name__}"

        ta = threading.Thread(target=run_a)
        ta.start()
        out["parked"] = started.wait(20)
        out["B_during"] = battery(make("fresh"))
        release.set()
        ta.join(60)
        out["B_after"] = battery(make("fresh"))
        res[kind] = out
    return res


def main():
    spec = json.loads(sys.argv[1])
    res = {}
    if spec.get("during") is not None:
        res = {"during": during(spec)}
    elif spec.get("preempt") is not None:
        res = preempt(spec)
    else:
        convs = []
        for i, kind in enumerate(spec["history"]):
            c = make(kind)
            convs.append(c)
            if spec.get("use_all"):
                battery(c)
        for i in spec["report"]:
            res[str(i)] = battery(convs[i])
        # re-check earlier converters after later ones were created and used
    if make.notes:
        res["notes"] = list(make.notes)
    print("RESULT " + json.dumps(res))


def preempt(spec):
    """Thread A is suspended at its k-th line event inside lsprotocol code; thread B then runs to completion; A resumes."""
    k = spec["preempt"]["point"]
    import lsprotocol.converters  # noqa: imports are not part of the first call
    import cattrs  # noqa

    pkg = os.path.join(REPO, "packages", "python", "lsprotocol")
    state = {"n": 0, "parked": False}
    go_b = threading.Event()
    b_done = threading.Event()
    out = {}

    def tracer(frame, event, arg):
        if frame.f_code.co_filename.startswith(pkg):
            return local
        return None

    def local(frame, event, arg):
        if event == "line" and not state["parked"]:
            state["n"] += 1
            if state["n"] == k:
                state["parked"] = True
                go_b.set()
                b_done.wait(1.5)  # B finished, or is blocked (e.g. on a lock A holds): A resumes
        return local

    def run_a():
        sys.settrace(tracer)
        try:
            c = make(spec["history"][0])
            r = battery(c)
            out["A"] = r
        except Exception as e:  # noqa
            out["A"] = ["raise", type(e).__name__, str(e)[:200]]
        finally:
            sys.settrace(None)
            go_b.set()

    def run_b():
        go_b.wait(60)
        try:
            c = make(spec["history"][-1])
            out["B"] = battery(c)
        except Exception as e:  # noqa
            out["B"] = ["raise", type(e).__name__, str(e)[:200]]
        finally:
            b_done.set()

    ta, tb = threading.Thread(target=run_a), threading.Thread(target=run_b)
    ta.start()
    tb.start()
    ta.join(120)
    tb.join(120)
    out["events_seen"] = state["n"]
    out["parked"] = state["parked"]
    return out


if __name__ == "__main__":
    main()
