#!/bin/bash
# usage: tools/confirm_seed.sh <worktree> <agent-out-dir/k> <seed-id>
# Confirms in the scratch worktree: patch applies; pinned suite passes with it; demo fails with it and passes without.
# On success stores /verif/seeded/<seed-id>/{patch.diff,demo.py,meta.json}.
set -u
WT="$1"; SRC="$2"; SID="$3"
HERE="$(cd "$(dirname "$0")/.." && pwd)"
DEMO=$(ls "$SRC"/demo*.py | head -1)
cd "$WT" || exit 9
git checkout -q -- . ; git clean -qfd
python_demo() { ( cd "$WT" && timeout 900 /venv/bin/python "$DEMO" >/tmp/confirm_demo.out 2>&1 ); echo $?; }
clean_rc=$(python_demo)
git apply "$SRC/patch.diff" || { echo "PATCH DOES NOT APPLY"; exit 1; }
tests=$(timeout 900 /venv/bin/python -m pytest -q -p no:cacheprovider 2>&1 | tail -1)
mut_rc=$(python_demo)
tail -3 /tmp/confirm_demo.out
git checkout -q -- . ; git clean -qfd
echo "clean_demo_rc=$clean_rc mutated_demo_rc=$mut_rc tests='$tests'"
if [ "$clean_rc" = 0 ] && [ "$mut_rc" != 0 ] && echo "$tests" | grep -q "^122 passed"; then
  mkdir -p "$HERE/seeded/$SID"
  cp "$SRC/patch.diff" "$HERE/seeded/$SID/patch.diff"; cp "$DEMO" "$HERE/seeded/$SID/$(basename $DEMO)"
  /venv/bin/python - "$SRC/meta.json" "$HERE/seeded/$SID/meta.json" "$tests" "$clean_rc" "$mut_rc" <<'P'
import json,sys
m=json.load(open(sys.argv[1]))
m["confirmed_by_me"]={"tests_with_change":sys.argv[3],"demo_rc_unchanged":int(sys.argv[4]),"demo_rc_with_change":int(sys.argv[5]),"how":"tools/confirm_seed.sh in a scratch worktree of /repo"}
json.dump(m,open(sys.argv[2],"w"),indent=1)
P
  echo "CONFIRMED -> seeded/$SID"
else
  echo "NOT CONFIRMED"
fi
