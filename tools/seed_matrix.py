"""Run the quick checks against every seeded change, each on its own scratch worktree of /repo (VERIF_REPO=<worktree>).

usage: tools/seed_matrix.py [seed-id ...]      -> writes seeded/MATRIX.json (seed -> check -> {exit, violations})
"""
import concurrent.futures as cf
import json
import os
import re
import shutil
import subprocess
import sys
import tempfile

HERE = os.path.dirname(os.path.dirname(os.path.abspath(__file__)))
FAMILY = {
    "_hooks.py": ["C01", "C02", "C03", "C10", "C11", "C13", "C14", "C15", "C19"],
    "types.py": ["C02", "C04", "C05", "C09", "C10", "C12", "C13", "C20", "C19"],
    "python/utils.py": ["C04", "C05", "C10", "C13", "C16"],
    "validators.py": ["C12", "C11", "C19"],
    "model.py": ["C18", "C16"],
    "__main__.py": ["C18", "C05"],
    "noxfile.py": ["C05"],
    "converters.py": ["C19", "C01", "C10"],
    "rust": ["C07", "C05", "C16"],
    "dotnet": ["C08", "C16"],
    "testdata": ["C17", "C16"],
}


def checks_for(seed: str, patch: str):
    own = seed.split("-")[0]
    out = [] if seed.startswith("_") else [own]
    txt = open(patch).read()
    files = re.findall(r"^\+\+\+ b/(.*)$", txt, re.M)
    for f in files:
        for k, v in FAMILY.items():
            if k in f:
                for c in v:
                    if c not in out:
                        out.append(c)
    if own in ("C06",) or seed in ("C07-2", "C07-3", "C07-5", "C07-6", "C07-7", "C07-8", "C08-8", "C17-7", "C04-8", "C04-9", "C07-9", "C07-10", "C08-9", "C08-10", "C17-9", "C17-10", "C16-10", "C04-11", "C04-12", "C07-11", "C07-12", "C08-11", "C08-12", "_harmless-14", "_harmless-15", "_harmless-16", "_harmless-17", "_harmless-31", "_harmless-32", "C11-12", "C04-13", "C04-14", "C07-13", "C07-14", "C08-13", "C08-14"):
        if "C06" not in out:
            out.append("C06")
    return out


def run_seed(seed: str):
    patch = os.path.join(HERE, "seeded", seed, "patch.diff")
    wt = tempfile.mkdtemp(prefix=f"sm-{seed}-", dir="/tmp")
    os.rmdir(wt)
    res = {}
    try:
        for attempt in range(8):  # concurrent `git worktree add` calls contend for a lock in /repo/.git
            r = subprocess.run(["git", "-C", "/repo", "worktree", "add", "-q", "--detach", wt, "HEAD"], capture_output=True, text=True)
            if r.returncode == 0:
                break
            import time

            time.sleep(0.5 + attempt)
        else:
            return seed, {"_error": "git worktree add failed: " + r.stderr[:200]}
        ap = subprocess.run(["git", "-C", wt, "apply", patch], capture_output=True, text=True)
        if ap.returncode != 0:
            return seed, {"_error": "patch does not apply: " + ap.stderr[:200]}
        for chk in checks_for(seed, patch):
            scr = tempfile.mkdtemp(prefix="sm-ev-", dir="/tmp")
            env = dict(os.environ, VERIF_REPO=wt, VERIF_EVIDENCE_DIR=os.path.join(scr, "ev"), VERIF_REPLAY_DIR=os.path.join(scr, "rp"))
            p = subprocess.run([os.path.join(HERE, "bin", "check"), chk, "--tier", "quick"], capture_output=True, text=True, env=env, timeout=3600)
            viol = [l.split("obligation: ", 1)[1] for l in p.stdout.splitlines() if l.startswith("  obligation: ")]
            nofail = len([l for l in p.stdout.splitlines() if l.startswith("VIOLATION") and l.endswith("no-failing-input-found")])
            res[chk] = {"exit": p.returncode, "violations": len([l for l in p.stdout.splitlines() if l.startswith("VIOLATION")]), "without_failing_input": nofail, "first_obligations": viol[:3]}
            shutil.rmtree(scr, ignore_errors=True)
    finally:
        subprocess.run(["git", "-C", "/repo", "worktree", "remove", "--force", wt], capture_output=True)
    return seed, res


def main():
    seeds = sys.argv[1:] or sorted(d for d in os.listdir(os.path.join(HERE, "seeded")) if os.path.isdir(os.path.join(HERE, "seeded", d)))
    out_path = os.path.join(HERE, "seeded", "MATRIX.json")
    matrix = json.load(open(out_path)) if os.path.exists(out_path) and sys.argv[1:] else {}
    with cf.ThreadPoolExecutor(max_workers=4) as ex:
        for seed, res in ex.map(run_seed, seeds):
            matrix[seed] = res
            own = seed.split("-")[0]
            if seed.startswith("_"):
                verdict = "NEGATIVE-CONTROL-OK" if all(isinstance(v, dict) and v["exit"] == 0 for v in res.values()) else "NEGATIVE-CONTROL-ALARM"
            else:
                verdict = "OWN-CAUGHT" if isinstance(res.get(own), dict) and res[own]["exit"] == 1 else "own-missed"
            print(seed, {k: (v["exit"] if isinstance(v, dict) else v) for k, v in res.items()}, verdict, flush=True)
            json.dump(matrix, open(out_path, "w"), indent=1, sort_keys=True)
    json.dump({"repo_head": subprocess.run(["git", "-C", "/repo", "rev-parse", "--short", "HEAD"], capture_output=True, text=True).stdout.strip(), **matrix}, open(out_path, "w"), indent=1, sort_keys=True)


if __name__ == "__main__":
    main()
