"""Subprocess helper for C16: generate model A, then model B, with the same plugin in ONE interpreter (what a long-running build
script or a test session does); B's output tree is then compared by the caller with a fresh-process run of B.

usage: c16_inproc.py <plugin> <modelA.json | -> <outA> <modelB.json> <outB>
       "-" for model A skips the first generation (fresh reference).  VERIF_SLICE="k" keeps only the first k requests and notifications of
       each model (the testdata plugin writes 74k files for the whole model).
"""
import importlib
import json
import os
import sys

REPO = os.environ.get("VERIF_REPO", "/repo")
sys.path.insert(0, REPO)


def main():
    plugin, a_path, out_a, b_path, out_b = sys.argv[1:6]
    model = importlib.import_module("generator.model")
    mod = importlib.import_module(f"generator.plugins.{plugin}")
    k = int(os.environ.get("VERIF_SLICE", "0") or 0)
    for path, out in ((a_path, out_a), (b_path, out_b)):
        if path == "-":
            continue
        doc = json.load(open(path, "rb"))
        try:
            spec = model.create_lsp_model([doc])
        except Exception:
            if path == b_path:
                raise
            continue
        if k:
            spec.requests = list(spec.requests)[:k]
            spec.notifications = list(spec.notifications)[:k]
        os.makedirs(out, exist_ok=True)
        td = os.path.join(out, "__tests__")
        os.makedirs(td, exist_ok=True)
        try:
            mod.generate(spec, out, td)
        except Exception:
            if path == b_path:
                raise  # only the FIRST generation may fail (history "after a failed run"); the second is the one under test


if __name__ == "__main__":
    import logging

    logging.disable(logging.CRITICAL)
    main()
