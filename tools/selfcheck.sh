#!/bin/bash
# byte-compile every python file of /verif, regenerate + validate MANIFEST.json; run before committing
HERE="$(cd "$(dirname "$0")/.." && pwd)"
/venv/bin/python - <<P || exit 1
import ast, glob, sys
bad = 0
for f in glob.glob("$HERE/**/*.py", recursive=True):
    try:
        ast.parse(open(f).read(), f)
    except SyntaxError as e:
        print("SYNTAX", f, e); bad = 1
sys.exit(bad)
P
/venv/bin/python "$HERE/tools/gen_manifest.py"
