#!/bin/bash
# usage: tools/rebase_seed.sh <seed-id>  -- re-express seeded/<id>/patch.diff (made against the pinned commit) against /repo's HEAD
set -u
SID="$1"; HERE="$(cd "$(dirname "$0")/.." && pwd)"; P="$HERE/seeded/$SID/patch.diff"
BASE=$(git -C /repo rev-list --max-parents=0 HEAD | tail -1)
if git -C /repo apply --check "$P" 2>/dev/null; then echo "$SID applies to HEAD"; exit 0; fi
WT=$(mktemp -d /tmp/rebase.XXXXXX)
git -C /repo worktree add -q --detach "$WT" "$BASE" || exit 9
( cd "$WT" && git apply "$P" && git -c user.name=x -c user.email=x@x commit -qam seed && git -c user.name=x -c user.email=x@x rebase -q "$(git -C /repo rev-parse HEAD)" ) 
rc=$?
if [ $rc = 0 ]; then ( cd "$WT" && git diff HEAD~1 HEAD > "$P.new" ) && cp "$P" "$HERE/seeded/$SID/patch.pinned.diff" && mv "$P.new" "$P" && echo "$SID rebased onto HEAD"; else echo "$SID: rebase conflict"; ( cd "$WT" && git rebase --abort 2>/dev/null ); fi
git -C /repo worktree remove --force "$WT"
