"""create_lsp_model (generator/model.py) under contract: "several model files load as the first model extended in
order by the others' declarations" (C18) as an inductive loop invariant over sequence-valued attributes.

Abstraction (stated in the evidence):
  * `models` is a Python list of n >= 1 documents; document i is an opaque value, LSPModel(**models[i]) allocates a
    fresh object whose five declaration lists are the uninterpreted sequences L_f(i) (sort (Seq Int): one integer per
    declaration) and whose every other attribute comes from document i ("origin i").  What LSPModel(**doc) itself does
    is the subject of the loading obligations, not of this contract.
  * Attributes of such objects are mutable cells holding sequences: list.extend / += append in place, + builds a new
    list, an assignment replaces the cell.  Two cells never alias (an assignment copies) — assumed.
  * P_f(k) = L_f(0) ++ ... ++ L_f(k)   (axioms P_f(0) = L_f(0), P_f(k) = P_f(k-1) ++ L_f(k) instantiated at the loop index).

Contract:   requires n >= 1
            ensures  result is the object loaded from document 0  and  result.f == P_f(n-1) for the five lists f
Loop rule for `for x in models[a:]` / `for i in range(a, b)`:  invariant Inv(i): acc.f == P_f(i-1) for all f, where acc is the
object loaded from document 0 that exists at loop entry;  obligations loop-init (Inv(a) on entry), loop-preserve
(Inv(i) and a <= i < hi, body, Inv(i+1)); after the loop either no iteration ran (hi <= a, state unchanged) or the state is
the one the peeled last iteration leaves when started in havoc + Inv(hi-1) (so values of variables assigned in the body survive).
"""
from __future__ import annotations

import ast
import os
from dataclasses import dataclass
from typing import Any, Dict, List, Optional, Tuple

from pyvc import smt, vc
from pyvc.loader import REPO, load_module, new_world
from pyvc.smt import And, Eq, FALSE, Implies, Not, Or, TRUE
from pyvc.symex import Ctx, FunctionInfo, Interp, PyRaise, Unsupported, V, VBool, VInt, VNone, World, force

REL = "generator/model.py"
FIELDS = ["requests", "notifications", "structures", "enumerations", "typeAliases"]
SEQ = "(Seq Int)"
STEP_END = "__loop_step_checked__"


@dataclass
class VDocList(V):
    kind = "doclist"


@dataclass
class VDoc(V):
    idx: str
    kind = "doc"


@dataclass
class VDocSlice(V):
    lo: str
    kind = "docslice"


@dataclass
class VRange(V):
    lo: str
    hi: str
    kind = "range"


@dataclass
class VModel(V):
    oid: int
    kind = "lspmodel"


@dataclass
class VListRef(V):
    oid: int
    field: str
    kind = "listref"


@dataclass
class VSeq(V):
    t: str
    kind = "seq"


@dataclass
class VBound(V):
    recv: Any
    name: str
    kind = "boundmethod"


def L(f: str, i: str) -> str:
    return f"(L_{f} {i})"


def P(f: str, i: str) -> str:
    return f"(P_{f} {i})"


class MergeInterp(Interp):
    N = "n_models"

    def __init__(self, world: World):
        super().__init__(world)
        for f in FIELDS:
            world.declare_global(f"(declare-fun L_{f} (Int) {SEQ})")
            world.declare_global(f"(declare-fun P_{f} (Int) {SEQ})")
            world.global_axioms.append(Eq(P(f, "0"), L(f, "0")))

    # ---- heap
    def heap(self, ctx: Ctx) -> Dict[Tuple[int, str], str]:
        return ctx.ghost.setdefault("heap", {})

    def origins(self, ctx: Ctx) -> Dict[int, str]:
        return ctx.ghost.setdefault("origin", {})

    def alloc(self, ctx: Ctx, idx: str) -> VModel:
        oid = len(self.origins(ctx))
        self.origins(ctx)[oid] = idx
        for f in FIELDS:
            self.heap(ctx)[(oid, f)] = L(f, idx)
        return VModel(oid)

    def seq_of(self, ctx: Ctx, v: V) -> Optional[str]:
        v = force(ctx, v)
        if isinstance(v, VListRef):
            return self.heap(ctx)[(v.oid, v.field)]
        if isinstance(v, VSeq):
            return v.t
        from pyvc.symex import VList

        if isinstance(v, VList) and not v.items:
            return f"(as seq.empty {SEQ})"
        return None

    def n(self, ctx: Ctx) -> str:
        return ctx.declare(self.N, "Int")

    # ---- expression hooks
    def getattr(self, ctx: Ctx, v: V, name: str) -> V:
        if isinstance(v, VModel):
            if name in FIELDS:
                return VListRef(v.oid, name)
            raise Unsupported(f"attribute {name} of a loaded model")
        if isinstance(v, (VListRef, VSeq)):
            if name in ("extend", "copy"):
                return VBound(v, name)
            raise Unsupported(f"list.{name}")
        return super().getattr(ctx, v, name)

    def call_hook(self, ctx: Ctx, e: ast.Call, env, fi):
        # LSPModel(**doc)
        if isinstance(e.func, ast.Name) and e.func.id == "LSPModel":
            if e.args or len(e.keywords) != 1 or e.keywords[0].arg is not None:
                raise Unsupported("LSPModel(...) not of the form LSPModel(**document)")
            d = force(ctx, self.eval(ctx, e.keywords[0].value, env, fi))
            if not isinstance(d, VDoc):
                raise Unsupported("LSPModel(**x): x is not one of the input documents")
            return self.alloc(ctx, d.idx)
        return None

    def call(self, ctx: Ctx, f: V, args: List[V], kwargs: Dict[str, V]) -> V:
        from pyvc.symex import VClass

        if isinstance(f, VClass) and f.name == "list" and len(args) == 1 and not kwargs:
            sq = self.seq_of(ctx, args[0])
            if sq is not None:
                return VSeq(sq)
        if isinstance(f, VBound):
            if kwargs:
                raise Unsupported("keyword arguments to a list method")
            if f.name == "extend" and len(args) == 1:
                add = self.seq_of(ctx, args[0])
                if add is None:
                    raise Unsupported("extend() with something that is not a declaration list")
                if isinstance(f.recv, VListRef):
                    key = (f.recv.oid, f.recv.field)
                    self.heap(ctx)[key] = f"(seq.++ {self.heap(ctx)[key]} {add})"
                    return VNone()
                raise Unsupported("extend() of a temporary list")
            if f.name == "copy" and not args:
                return VSeq(self.seq_of(ctx, f.recv))
            raise Unsupported(f"list.{f.name}")
        return super().call(ctx, f, args, kwargs)

    def builtin_hook(self, ctx: Ctx, name: str, args: List[V], kwargs):
        if name == "range" and not kwargs and 1 <= len(args) <= 2:
            vals = [force(ctx, a) for a in args]
            if all(isinstance(a, VInt) for a in vals):
                return VRange("0", vals[0].t) if len(vals) == 1 else VRange(vals[0].t, vals[1].t)
        if name == "list" and len(args) == 1:
            s = self.seq_of(ctx, args[0])
            if s is not None:
                return VSeq(s)
        if name == "getattr" and len(args) == 2 and not kwargs:
            nm = force(ctx, args[1])
            from pyvc.symex import VStr

            if isinstance(nm, VStr) and smt.is_str_lit(nm.t):
                return self.getattr(ctx, force(ctx, args[0]), smt.sexpr_to_py(nm.t))
        return None

    def truth(self, ctx: Ctx, v: V) -> bool:
        if isinstance(v, (VListRef, VSeq)):
            return ctx.branch(smt.Gt(f"(seq.len {self.seq_of(ctx, v)})", "0"))
        if isinstance(v, VModel):
            return True
        return super().truth(ctx, v)

    def len_hook(self, ctx: Ctx, v: V) -> V:
        if isinstance(v, VDocList):
            return VInt(self.n(ctx))
        s = self.seq_of(ctx, v)
        if s is not None:
            return VInt(f"(seq.len {s})")
        raise Unsupported(f"len of {v}")

    def subscript_hook(self, ctx: Ctx, base: V, idx: V):
        if isinstance(base, VDocList):
            if isinstance(idx, VInt):
                n = self.n(ctx)
                if not ctx.branch(And(smt.Le("0", idx.t), smt.Lt(idx.t, n))):
                    if ctx.branch(And(smt.Lt(idx.t, "0"), smt.Ge(idx.t, smt.Sub("0", n)))):
                        return VDoc(smt.Add(n, idx.t))
                    raise PyRaise("IndexError", [], "list index out of range")
                return VDoc(idx.t)
        return None

    def expr_hook(self, ctx: Ctx, e: ast.expr, env, fi):
        if isinstance(e, ast.Subscript) and isinstance(e.slice, ast.Slice):
            base = force(ctx, self.eval(ctx, e.value, env, fi))
            if isinstance(base, VDocList) and e.slice.upper is None and e.slice.step is None:
                lo = force(ctx, self.eval(ctx, e.slice.lower, env, fi)) if e.slice.lower is not None else VInt("0")
                if isinstance(lo, VInt) and smt.is_int_lit(lo.t) and smt.int_val(lo.t) >= 0:
                    return VDocSlice(lo.t)
            raise Unsupported("slice")
        return None

    def eval(self, ctx: Ctx, e: ast.expr, env, fi) -> V:
        # slices are not evaluated by the base interpreter (it evaluates e.slice as an expression first)
        if isinstance(e, ast.Subscript) and isinstance(e.slice, ast.Slice):
            return self.expr_hook(ctx, e, env, fi)
        return super().eval(ctx, e, env, fi)

    def binop(self, ctx: Ctx, op: ast.operator, a: V, b: V) -> V:
        if isinstance(op, ast.Add):
            sa, sb = self.seq_of(ctx, a), self.seq_of(ctx, b)
            if sa is not None and sb is not None:
                return VSeq(f"(seq.++ {sa} {sb})")
        return super().binop(ctx, op, a, b)

    # ---- statements
    def assign_hook(self, ctx: Ctx, target: ast.expr, v: V, env, fi) -> bool:
        if isinstance(target, ast.Attribute):
            obj = force(ctx, self.eval(ctx, target.value, env, fi))
            if isinstance(obj, VModel) and target.attr in FIELDS:
                s = self.seq_of(ctx, v)
                if s is None:
                    raise Unsupported("a declaration list is replaced by something that is not a list of declarations")
                self.heap(ctx)[(obj.oid, target.attr)] = s
                return True
            raise Unsupported(f"assignment to attribute {target.attr}")
        return False

    def augassign_hook(self, ctx: Ctx, s: ast.AugAssign, env, fi) -> bool:
        if isinstance(s.op, ast.Add):
            cur = None
            if isinstance(s.target, ast.Attribute):
                obj = force(ctx, self.eval(ctx, s.target.value, env, fi))
                if isinstance(obj, VModel) and s.target.attr in FIELDS:
                    cur = VListRef(obj.oid, s.target.attr)
            elif isinstance(s.target, ast.Name):
                c = force(ctx, self.lookup(ctx, s.target.id, env, fi))
                if isinstance(c, VListRef):
                    cur = c
            if cur is not None:
                add = self.seq_of(ctx, self.eval(ctx, s.value, env, fi))
                if add is None:
                    raise Unsupported("+= with something that is not a declaration list")
                key = (cur.oid, cur.field)
                self.heap(ctx)[key] = f"(seq.++ {self.heap(ctx)[key]} {add})"  # list.__iadd__ extends in place
                return True
        return False

    # ---- the loop rule
    def invariant(self, ctx: Ctx, acc: int, i: str) -> str:
        """Inv(i): the accumulator's lists are the concatenation of the lists of documents 0 .. i-1."""
        return And(*[Eq(self.heap(ctx)[(acc, f)], P(f, smt.Sub(i, "1"))) for f in FIELDS])

    def havoc(self, ctx: Ctx):
        for key in list(self.heap(ctx)):
            self.heap(ctx)[key] = ctx.fresh(f"h_{key[0]}_{key[1]}", SEQ)

    def for_hook(self, ctx: Ctx, s: ast.For, it: V, env, fi) -> bool:
        n = self.n(ctx)
        if isinstance(it, VDocSlice):
            lo, hi, elem = it.lo, n, (lambda i: VDoc(i))
        elif isinstance(it, VRange):
            lo, hi, elem = it.lo, it.hi, (lambda i: VInt(i))
        else:
            return False
        if s.orelse or any(isinstance(x, (ast.Break, ast.Continue)) for x in ast.walk(s)):
            raise Unsupported("loop with else / break / continue")
        if ctx.ghost.get("in_loop"):
            raise Unsupported("nested loop")
        accs = [oid for oid, org in self.origins(ctx).items() if org == "0"]
        if len(accs) != 1:
            # no (or no unique) object loaded from the first document exists: nothing the invariant could speak about
            ctx.side_obligations.append(("loop-init", And(*ctx.pc)))
            raise PyRaise(STEP_END, [], "no accumulator")
        acc = accs[0]
        ctx.side_obligations.append(("loop-init", And(*ctx.pc, Not(self.invariant(ctx, acc, lo)))))
        k = ctx.choose([TRUE, TRUE, TRUE])
        if k == 2:
            # no iteration at all: state and local variables unchanged
            ctx.assume(smt.Le(hi, lo))
            return True
        self.havoc(ctx)
        i = ctx.fresh("i", "Int")
        if k == 0:
            ctx.assume(And(smt.Le(lo, i), smt.Lt(i, hi)))  # an arbitrary iteration
        else:
            ctx.assume(And(smt.Lt(lo, hi), Eq(i, smt.Sub(hi, "1"))))  # the last iteration, peeled: its effects on local variables are kept
        ctx.assume(self.invariant(ctx, acc, i))
        for f in FIELDS:  # instance of the defining axiom of P at the loop index
            ctx.assume(Eq(P(f, i), f"(seq.++ {P(f, smt.Sub(i, '1'))} {L(f, i)})"))
        ctx.ghost["in_loop"] = True
        self.assign(ctx, s.target, elem(i), env, fi)
        self.exec_block(ctx, s.body, env, fi)
        ctx.ghost["in_loop"] = False
        if k == 0:
            ctx.side_obligations.append(("loop-preserve", And(*ctx.pc, Not(self.invariant(ctx, acc, smt.Add(i, "1"))))))
            raise PyRaise(STEP_END, [], "an arbitrary iteration was checked")
        # k == 1: continue after the loop in the state the last iteration leaves (the invariant is inductive by loop-preserve)
        return True


def build() -> Tuple[World, MergeInterp, Optional[FunctionInfo]]:
    world = new_world()
    interp = MergeInterp(world)
    load_module(world, interp, os.path.join(REPO, REL), "model", REL)
    for q, f in world.functions.items():
        # module-level helper functions of model.py are executed (inlined), not assumed
        if q.startswith(REL + "::") and "." not in q.split("::", 1)[1]:
            f.inline = True
    fi = world.functions.get(f"{REL}::create_lsp_model")
    return world, interp, fi


def report() -> Tuple[World, Optional[vc.FunctionReport]]:
    world, interp, fi = build()
    if fi is None:
        return world, None
    pname = fi.node.args.args[0].arg if fi.node.args.args else "models"

    def pre(ctx: Ctx, a) -> str:
        return smt.Ge(interp.n(ctx), "1")

    def post(ctx: Ctx, a, impl) -> str:
        if impl[0] == "raise":
            return TRUE if impl[1] == STEP_END else FALSE  # the function must not raise for n >= 1
        r = force(ctx, impl[1])
        if not isinstance(r, VModel):
            return FALSE
        if interp.origins(ctx).get(r.oid) != "0":
            return FALSE  # every attribute other than the five lists must come from the first document
        n = interp.n(ctx)
        return And(*[Eq(interp.heap(ctx)[(r.oid, f)], P(f, smt.Sub(n, "1"))) for f in FIELDS])

    rep = vc.generate_post(world, interp, fi, [(pname, lambda ctx, name: VDocList())], pre, post, f"{REL}::create_lsp_model")
    # name the loop obligations (generate_post files them under 'call-pre')
    for o in rep.obligations:
        if ":loop-init#" in o.name or ":loop-preserve#" in o.name:
            o.kind = "loop"
    return world, rep
