"""Lemmas for Position / Range / Location (C20).

Each lemma is a tiny Python program over the public operators.  It is executed symbolically through
CPython's operator dispatch (DESIGN 2.3 rule 4) into the *real* method bodies — those found in the live
class __dict__ (types.py for the hand-written ones, functools for the total_ordering helpers) — and its
result must equal the specification taken from the property statement.
"""
from __future__ import annotations

import ast
import inspect
import os
import textwrap
from typing import Any, Dict, List, Tuple

from pyvc import smt
from pyvc.smt import And, Eq, Gt, Lt, Not, Or, TRUE, FALSE
from pyvc.symex import (
    ClassInfo,
    Contract,
    Ctx,
    FieldSpec,
    FunctionInfo,
    Interp,
    SRaise,
    SReturn,
    VBool,
    VClass,
    VStr,
    VTuple,
    World,
    force,
)
from pyvc.loader import REPO, load_module, new_world

REL = "packages/python/lsprotocol/types.py"
DUNDERS = ["__eq__", "__ne__", "__lt__", "__le__", "__gt__", "__ge__", "__repr__", "__str__", "__bool__", "__len__", "__format__"]

FIELDS = {
    "Position": {"line": ["int"], "character": ["int"]},
    "Range": {"start": [("obj", "Position")], "end": [("obj", "Position")]},
    "Location": {"uri": ["str"], "range": [("obj", "Range")]},
}

UNRELATED = [
    "none",
    "bool",
    "int",
    "float",
    "str",
    "other",
    "list",
    "dict",
    "tuple",  # a tuple of a length not listed below (opaque)
    ("tuple_of", []),
    ("tuple_of", ["int"]),
    ("tuple_of", ["int", "int"]),  # the (line, character) look-alike
    ("tuple_of", ["int", "str"]),
    ("tuple_of", ["int", "int", "int"]),
]


def build_world(live) -> Tuple[World, Interp, Dict[str, Any]]:
    world = new_world()
    interp = Interp(world)
    for cname in FIELDS:
        world.class_id(cname)
    info: Dict[str, Any] = {"methods": {}, "problems": []}
    load_module(world, interp, os.path.join(REPO, REL), "types", REL)
    world.namespaces.setdefault("functools", {})
    # sibling modules of the package imported by types.py expose their plain constants (e.g. validators.UINTEGER_MAX_VALUE)
    import types as _types

    from pyvc.symex import VModule, const_value

    for name, obj in vars(live.types).items():
        if isinstance(obj, _types.ModuleType) and obj.__name__.startswith("lsprotocol.") and obj is not live.types:
            mns = {}
            for k, v in vars(obj).items():
                if not k.startswith("__") and (v is None or isinstance(v, (bool, int, float, str))):
                    mns[k] = const_value(v)
            short = obj.__name__.split(".")[-1]
            world.namespaces[f"pkg.{short}"] = mns
            world.namespaces["types"][name] = VModule(f"pkg.{short}")
    for cname, fields in FIELDS.items():
        cls = getattr(live.types, cname, None)
        if cls is None:
            info["problems"].append(f"class {cname} missing")
            continue
        methods: Dict[str, str] = {}
        # the dunders the lemmas exercise, plus every other plain function of the class (helpers the dunders may call)
        extra = [n for k in cls.__mro__ if k is not object for n, v in k.__dict__.items() if inspect.isfunction(v) and n not in DUNDERS and not (n.startswith("__") and n.endswith("__"))]
        for d in DUNDERS + sorted(set(extra)):
            # first definition along the MRO, excluding object
            fn = None
            for k in cls.__mro__:
                if k is object:
                    break
                if d in k.__dict__:
                    fn = k.__dict__[d]
                    break
            if fn is None:
                continue
            if not inspect.isfunction(fn):
                info["problems"].append(f"{cname}.{d} is a {type(fn).__name__}, not a function")
                continue
            fname = fn.__code__.co_filename
            if os.path.abspath(fname) == os.path.join(REPO, REL):
                q = f"{REL}::{fn.__qualname__}"
                if q not in world.functions:
                    info["problems"].append(f"{q} not found in source")
                    continue
                world.functions[q].inline = True
                origin = "types.py"
            else:
                try:
                    src = textwrap.dedent(inspect.getsource(fn))
                    node = ast.parse(src).body[0]
                except Exception as e:  # noqa
                    info["problems"].append(f"{cname}.{d}: source unavailable ({fname}): {e}")
                    continue
                modname = getattr(fn, "__module__", "?")
                q = f"<{modname}>::{fn.__qualname__}"
                world.functions[q] = FunctionInfo(q, node, None, fname, "functools" if modname == "functools" else "types", inline=True)
                origin = modname
            methods[d] = q
            info["methods"][f"{cname}.{d}"] = f"{q} ({origin})"
        # properties (also functools.cached_property): the getter is evaluated on every read - the value a stateless reading gives; a cache that
        # goes stale after a mutation is the subject of the native mutation probe of C20
        props: Dict[str, str] = {}
        for k in cls.__mro__:
            if k is object:
                break
            for n, v in k.__dict__.items():
                getter = v.fget if isinstance(v, property) else getattr(v, "func", None) if type(v).__name__ == "cached_property" else None
                if getter is None or n in props or not inspect.isfunction(getter):
                    continue
                if os.path.abspath(getter.__code__.co_filename) == os.path.join(REPO, REL):
                    q = f"{REL}::{getter.__qualname__}"
                    if q in world.functions:
                        world.functions[q].inline = True
                        props[n] = q
                        info["methods"][f"{cname}.{n} (property)"] = q
        # attrs rewrites a cached_property of a slotted class into a slot plus a generated __getattr__: look at the class body in the source too
        for q, fi_ in world.functions.items():
            if q.startswith(f"{REL}::{cname}.") and q.count(".") == q[: len(REL)].count(".") + 1 and isinstance(fi_.node, ast.FunctionDef):
                decos = [ast.unparse(d).split(".")[-1] for d in fi_.node.decorator_list]
                if any(d in ("property", "cached_property") for d in decos) and fi_.node.name not in props:
                    fi_.inline = True
                    props[fi_.node.name] = q
                    info["methods"][f"{cname}.{fi_.node.name} (property, from the class body)"] = q
        world.classes[cname] = ClassInfo(cname, {k: FieldSpec(v) for k, v in fields.items()}, methods, properties=props)
        # attribute set of the live class must match the schema the lemmas assume
        have = [a.name for a in live.attrs.fields(cls)] if live.attrs.has(cls) else []
        if have != list(fields):
            info["problems"].append(f"{cname} fields {have} != {list(fields)}")
    return world, interp, info


# ----------------------------------------------------------------------------- lemma sources

LEMMA_SRC = '''
def pos_eq(a, b): return a == b
def pos_ne(a, b): return a != b
def pos_lt(a, b): return a < b
def pos_le(a, b): return a <= b
def pos_gt(a, b): return a > b
def pos_ge(a, b): return a >= b
def pos_repr(a): return repr(a)
def pos_str(a): return f"{a}"
def eq_unrelated(a, x): return a == x
def eq_unrelated_r(a, x): return x == a
def ne_unrelated(a, x): return a != x
def lt_unrelated(a, x): return a < x
def le_unrelated(a, x): return a <= x
def gt_unrelated(a, x): return a > x
def ge_unrelated(a, x): return a >= x
def lt_unrelated_r(a, x): return x < a
def le_unrelated_r(a, x): return x <= a
def gt_unrelated_r(a, x): return x > a
def ge_unrelated_r(a, x): return x >= a
def obj_eq(a, b): return a == b
def obj_ne(a, b): return a != b
def obj_repr(a): return repr(a)
'''


def lemma_functions(world: World) -> Dict[str, FunctionInfo]:
    tree = ast.parse(LEMMA_SRC)
    out = {}
    for node in tree.body:
        q = f"lemma::{node.name}"
        fi = FunctionInfo(q, node, None, "contracts/position.py", "types")
        world.functions[q] = fi
        out[node.name] = fi
    return out


def _ints(interp: Interp, ctx: Ctx, p) -> Tuple[str, str]:
    return force(ctx, interp.getattr(ctx, p, "line")).t, force(ctx, interp.getattr(ctx, p, "character")).t


def pos_eq_t(interp, ctx, a, b) -> str:
    al, ac = _ints(interp, ctx, a)
    bl, bc = _ints(interp, ctx, b)
    return And(Eq(al, bl), Eq(ac, bc))


def pos_lt_t(interp, ctx, a, b) -> str:
    al, ac = _ints(interp, ctx, a)
    bl, bc = _ints(interp, ctx, b)
    return Or(Lt(al, bl), And(Eq(al, bl), Lt(ac, bc)))


def range_eq_t(interp, ctx, a, b) -> str:
    return And(
        pos_eq_t(interp, ctx, interp.getattr(ctx, a, "start"), interp.getattr(ctx, b, "start")),
        pos_eq_t(interp, ctx, interp.getattr(ctx, a, "end"), interp.getattr(ctx, b, "end")),
    )


def loc_eq_t(interp, ctx, a, b) -> str:
    return And(
        Eq(force(ctx, interp.getattr(ctx, a, "uri")).t, force(ctx, interp.getattr(ctx, b, "uri")).t),
        range_eq_t(interp, ctx, interp.getattr(ctx, a, "range"), interp.getattr(ctx, b, "range")),
    )


def pos_repr_t(interp, ctx, a) -> str:
    al, ac = _ints(interp, ctx, a)
    return smt.Concat(interp.format_value(ctx, force(ctx, interp.getattr(ctx, a, "line"))), '":"', interp.format_value(ctx, force(ctx, interp.getattr(ctx, a, "character"))))


def range_repr_t(interp, ctx, a) -> str:
    return smt.Concat(pos_repr_t(interp, ctx, interp.getattr(ctx, a, "start")), '"-"', pos_repr_t(interp, ctx, interp.getattr(ctx, a, "end")))


def loc_repr_t(interp, ctx, a) -> str:
    return smt.Concat(force(ctx, interp.getattr(ctx, a, "uri")).t, '":"', range_repr_t(interp, ctx, interp.getattr(ctx, a, "range")))


EQ_T = {"Position": pos_eq_t, "Range": range_eq_t, "Location": loc_eq_t}
REPR_T = {"Position": pos_repr_t, "Range": range_repr_t, "Location": loc_repr_t}


def lemmas(interp: Interp) -> List[Tuple[str, str, Contract]]:
    """(lemma id, lemma function name, contract)"""
    out: List[Tuple[str, str, Contract]] = []
    P = [("obj", "Position")]

    def ret_bool(f):
        return lambda ctx, a: SReturn(VBool(f(ctx, a)))

    pre = lambda ctx, a: TRUE  # noqa
    out.append(("Position:==", "pos_eq", Contract("pos_eq", [("a", P), ("b", P)], pre, ret_bool(lambda c, a: pos_eq_t(interp, c, a["a"], a["b"])), "a == b  <=>  (line,character) pairs equal")))
    out.append(("Position:!=", "pos_ne", Contract("pos_ne", [("a", P), ("b", P)], pre, ret_bool(lambda c, a: Not(pos_eq_t(interp, c, a["a"], a["b"]))), "a != b  <=>  pairs differ")))
    out.append(("Position:<", "pos_lt", Contract("pos_lt", [("a", P), ("b", P)], pre, ret_bool(lambda c, a: pos_lt_t(interp, c, a["a"], a["b"])), "a < b  <=>  pair(a) < pair(b) lexicographically")))
    out.append(("Position:<=", "pos_le", Contract("pos_le", [("a", P), ("b", P)], pre, ret_bool(lambda c, a: Not(pos_lt_t(interp, c, a["b"], a["a"]))), "a <= b  <=>  not pair(b) < pair(a)")))
    out.append(("Position:>", "pos_gt", Contract("pos_gt", [("a", P), ("b", P)], pre, ret_bool(lambda c, a: pos_lt_t(interp, c, a["b"], a["a"])), "a > b  <=>  pair(b) < pair(a)")))
    out.append(("Position:>=", "pos_ge", Contract("pos_ge", [("a", P), ("b", P)], pre, ret_bool(lambda c, a: Not(pos_lt_t(interp, c, a["a"], a["b"]))), "a >= b  <=>  not pair(a) < pair(b)")))
    for cname in ("Position", "Range", "Location"):
        C = [("obj", cname)]
        others = [("obj", o) for o in FIELDS if o != cname]
        X = UNRELATED + others
        if cname != "Position":
            out.append((f"{cname}:==", "obj_eq", Contract("obj_eq", [("a", C), ("b", C)], pre, ret_bool(lambda c, a, cname=cname: EQ_T[cname](interp, c, a["a"], a["b"])), "== is component equality")))
            out.append((f"{cname}:!=", "obj_ne", Contract("obj_ne", [("a", C), ("b", C)], pre, ret_bool(lambda c, a, cname=cname: Not(EQ_T[cname](interp, c, a["a"], a["b"]))), "!= is its negation")))
        out.append((f"{cname}:repr", "obj_repr" if cname != "Position" else "pos_repr", Contract("repr", [("a", C)], pre, (lambda c, a, cname=cname: SReturn(VStr(REPR_T[cname](interp, c, a["a"])))), "repr format of the statement")))
        out.append((f"{cname}:==unrelated", "eq_unrelated", Contract("eq_unrelated", [("a", C), ("x", X)], pre, ret_bool(lambda c, a: FALSE), "== with an unrelated object is False")))
        out.append((f"{cname}:unrelated==", "eq_unrelated_r", Contract("eq_unrelated_r", [("a", C), ("x", X)], pre, ret_bool(lambda c, a: FALSE), "reflected == with an unrelated object is False")))
        out.append((f"{cname}:!=unrelated", "ne_unrelated", Contract("ne_unrelated", [("a", C), ("x", X)], pre, ret_bool(lambda c, a: TRUE), "!= with an unrelated object is True")))
        for op in ("lt", "le", "gt", "ge"):
            for r in ("", "_r"):
                # ordering with an unrelated object raises TypeError; for Range/Location also with their own kind
                XX = X
                out.append((f"{cname}:{op}{r}:unrelated", f"{op}_unrelated{r}", Contract(f"{op}_unrelated{r}", [("a", C), ("x", XX)], pre, (lambda c, a: SRaise("TypeError", None)), "ordering with an unrelated object raises TypeError")))
    return out
