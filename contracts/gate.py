"""The schema gate of generator/__main__.py::main under contract (C18): "a model file that violates the metamodel schema makes the
generator command fail before any plugin runs, with nothing written", and every model file reaches create_lsp_model, in order.

main() (and the module-level helpers it calls, inlined) is executed symbolically over an abstract command line:
  * `--model` gives n >= 1 model files (or none: the packaged lsp.json, n = 1); file i is loaded by json.load(file_i.open(..)) into
    the opaque document i; valid(i) is an uninterpreted Boolean ("document i is valid for the schema main() validates against").
  * jsonschema.validate(document i, schema) — or <validator object built from jsonschema>.validate(document i) — returns iff valid(i),
    else raises ValidationError; <validator>.is_valid(document i) == valid(i) (assumed contract of the dependency).
  * Python lists that collect documents are mutable cells holding a sequence of document indices (sort (Seq Int)).
  * EVENTS: a call of <anything>.generate(...), of create_lsp_model's consumer side effects (write_text, mkdir, ... ) — each event
    generates the obligation  pc  =>  allvalid(n)  (every model file has been validated on this path) and, for generate / create_lsp_model,
    that the list handed to create_lsp_model is exactly documents 0..n-1 in order.
  * every other external call must be on the list of pure helpers below, otherwise the function leaves the subset (no verdict from here).

Loops over the model files use the Hoare rule; the invariant is found by Houdini from the candidates
  { cell == IOTA(k), cell unchanged : cells alive at loop entry }  U  { allvalid(k) }
(a candidate whose loop-init or loop-preserve obligation fails is dropped and the analysis is repeated); what survives is assumed at exit
(last iteration peeled, so stale loop variables keep their last value).  allvalid and IOTA are uninterpreted with their defining equations
instantiated at the loop indices and at 0..3.
"""
from __future__ import annotations

import ast
import os
from dataclasses import dataclass
from typing import Any, Dict, List, Optional, Set, Tuple

from pyvc import smt, vc
from pyvc.loader import REPO, load_module, new_world
from pyvc.smt import And, Eq, FALSE, Implies, Not, Or, TRUE
from pyvc.symex import Ctx, FunctionInfo, Interp, PyRaise, Unsupported, V, VBool, VExc, VExcClass, VFunc, VInt, VList, VNone, VOpaque, VStr, VTuple, World, force, explore

REL = "generator/__main__.py"
SEQ = "(Seq Int)"
N = "n_files"
STEP_END = "__loop_step_checked__"

PURE_PREFIXES = (
    "LOGGER.", "logging.", "os.fspath", "os.path.", "os.environ", "pathlib.", "ir.files", "importlib_resources.", "importlib.", "argparse.",
    "sys.argv", "str", "len", "list", "sorted", "isinstance", "print", "time.", "json.loads", "json.dumps", "typing.",
)
WRITERS = ("write_text", "write_bytes", "mkdir", "makedirs", "unlink", "rmtree", "remove", "rename", "replace", "touch", "dump", "copy", "copytree", "move")


@dataclass
class VFiles(V):
    kind = "files"


@dataclass
class VFile(V):
    idx: str
    kind = "file"


@dataclass
class VHandle(V):
    what: str  # 'schema' | document index term
    kind = "handle"


@dataclass
class VDoc(V):
    idx: str
    kind = "doc"


@dataclass
class VCell(V):
    cid: int
    kind = "cell"


@dataclass
class VSpec(V):
    seq: str
    kind = "spec"


@dataclass
class VMeth(V):
    recv: Any
    name: str
    kind = "meth"


def IOTA(k: str) -> str:
    return f"(IOTA {k})"


def ALLVALID(k: str) -> str:
    return f"(allvalid {k})"


def VALID(i: str) -> str:
    return f"(valid_doc {i})"


def unit(i: str) -> str:
    return f"(seq.unit {i})"


def instance(k: str) -> List[str]:
    """Defining equations of IOTA / allvalid at index k -> k+1."""
    k1 = smt.Add(k, "1")
    return [Eq(IOTA(k1), f"(seq.++ {IOTA(k)} {unit(k)})"), Eq(ALLVALID(k1), And(ALLVALID(k), VALID(k)))]


class GateInterp(Interp):
    def __init__(self, world: World):
        super().__init__(world)
        world.declare_global(f"(declare-fun IOTA (Int) {SEQ})")
        world.declare_global("(declare-fun allvalid (Int) Bool)")
        world.declare_global("(declare-fun valid_doc (Int) Bool)")
        world.global_axioms.append(Eq(IOTA("0"), f"(as seq.empty {SEQ})"))
        world.global_axioms.append(ALLVALID("0"))
        for k in range(4):
            world.global_axioms.extend(instance(str(k)))
        self.dropped: Set[Tuple[int, str]] = set()
        self.events_seen: List[str] = []
        self.loops_seen: Dict[int, List[str]] = {}

    # ---- state
    def n(self, ctx: Ctx) -> str:
        return ctx.declare(N, "Int")

    def heap(self, ctx: Ctx) -> Dict[int, str]:
        return ctx.ghost.setdefault("cells", {})

    def new_cell(self, ctx: Ctx, init: str) -> VCell:
        h = self.heap(ctx)
        cid = len(h)
        h[cid] = init
        return VCell(cid)

    def mutate_doc(self, ctx: Ctx, d: "VDoc"):
        """In-place modification of a loaded document: from now on it stands for a different document (index -1 - i), whose validity says
        nothing about the validity of model file i."""
        d.idx = f"(- (- 1) {d.idx})" if not d.idx.startswith("(- (- 1)") else d.idx
        ctx.ghost["doc_mutated"] = True

    def event(self, ctx: Ctx, what: str, seq: Optional[str] = None):
        n = self.n(ctx)
        if what not in self.events_seen:
            self.events_seen.append(what)
        ctx.side_obligations.append((f"gate:{what}:validated", And(*ctx.pc, Not(ALLVALID(n)))))
        if seq is not None:
            ctx.side_obligations.append((f"gate:{what}:all-files-in-order", And(*ctx.pc, Not(Eq(seq, IOTA(n))))))

    # ---- names and attributes
    def lookup(self, ctx: Ctx, name: str, env, fi) -> V:
        try:
            return super().lookup(ctx, name, env, fi)
        except Unsupported:
            return VOpaque(name)

    def dotted(self, v: V) -> Optional[str]:
        from pyvc.symex import VExternal, VModule

        if isinstance(v, VOpaque):
            return v.name
        if isinstance(v, VExternal):
            return v.dotted
        if isinstance(v, VModule):
            return v.name
        return None

    def getattr(self, ctx: Ctx, v: V, name: str) -> V:
        from pyvc.symex import VExternal, VModule

        if isinstance(v, (VOpaque, VExternal, VModule)):
            d = self.dotted(v)
            if name == "model" and "parse" in d:
                return VFiles()  # the --model option of the command line
            return VOpaque(f"{d}.{name}")
        if isinstance(v, (VFile, VCell, VFiles, VHandle, VDoc, VSpec)):
            return VMeth(v, name)
        if isinstance(v, VStr):
            return VMeth(v, name)
        return super().getattr(ctx, v, name)

    # ---- values
    def truth(self, ctx: Ctx, v: V) -> bool:
        if isinstance(v, VFiles):
            return ctx.branch(ctx.declare("model_option_given", "Bool"))
        if isinstance(v, VOpaque):
            return ctx.branch(ctx.declare("truth_" + "".join(c if c.isalnum() else "_" for c in v.name)[:80], "Bool"))
        if isinstance(v, (VFile, VDoc, VSpec, VHandle)):
            return True
        if isinstance(v, VCell):
            return ctx.branch(smt.Gt(f"(seq.len {self.heap(ctx)[v.cid]})", "0"))
        return super().truth(ctx, v)

    def format_value(self, ctx: Ctx, v: V, conv: int = -1) -> str:
        if isinstance(v, (VOpaque, VFile, VFiles, VDoc, VSpec, VCell, VHandle, VExc)):
            return ctx.fresh("fmt", "String")
        return super().format_value(ctx, v, conv)

    def len_hook(self, ctx: Ctx, v: V) -> V:
        if isinstance(v, VFiles):
            return VInt(self.n(ctx))
        if isinstance(v, VCell):
            return VInt(f"(seq.len {self.heap(ctx)[v.cid]})")
        if isinstance(v, VOpaque):
            k = ctx.fresh("len", "Int")
            ctx.assume(smt.Ge(k, "0"))
            return VInt(k)
        raise Unsupported(f"len of {v}")

    def binop(self, ctx: Ctx, op: ast.operator, a: V, b: V) -> V:
        a, b = force(ctx, a), force(ctx, b)
        if isinstance(a, VOpaque) or isinstance(b, VOpaque):
            if isinstance(op, ast.Div) and isinstance(b, VStr) and smt.is_str_lit(b.t):
                lit = smt.sexpr_to_py(b.t)
                if lit.endswith("schema.json"):
                    return VOpaque("<schema path>")
                if lit.endswith(".json"):
                    ctx.assume(Eq(self.n(ctx), "1"))  # the packaged model: the file set is this one file
                    return VFile("0")
            return VOpaque(f"({self.dotted(a) or a.kind} {type(op).__name__} {self.dotted(b) or b.kind})")
        return super().binop(ctx, op, a, b)

    def _rich(self, ctx: Ctx, a: V, b: V, dunder: str):
        if isinstance(a, VOpaque) or isinstance(b, VOpaque):
            return VBool(ctx.fresh("cmp", "Bool"))
        return super()._rich(ctx, a, b, dunder)

    def op_is(self, ctx: Ctx, a: V, b: V) -> str:
        if isinstance(a, (VOpaque, VFiles)) or isinstance(b, (VOpaque, VFiles)):
            o = b if isinstance(a, (VOpaque, VFiles)) else a
            x = a if isinstance(a, (VOpaque, VFiles)) else b
            if isinstance(x, VFiles) and isinstance(force(ctx, o), VNone):
                return Not(ctx.declare("model_option_given", "Bool"))
            return ctx.fresh("is", "Bool")
        return super().op_is(ctx, a, b)

    def subscript_hook(self, ctx: Ctx, base: V, idx: V):
        if isinstance(base, VDoc):
            return VOpaque("<part of a document>")
        if isinstance(base, VOpaque):
            return VOpaque(f"{base.name}[]")
        if isinstance(base, VFiles) and isinstance(idx, VInt):
            n = self.n(ctx)
            if not ctx.branch(And(smt.Le("0", idx.t), smt.Lt(idx.t, n))):
                raise PyRaise("IndexError", [], "list index out of range")
            return VFile(idx.t)
        return None

    # ---- expressions
    def eval(self, ctx: Ctx, e: ast.expr, env, fi) -> V:
        if isinstance(e, ast.List) and not e.elts:
            return self.new_cell(ctx, f"(as seq.empty {SEQ})")
        if isinstance(e, ast.Dict):
            return VOpaque("<dict display " + ", ".join("**" + ast.unparse(v) if k is None else ast.unparse(k) for k, v in zip(e.keys, e.values))[:80] + ">")
        return super().eval(ctx, e, env, fi)

    def expr_hook(self, ctx: Ctx, e: ast.expr, env, fi):
        if isinstance(e, ast.ListComp):
            if len(e.generators) != 1 or e.generators[0].ifs or e.generators[0].is_async:
                raise Unsupported("comprehension shape")
            g = e.generators[0]
            it = force(ctx, self.eval(ctx, g.iter, env, fi))
            if isinstance(it, VFiles):
                # one pass over the model files that collects one value per file: either the file itself (an element-wise image such as
                # [pathlib.Path(m) for m in args.model]: still "the model files") or the document loaded from it (a cell of documents)
                cell = self.new_cell(ctx, f"(as seq.empty {SEQ})")
                kinds = set()

                def body(i: str):
                    env3 = dict(env)
                    self.assign(ctx, g.target, VFile(i), env3, fi)
                    v = force(ctx, self.eval(ctx, e.elt, env3, fi))
                    if isinstance(v, VFile) and v.idx == i:
                        kinds.add("file")
                        self.heap(ctx)[cell.cid] = f"(seq.++ {self.heap(ctx)[cell.cid]} {unit(i)})"
                    elif isinstance(v, VDoc):
                        kinds.add("doc")
                        self.heap(ctx)[cell.cid] = f"(seq.++ {self.heap(ctx)[cell.cid]} {unit(v.idx)})"
                    else:
                        raise Unsupported("comprehension over the model files that collects something other than the files or the loaded documents")

                self.files_loop(ctx, e.lineno * 1000 + e.col_offset, body)
                if kinds == {"file"}:
                    del self.heap(ctx)[cell.cid]
                    return VFiles()
                return cell
            if isinstance(it, (VList, VTuple)):
                out = []
                for item in it.items:
                    env2 = dict(env)
                    self.assign(ctx, g.target, item, env2, fi)
                    out.append(self.eval(ctx, e.elt, env2, fi))
                return VList(out)
            raise Unsupported("comprehension over an opaque iterable")
        if isinstance(e, ast.GeneratorExp):
            raise Unsupported("generator expression")
        return None

    # ---- calls
    def call_hook(self, ctx: Ctx, e: ast.Call, env, fi):
        return None

    def call(self, ctx: Ctx, f: V, args: List[V], kwargs: Dict[str, V]) -> V:
        f = force(ctx, f)
        args = [force(ctx, a) for a in args]
        if isinstance(f, VMeth):
            r, name = f.recv, f.name
            if isinstance(r, VFile):
                if name == "open":
                    mode = args[0] if args else kwargs.get("mode")
                    if isinstance(mode, VStr) and smt.is_str_lit(mode.t) and any(c in smt.sexpr_to_py(mode.t) for c in "wax+"):
                        self.event(ctx, "write")
                    return VHandle(r.idx)
                if name in ("resolve", "absolute", "expanduser"):
                    return r
                if name in WRITERS:
                    self.event(ctx, "write")
                    return VNone()
                return VOpaque(f"<model file>.{name}()")
            if isinstance(r, VCell):
                if name == "append" and len(args) == 1:
                    if not isinstance(args[0], VDoc):
                        raise Unsupported("a list that collects something other than loaded documents")
                    self.heap(ctx)[r.cid] = f"(seq.++ {self.heap(ctx)[r.cid]} {unit(args[0].idx)})"
                    return VNone()
                if name == "extend" and len(args) == 1 and isinstance(args[0], VCell):
                    self.heap(ctx)[r.cid] = f"(seq.++ {self.heap(ctx)[r.cid]} {self.heap(ctx)[args[0].cid]})"
                    return VNone()
                raise Unsupported(f"list.{name}")
            if isinstance(r, VDoc):
                if name in ("pop", "update", "setdefault", "clear", "popitem", "__setitem__", "__delitem__"):
                    # the document is modified in place: what is validated afterwards is no longer the content of the model file
                    self.mutate_doc(ctx, r)
                    return VOpaque(f"<document>.{name}()")
                if name in ("get", "keys", "items", "values", "copy", "__contains__"):
                    return VOpaque(f"<document>.{name}()")
            if isinstance(r, VHandle) and name in ("close", "read", "__enter__"):
                return VOpaque("<file content>") if name == "read" else r
            if isinstance(r, VStr):
                return VOpaque(f"str.{name}()")
            raise Unsupported(f"method {name} of {r.kind}")
        d = self.dotted(f)
        if d is not None:
            last = d.split(".")[-1]
            js = "jsonschema" in d or "validator" in d.lower()
            if js and last == "is_valid" and args and isinstance(args[0], VDoc):
                return VBool(VALID(args[0].idx))
            if d.endswith("jsonschema.validate") or d in ("validate", "jsonschema.validators.validate") or (js and last == "validate"):
                doc = args[0] if args else kwargs.get("instance")
                if not isinstance(doc, VDoc):
                    raise Unsupported("jsonschema.validate of something that is not a loaded model document")
                if not ctx.branch(VALID(doc.idx)):
                    raise PyRaise("ValidationError", [], f"document {doc.idx} is not valid")
                return VNone()
            if d in ("json.load",):
                h = args[0] if args else None
                if isinstance(h, VHandle):
                    return VOpaque("<schema>") if h.what == "schema" else VDoc(h.what)
                return VOpaque("json.load()")
            if d.endswith("create_lsp_model"):
                a0 = args[0] if args else None
                if isinstance(a0, VCell):
                    return VSpec(self.heap(ctx)[a0.cid])
                if isinstance(a0, VList) and all(isinstance(x, VDoc) for x in a0.items):
                    sq = f"(as seq.empty {SEQ})"
                    for x in a0.items:
                        sq = f"(seq.++ {sq} {unit(x.idx)})"
                    return VSpec(sq)
                raise Unsupported("create_lsp_model of something that is not a list of loaded documents")
            if last == "generate":
                spec = next((a for a in list(args) + list(kwargs.values()) if isinstance(a, VSpec)), None)
                self.event(ctx, "plugin-run", spec.seq if spec is not None else None)
                if spec is None:
                    ctx.side_obligations.append(("gate:plugin-run:model-argument", And(*ctx.pc)))  # a plugin run that is not given the merged model
                return VNone()
            if last in WRITERS or (last == "open" and any(isinstance(a, VStr) and smt.is_str_lit(a.t) and any(c in smt.sexpr_to_py(a.t) for c in "wax+") for a in args[1:2] + list(kwargs.values()))):
                self.event(ctx, "write")
                return VOpaque(d + "()")
            if last == "open" and isinstance(f, VOpaque):
                return VHandle("schema") if "schema" in d else VOpaque(d + "()")
            if d == "pathlib.Path" and len(args) == 1 and isinstance(args[0], VFile):
                return args[0]
            if js and last in ("validator_for", "check_schema", "Draft7Validator", "Draft4Validator", "Draft6Validator", "Draft201909Validator", "Draft202012Validator", "evolve", "extend") or (js and d.endswith("()")):
                # building a validator object from the schema: pure (validator classes / instances are opaque values whose .validate is the gate)
                return VOpaque(d + "()")
            if d.startswith(PURE_PREFIXES) or (isinstance(f, VOpaque) and ("parse" in d or "parser" in d.lower() or d.startswith("args.") or "LOGGER" in d or "plugin" in d.lower() and last in ("import_module",))):
                if any(isinstance(a, VCell) for a in args):
                    raise Unsupported(f"a document list escapes into {d}")
                return VOpaque(d + "()")
            raise Unsupported(f"call of {d} (not on the list of pure helpers)")
        return super().call(ctx, f, args, kwargs)

    def builtin_hook(self, ctx: Ctx, name: str, args: List[V], kwargs):
        if name in ("print", "sorted", "getattr", "range", "enumerate", "zip", "map", "filter", "min", "max"):
            if any(isinstance(force(ctx, a), (VCell, VFiles)) for a in args):
                raise Unsupported(f"{name}() over the model files / documents")
            return VOpaque(f"{name}()")
        return None

    # ---- statements
    def stmt_hook(self, ctx: Ctx, s: ast.stmt, env, fi) -> bool:
        if isinstance(s, ast.Try):
            try:
                self.exec_block(ctx, s.body, env, fi)
            except PyRaise as ex:
                if ex.exc == STEP_END:
                    raise
                for h in s.handlers:
                    names = []
                    if h.type is not None:
                        for t in h.type.elts if isinstance(h.type, ast.Tuple) else [h.type]:
                            names.append(ast.unparse(t).split(".")[-1])
                    catches = h.type is None or any(nm in ("Exception", "BaseException", ex.exc) or (nm == "ValidationError" and ex.exc == "ValidationError") for nm in names)
                    if catches:
                        if h.name:
                            env[h.name] = VExc(ex.exc, list(ex.args_v))
                        try:
                            self.exec_block(ctx, h.body, env, fi)
                        finally:
                            pass
                        break
                else:
                    self.exec_block(ctx, s.finalbody, env, fi)
                    raise
            else:
                self.exec_block(ctx, s.orelse, env, fi)
            self.exec_block(ctx, s.finalbody, env, fi)
            return True
        if isinstance(s, ast.With):
            for item in s.items:
                v = self.eval(ctx, item.context_expr, env, fi)
                if item.optional_vars is not None:
                    self.assign(ctx, item.optional_vars, v, env, fi)
            self.exec_block(ctx, s.body, env, fi)
            return True
        if isinstance(s, ast.Delete):
            for t in s.targets:
                if isinstance(t, ast.Subscript):
                    base = force(ctx, self.eval(ctx, t.value, env, fi))
                    if isinstance(base, VDoc):
                        self.mutate_doc(ctx, base)
                        continue
                raise Unsupported("del statement")
            return True
        if isinstance(s, (ast.Import, ast.ImportFrom)):
            for al in s.names:
                env[al.asname or al.name.split(".")[0]] = VOpaque(al.name)
            return True
        return False

    def assign_hook(self, ctx: Ctx, target: ast.expr, v: V, env, fi) -> bool:
        if isinstance(target, (ast.Attribute, ast.Subscript)):
            base = force(ctx, self.eval(ctx, target.value, env, fi))
            if isinstance(base, VDoc):
                self.mutate_doc(ctx, base)
                return True
            if isinstance(base, VOpaque):
                return True  # a store into an opaque object (e.g. args.x = ...): no effect on the modelled state
        return False

    # ---- loops
    def candidates(self, ctx: Ctx, loop_id: int) -> List[Tuple[str, Any]]:
        out: List[Tuple[str, Any]] = [("allvalid", None)]
        for cid, term in self.heap(ctx).items():
            out.append((f"iota:{cid}", cid))
            out.append((f"same:{cid}", (cid, term)))
        return [c for c in out if (loop_id, c[0]) not in self.dropped]

    def cand_term(self, ctx: Ctx, cand: Tuple[str, Any], k: str, entry: Dict[int, str]) -> str:
        name, arg = cand
        if name == "allvalid":
            return ALLVALID(k)
        if name.startswith("iota:"):
            return Eq(self.heap(ctx)[arg], IOTA(k))
        cid, _ = arg
        return Eq(self.heap(ctx)[cid], entry[cid])

    def for_hook(self, ctx: Ctx, s: ast.For, it: V, env, fi) -> bool:
        if isinstance(it, VOpaque):
            # a loop over something that is not the model files (e.g. the plugin list): the body may not touch the document cells;
            # it is executed once for an arbitrary element (its events are checked), zero iterations being the other continuation
            before = dict(self.heap(ctx))
            if ctx.branch(ctx.fresh("loop_entered", "Bool")):
                self.assign(ctx, s.target, VOpaque(f"<element of {it.name}>"), env, fi)
                self.exec_block(ctx, s.body, env, fi)
                if self.heap(ctx) != before:
                    raise Unsupported("a loop over an opaque iterable changes a document list")
            return True
        if not isinstance(it, VFiles):
            return False
        if s.orelse:
            raise Unsupported("for-else")

        def body(i: str):
            self.assign(ctx, s.target, VFile(i), env, fi)
            self.exec_block(ctx, s.body, env, fi)

        self.files_loop(ctx, s.lineno, body)
        return True

    def files_loop(self, ctx: Ctx, loop_id: int, body) -> None:
        """Hoare rule for one pass over the n model files (a for statement or a comprehension): candidates' loop-init / loop-preserve
        obligations, then either an arbitrary iteration (path ends) or the state the peeled last iteration leaves."""
        if ctx.ghost.get("in_loop"):
            raise Unsupported("nested loop over the model files")
        n = self.n(ctx)
        entry = dict(self.heap(ctx))
        cands = self.candidates(ctx, loop_id)
        self.loops_seen[loop_id] = [c[0] for c in cands]
        for c in cands:
            ctx.side_obligations.append((f"loop-init:{loop_id}:{c[0]}", And(*ctx.pc, Not(self.cand_term(ctx, c, "0", entry)))))
        # n >= 1 is the precondition of the whole analysis: the loop body runs at least once
        k = ctx.choose([TRUE, TRUE])
        for cid in list(self.heap(ctx)):
            self.heap(ctx)[cid] = ctx.fresh(f"cell{cid}", SEQ)
        i = ctx.fresh("i", "Int")
        if k == 0:
            ctx.assume(And(smt.Le("0", i), smt.Lt(i, n)))
        else:
            ctx.assume(And(smt.Lt("0", n), Eq(i, smt.Sub(n, "1"))))
        for c in cands:
            ctx.assume(self.cand_term(ctx, c, i, entry))
        for ax in instance(i):
            ctx.assume(ax)
        ctx.ghost["in_loop"] = True
        try:
            body(i)
        finally:
            ctx.ghost["in_loop"] = False
        if k == 0:
            i1 = smt.Add(i, "1")
            for c in cands:
                ctx.side_obligations.append((f"loop-preserve:{loop_id}:{c[0]}", And(*ctx.pc, Not(self.cand_term(ctx, c, i1, entry)))))
            raise PyRaise(STEP_END, [], "an arbitrary iteration was checked")

    def exec_stmt(self, ctx: Ctx, s: ast.stmt, env, fi):
        if isinstance(s, (ast.Break, ast.Continue)):
            raise Unsupported("break / continue")
        return super().exec_stmt(ctx, s, env, fi)


def build() -> Tuple[World, GateInterp, Optional[FunctionInfo]]:
    world = new_world()
    interp = GateInterp(world)
    load_module(world, interp, os.path.join(REPO, REL), "main", REL)
    for q, fi in world.functions.items():
        if q.startswith(REL + "::"):
            fi.inline = True
    return world, interp, world.functions.get(f"{REL}::main")


@dataclass
class GateResult:
    unsupported: Optional[str]
    obligations: List[vc.Obligation]
    rounds: int
    invariants: Dict[int, List[str]]
    events: List[str]
    paths: int
    solver_s: float
    world: Optional[World] = None


def analyse(max_rounds: int = 12) -> GateResult:
    """Houdini: repeat (explore, solve loop obligations, drop refuted candidates) until no candidate is dropped."""
    world, interp, fi = build()
    if fi is None:
        return GateResult("generator/__main__.py has no main()", [], 0, {}, [], 0, 0.0)
    total = 0.0
    for rnd in range(1, max_rounds + 1):
        interp.events_seen = []
        interp.loops_seen = {}

        def run(ctx: Ctx):
            ctx.assume(smt.Ge(interp.n(ctx), "1"))
            ctx.ghost["inline:" + fi.qualname] = True
            try:
                interp.exec_function(ctx, fi, [VOpaque("argv")], {})
                return ("return",)
            except PyRaise as e:
                return ("raise", e.exc)

        try:
            paths = explore(world, run)
        except Unsupported as u:
            return GateResult(str(u), [], rnd, {}, [], 0, total)
        obs: List[vc.Obligation] = []
        for pi, p in enumerate(paths):
            obs.append(vc.Obligation(f"main:path{pi}:reach", "reach", p.decls, list(p.pc), "sat", {"path": pi, "impl": str(p.outcome)}))
            for j, (lab, t) in enumerate(p.side_obligations):
                kind = "loop" if lab.startswith("loop-") else "gate"
                obs.append(vc.Obligation(f"main:path{pi}:{lab}#{j}", kind, p.decls, [t], "unsat", {"path": pi, "label": lab, "impl": str(p.outcome)}))
        total += vc.solve(world, obs)
        dropped_now = set()
        for o in obs:
            if o.kind == "loop" and o.answer != "unsat":
                _, loop_id, cand = o.meta["label"].split(":", 2)
                dropped_now.add((int(loop_id), cand))
        if dropped_now - interp.dropped:
            interp.dropped |= dropped_now
            continue
        inv = {lid: [c for c in cs] for lid, cs in interp.loops_seen.items()}
        return GateResult(None, obs, rnd, inv, list(interp.events_seen), len(paths), total, world)
    return GateResult("invariant search did not converge", [], max_rounds, {}, [], 0, total)


def witness(world: World, ob: vc.Obligation, upto: int = 4) -> Dict[str, Any]:
    """Values of n_files and valid_doc(0..upto-1) in a model of a refuted obligation (for the native replay)."""
    lines = [smt.prelude(10000, "z3")]
    lines.extend(world.global_decls)
    for ax in world.global_axioms:
        lines.append(f"(assert {ax})")
    lines.extend(ob.decls)
    if not any(d.startswith(f"(declare-const {N} ") for d in ob.decls):
        lines.append(f"(declare-const {N} Int)")
    for a in ob.asserts:
        if a != TRUE:
            lines.append(f"(assert {a})")
    for k in range(upto):
        lines.append(f"(declare-const w_valid_{k} Bool)")
        lines.append(f"(assert (= w_valid_{k} (valid_doc {k})))")
    lines.append("(check-sat)")
    lines.append("(get-value (" + N + " " + " ".join(f"w_valid_{k}" for k in range(upto)) + "))")
    out, _ = smt.run_script("z3", "\n".join(lines) + "\n", 30)
    raw = smt.parse_get_value(out)
    res: Dict[str, Any] = {"solver_output": out[-1200:]}
    try:
        res["n"] = int(smt.sexpr_to_py(raw[N]))
        res["valid"] = [str(raw.get(f"w_valid_{k}")) == "true" for k in range(upto)]
    except Exception:  # noqa
        pass
    return res
