"""Symbolic JSON values ("probe trees"), the interpreter extension for JSON-consuming hooks,
and the symbolic validity predicate valid_tau(node) of DESIGN.md 2.2 / 3.1.
"""
from __future__ import annotations

import ast
import hashlib
import json
from dataclasses import dataclass, field
from typing import Any, Callable, Dict, List, Optional, Set, Tuple

from oracle.metamodel import INT_MAX, INT_MIN, UINT_MAX, UINT_MIN, MetaModel, STRING_BASES
from pyvc import smt
from pyvc.smt import And, Eq, Ite, Not, Or, TRUE, FALSE, Implies
from pyvc.symex import _Return as _ReturnT
from pyvc.symex import (
    Ctx,
    FunctionInfo,
    Interp,
    PyRaise,
    Unsupported,
    V,
    VBool,
    VClass,
    VFloat,
    VInt,
    VList,
    VNone,
    VOpaque,
    VStr,
    VTuple,
    force,
)

T_NULL, T_BOOL, T_INT, T_REAL, T_STR, T_ARR, T_OBJ = 0, 1, 2, 3, 4, 5, 6
TAGNAMES = {0: "null", 1: "bool", 2: "int", 3: "real", 4: "str", 5: "arr", 6: "obj"}
OMEGA = "ω"  # stands for "some key no alternative declares"
NELEMS = 2  # explicit leading elements of an array; the rest is the generic element


def _sum(ts: List[str]) -> str:
    return "0" if not ts else ts[0] if len(ts) == 1 else "(+ " + " ".join(ts) + ")"


def q(name: str) -> str:
    return "|" + name.replace("|", "/").replace("\\", "/") + "|"


@dataclass
class VJson(V):
    path: str
    kind = "json"


@dataclass
class VStructured(V):
    """Result of converter.structure(node, Class)."""

    path: str
    cls: str
    kind = "structured"


@dataclass
class VJsonMapped(V):
    """Result of a comprehension over a JSON array: readings of element 0, 1 and the generic element (None = not present)."""

    path: str
    items: List[Optional[V]]
    kind = "jsonmapped"


@dataclass
class VGen(V):
    """A generator expression (evaluated lazily by any()/all())."""

    node: Any
    env: Any
    fi: Any
    kind = "genexp"


@dataclass
class VJsonMethod(V):
    """Bound method of a JSON node (dict.get)."""

    name: str
    path: str
    kind = "jsonmethod"


@dataclass
class VKeySet(V):
    """A constant set / frozenset of strings (set literal, set([...]), frozenset((...)))."""

    keys: frozenset
    kind = "constset"


@dataclass
class VJsonKeys(V):
    """The key set of a JSON object node: set(obj), frozenset(obj), obj.keys()."""

    path: str
    kind = "jsonkeys"


@dataclass
class VKeyExpr(V):
    """keys(path) - K ('diff'), K - keys(path) ('rdiff') or keys(path) & K ('inter')."""

    path: str
    keys: frozenset
    op: str
    kind = "keyexpr"


@dataclass
class VSetMethod(V):
    recv: Any
    name: str
    kind = "setmethod"


OMEGA_KEY_MARK = "⟦unnamed-key⟧"


@dataclass
class VOmegaKey(VStr):
    """The name of a key of `path` that the code never names (iteration over the keys of an object).  Only comparisons
    with string literals are defined on it (they are false, and the literal becomes a named key of the node)."""

    path: str = ""


class Site:
    """Symbol table of one verification site (one hook at one use-site type)."""

    def __init__(self):
        self.decls: Dict[str, str] = {}
        self.keys: Dict[str, Set[str]] = {}  # node path -> keys that have a `has` symbol
        self.touched: Set[str] = set()  # node paths probed by the code
        self.axioms: List[str] = []
        self._strict_slots: List[Tuple[str, str, frozenset]] = []
        self.witness_arrays: Set[str] = set()  # arrays for which an existential witness element [w] is modelled (any()/all())
        self.typer = None  # PathTyper: JSON tags a strictly valid input can have at a (non-root) node
        self.pruned: int = 0

    def allowed_tags(self, p: str):
        if self.typer is None or p == "j":
            return None
        return self.typer.tags_at(p)

    def sym(self, name: str, sort: str) -> str:
        n = q(name)
        self.decls.setdefault(n, sort)
        return n

    def tag(self, p):
        return self.sym(f"tag {p}", "Int")

    def b(self, p):
        return self.sym(f"b {p}", "Bool")

    def i(self, p):
        return self.sym(f"i {p}", "Int")

    def r(self, p):
        return self.sym(f"r {p}", "Real")

    def s(self, p):
        return self.sym(f"s {p}", "String")

    def length(self, p):
        return self.sym(f"len {p}", "Int")

    def has(self, p, key):
        self.keys.setdefault(p, set()).add(key)
        return self.sym(f"has {p} :: {key}", "Bool")

    def child(self, p, key) -> str:
        return f"{p}.{key}"

    def elem(self, p, k) -> str:
        return f"{p}[{k if k != '*' else '*'}]"

    def touch(self, p: str):
        # p and all its ancestors
        self.touched.add(p)

    def is_touched_or_ancestor(self, p: str) -> bool:
        return any(t == p or t.startswith(p + ".") or t.startswith(p + "[") for t in self.touched)

    # strictness: "no key present at p other than those in `declared`" — resolved when the key set is final
    def strict_slot(self, p: str, declared: frozenset) -> str:
        tok = f"⟦strict{len(self._strict_slots)}⟧"
        self._strict_slots.append((tok, p, declared))
        self.has(p, OMEGA)
        return tok

    def resolve(self, term: str) -> str:
        # slots may mention keys registered later: resolve repeatedly until no token remains
        for _ in range(4):
            if "⟦strict" not in term:
                break
            for tok, p, declared in self._strict_slots:
                if tok in term:
                    others = sorted(k for k in self.keys.get(p, ()) if k not in declared)
                    term = term.replace(tok, And(*[Not(self.has(p, k)) for k in others]))
        return term

    def decl_lines(self) -> List[str]:
        return [f"(declare-const {n} {s})" for n, s in self.decls.items()]

    def key_axioms(self) -> str:
        """nonempty(p) / nkeys(p) in terms of the presence bits of p (named keys and, where it exists, the ω bit)."""
        cs = []
        for n, s in list(self.decls.items()):
            if n.endswith("′|"):
                continue
            for kind in ("|nonempty ", "|nkeys "):
                if n.startswith(kind):
                    p = n[len(kind) : -1]
                    ks = self.keys.get(p, set())
                    named = [self.sym(f"has {p} :: {k}", "Bool") for k in sorted(ks) if k != OMEGA]
                    om = self.sym(f"has {p} :: {OMEGA}", "Bool") if OMEGA in ks else None
                    if kind == "|nonempty ":
                        hs = named + ([om] if om else [])
                        if hs:
                            cs.append(Implies(Or(*hs), n))
                            if om:
                                cs.append(Implies(n, Or(*hs)))
                    else:
                        total = _sum([Ite(h, "1", "0") for h in named])
                        if om:
                            cs.append(Implies(Not(om), Eq(n, total)))
                            cs.append(Implies(om, smt.Gt(n, total)))
                        else:
                            cs.append(smt.Ge(n, total))
        return And(*cs)

    def wellformed(self) -> str:
        """Range constraints of every tag / length symbol."""
        cs = [self.key_axioms()]
        for n, s in list(self.decls.items()):
            if n.startswith("|tag "):
                cs.append(And(smt.Le("0", n), smt.Le(n, "6")))
            elif n.startswith("|len "):
                cs.append(smt.Le("0", n))
        return And(*cs)


# ---------------------------------------------------------------------------------------------
# symbolic validity
# ---------------------------------------------------------------------------------------------


def type_key(t: Dict) -> str:
    k = t["kind"]
    if k in ("base", "reference"):
        return f"{k}:{t['name']}"
    if k == "stringLiteral":
        return f"lit:{t['value']}"
    canon = json.dumps(_strip(t), sort_keys=True)
    return f"{k}#{hashlib.sha1(canon.encode()).hexdigest()[:8]}"


def _strip(x):
    from oracle.metamodel import strip_doc

    return strip_doc(x)


class PathTyper:
    """Which metamodel types can stand at a probe-tree path below a value of type tau, and hence which JSON tags a valid
    input can have there.  Used only to prune forks that are unreachable under the precondition (soundness: a pruned
    branch contradicts valid_tau(j), strict or not, because undeclared keys are typed 'anything')."""

    def __init__(self, mm: MetaModel, tau: Dict):
        self.mm = mm
        self.tau = tau
        self._types: Dict[str, Optional[List[Dict]]] = {"j": [tau]}
        self._tags: Dict[str, Optional[Set[int]]] = {}
        self._v = None

    def _alts(self, t: Dict, depth: int = 0) -> List[Dict]:
        if depth > 10:
            return [t]
        if t["kind"] == "reference" and t["name"] in self.mm.aliases and t["name"] not in ("LSPAny", "LSPObject", "LSPArray"):
            return self._alts(self.mm.aliases[t["name"]]["type"], depth + 1)
        if t["kind"] == "or":
            out: List[Dict] = []
            for it in t["items"]:
                out.extend(self._alts(it, depth + 1))
            return out
        return [t]

    def types_at(self, p: str) -> Optional[List[Dict]]:
        """None = anything can be here."""
        if p in self._types:
            return self._types[p]
        # split off the last step
        if p.endswith("]"):
            i = p.rindex("[")
            parent, step = p[:i], p[i + 1 : -1]
        else:
            i = p.rindex(".")
            parent, step = p[:i], p[i:]
        pt = self.types_at(parent)
        res: Optional[List[Dict]] = []
        if pt is None:
            res = None
        else:
            for t in pt:
                for a in self._alts(t):
                    k = a["kind"]
                    if k == "reference" and a["name"] in ("LSPAny", "LSPObject", "LSPArray"):
                        res = None
                        break
                    if step.startswith("."):
                        key = step[1:]
                        props = None
                        if k == "reference" and a["name"] in self.mm.structures:
                            props = self.mm.flatten(a["name"])
                        elif k == "literal":
                            props = a["value"]["properties"]
                            if not props:
                                res = None
                                break
                        elif k == "and":
                            props = self.mm.and_props(a)
                        elif k == "map":
                            res.append(a["value"])
                            continue
                        if props is not None:
                            hit = [pr["type"] for pr in props if pr["name"] == key]
                            if hit:
                                res.extend(hit)
                            else:
                                res = None  # undeclared key: only non-strict inputs have it, and then anything goes
                                break
                    else:
                        if k == "array":
                            res.append(a["element"])
                        elif k == "tuple":
                            if step.isdigit() and int(step) < len(a["items"]):
                                res.append(a["items"][int(step)])
                            else:
                                res.extend(a["items"])
                if res is None:
                    break
        self._types[p] = res
        return res

    def tags_at(self, p: str) -> Optional[Set[int]]:
        if p in self._tags:
            return self._tags[p]
        ts = self.types_at(p)
        out: Optional[Set[int]]
        if ts is None or not ts:
            out = None
        else:
            if self._v is None:
                self._v = Validity(self.mm, Site())
            out = set()
            for t in ts:
                out |= self._v.tags_of(t)
            if len(out) >= 7:
                out = None
        self._tags[p] = out
        return out


class Validity:
    def __init__(self, mm: MetaModel, site: Site, open_empty: bool = False):
        self.mm = mm
        self.site = site
        self.memo: Dict[Tuple[str, str, bool], str] = {}
        self.atoms: Dict[Tuple[str, str], Dict[bool, str]] = {}
        self.atom_types: Dict[str, Tuple[Dict, str, bool]] = {}
        self.null_optional_ok = False

    # possible JSON tags of a type (for atom typing axioms)
    def tags_of(self, t: Dict, depth: int = 0) -> Set[int]:
        k = t["kind"]
        if k == "base":
            n = t["name"]
            return {"integer": {T_INT}, "uinteger": {T_INT}, "decimal": {T_INT, T_REAL}, "boolean": {T_BOOL}, "null": {T_NULL}}.get(n, {T_STR})
        if k == "reference":
            n = t["name"]
            if n == "LSPAny":
                return set(range(7))
            if n == "LSPObject":
                return {T_OBJ}
            if n == "LSPArray":
                return {T_ARR}
            if n in self.mm.structures:
                return {T_OBJ}
            if n in self.mm.enumerations:
                return {T_STR} if self.mm.enumerations[n]["type"]["name"] == "string" else {T_INT}
            if depth > 8:
                return set(range(7))
            return self.tags_of(self.mm.aliases[n]["type"], depth + 1)
        if k in ("array", "tuple"):
            return {T_ARR}
        if k in ("map", "and", "literal"):
            return {T_OBJ}
        if k == "or":
            out: Set[int] = set()
            for it in t["items"]:
                out |= self.tags_of(it, depth + 1)
            return out
        if k == "stringLiteral":
            return {T_STR}
        return set(range(7))

    def atom(self, t: Dict, p: str, strict: bool) -> str:
        tk = type_key(t)
        name = self.site.sym(f"valid{'!' if strict else '?'} {tk} @ {p}", "Bool")
        d = self.atoms.setdefault((tk, p), {})
        if strict not in d:
            d[strict] = name
            self.atom_types[name] = (t, p, strict)
            tags = self.tags_of(t)
            if len(tags) < 7:
                self.site.axioms.append(Implies(name, Or(*[Eq(self.site.tag(p), str(x)) for x in sorted(tags)])))
            if (not strict) in d:
                self.site.axioms.append(Implies(d[True], d[False]))
        return name

    def expanded(self, p: str) -> bool:
        return self.site.is_touched_or_ancestor(p)

    def valid(self, t: Dict, p: str, strict: bool, depth: int = 0) -> str:
        key = (type_key(t), p, strict)
        if key in self.memo:
            return self.memo[key]
        r = self._valid(t, p, strict, depth)
        self.memo[key] = r
        return r

    def _valid(self, t: Dict, p: str, strict: bool, depth: int) -> str:
        S = self.site
        k = t["kind"]
        tag = S.tag(p)
        if k == "base":
            n = t["name"]
            if n == "integer":
                return And(Eq(tag, "2"), smt.Le(smt.sint(INT_MIN), S.i(p)), smt.Le(S.i(p), smt.sint(INT_MAX)))
            if n == "uinteger":
                return And(Eq(tag, "2"), smt.Le("0", S.i(p)), smt.Le(S.i(p), smt.sint(UINT_MAX)))
            if n == "decimal":
                return Or(Eq(tag, "2"), Eq(tag, "3"))
            if n == "boolean":
                return Eq(tag, "1")
            if n == "null":
                return Eq(tag, "0")
            return Eq(tag, "4")
        if k == "stringLiteral":
            return And(Eq(tag, "4"), Eq(S.s(p), smt.sstr(t["value"])))
        if k == "reference":
            n = t["name"]
            if n == "LSPAny":
                return TRUE
            if n == "LSPObject":
                return Eq(tag, "6")
            if n == "LSPArray":
                return Eq(tag, "5")
            if n in self.mm.enumerations:
                e = self.mm.enumerations[n]
                is_str = e["type"]["name"] == "string"
                if self.mm.is_open_enum(n):
                    if is_str:
                        return Eq(tag, "4")
                    lo, hi = (INT_MIN, INT_MAX) if e["type"]["name"] == "integer" else (UINT_MIN, UINT_MAX)
                    return And(Eq(tag, "2"), smt.Le(smt.sint(lo), S.i(p)), smt.Le(S.i(p), smt.sint(hi)))
                if is_str:
                    return And(Eq(tag, "4"), Or(*[Eq(S.s(p), smt.sstr(v["value"])) for v in e["values"]]))
                return And(Eq(tag, "2"), Or(*[Eq(S.i(p), smt.sint(v["value"])) for v in e["values"]]))
            if n in self.mm.aliases:
                if depth > 12:
                    return self.atom(t, p, strict)
                return self.valid(self.mm.aliases[n]["type"], p, strict, depth + 1)
            if n in self.mm.structures:
                if not self.expanded(p) or depth > 12:
                    return self.atom(t, p, strict)
                return self.valid_props(self.mm.flatten(n), p, strict, depth)
            raise ValueError(f"unknown reference {n}")
        if k == "literal":
            if not self.expanded(p):
                return self.atom(t, p, strict)
            return self.valid_props(self.mm.literal_props(t), p, strict, depth)
        if k == "and":
            if not self.expanded(p):
                return self.atom(t, p, strict)
            props = self.mm.and_props(t)
            return self.valid_props(props, p, strict, depth)
        if k == "or":
            return Or(*[self.valid(it, p, strict, depth + 1) for it in t["items"]])
        if k == "array":
            if not self.expanded(p):
                return self.atom(t, p, strict)
            ln = S.length(p)
            cs = [Eq(tag, "5")]
            for i in range(NELEMS):
                cs.append(Implies(smt.Gt(ln, smt.sint(i)), self.valid(t["element"], S.elem(p, i), strict, depth + 1)))
            cs.append(Implies(smt.Gt(ln, smt.sint(NELEMS)), self.valid(t["element"], S.elem(p, "*"), strict, depth + 1)))
            if p in S.witness_arrays:
                cs.append(Implies(smt.Gt(ln, smt.sint(NELEMS)), self.valid(t["element"], S.elem(p, "w"), strict, depth + 1)))
            return And(*cs)
        if k == "tuple":
            if not self.expanded(p):
                return self.atom(t, p, strict)
            n = len(t["items"])
            if n > NELEMS:
                return self.atom(t, p, strict)
            ln = S.length(p)
            return And(Eq(tag, "5"), Eq(ln, smt.sint(n)), *[self.valid(it, S.elem(p, i), strict, depth + 1) for i, it in enumerate(t["items"])])
        if k == "map":
            if not self.expanded(p):
                return self.atom(t, p, strict)
            return And(Eq(tag, "6"), self.site.sym(f"mapvalues{'!' if strict else '?'} {type_key(t)} @ {p}", "Bool"))
        raise ValueError(k)

    def valid_props(self, props: List[Dict], p: str, strict: bool, depth: int) -> str:
        S = self.site
        cs = [Eq(S.tag(p), "6")]
        declared = frozenset(pr["name"] for pr in props)
        for pr in props:
            h = S.has(p, pr["name"])
            c = S.child(p, pr["name"])
            v = self.valid(pr["type"], c, strict, depth + 1)
            if self.null_optional_ok and pr.get("optional") and not self.mm.null_admitting(pr["type"]):
                v = Or(v, Eq(S.tag(c), "0"))  # reading used for C17 only: explicit null at an optional property
            if pr.get("optional"):
                cs.append(Implies(h, v))
            else:
                cs.append(And(h, v))
        if strict:
            cs.append(S.strict_slot(p, declared))
        return And(*cs)


# ---------------------------------------------------------------------------------------------
# interpreter extension
# ---------------------------------------------------------------------------------------------


def raise_inf():
    from pyvc.symex import Infeasible

    raise Infeasible()


class HookInterp(Interp):
    """Interp + semantics of JSON inputs (what json.loads returns), per DESIGN 2.3 rules 1-3."""

    def __init__(self, world, site: Site):
        super().__init__(world)
        self.site = site

    # -- helpers
    def _tag_in(self, j: VJson, tags) -> str:
        t = self.site.tag(j.path)
        return Or(*[Eq(t, str(x)) for x in tags])

    def _touch(self, j: VJson):
        self.site.touch(j.path)

    def node_class(self, ctx: Ctx, j: VJson) -> str:
        """Fork on the container class of a JSON node: 'obj' | 'arr' | 'str' | 'scalar'."""
        self._touch(j)
        t = self.site.tag(j.path)
        conds = [Eq(t, "6"), Eq(t, "5"), Eq(t, "4"), Or(Eq(t, "0"), Eq(t, "1"), Eq(t, "2"), Eq(t, "3"))]
        allowed = self.site.allowed_tags(j.path)
        if allowed is not None:
            groups = [{6}, {5}, {4}, {0, 1, 2, 3}]
            for gi, g in enumerate(groups):
                if not (g & allowed):
                    conds[gi] = FALSE  # unreachable for any input valid for the use-site type
                    self.site.pruned += 1
        k = ctx.choose(conds)
        return ["obj", "arr", "str", "scalar"][k]

    # -- key sets ---------------------------------------------------------------------------
    def _const_keys(self, ctx: Ctx, v: V) -> Optional[frozenset]:
        v = force(ctx, v)
        if isinstance(v, VKeySet):
            return v.keys
        if isinstance(v, (VList, VTuple)):
            out = []
            for it in v.items:
                it = force(ctx, it)
                if isinstance(it, VStr) and not isinstance(it, VOmegaKey) and smt.is_str_lit(it.t):
                    out.append(smt.sexpr_to_py(it.t))
                else:
                    return None
            return frozenset(out)
        return None

    def _json_keys(self, ctx: Ctx, v: V) -> Optional[str]:
        """Path of the object whose keys `v` iterates (a JSON object node, set(obj), obj.keys()); None if v is not one."""
        if isinstance(v, VJsonKeys):
            return v.path
        if isinstance(v, VJson):
            kind = self.node_class(ctx, v)
            if kind == "obj":
                return v.path
            if kind == "scalar":
                raise PyRaise("TypeError", [], "object is not iterable")
            raise Unsupported(f"key set of a JSON {kind}")
        return None

    def _named(self, p: str, keys) -> None:
        for k in keys:
            self.site.has(p, k)

    def _subset(self, p: str, K: frozenset) -> str:
        """keys(p) <= K: no key outside K is present (resolved when the set of named keys of p is final)."""
        self._named(p, K)
        return self.site.strict_slot(p, frozenset(K))

    def _superset(self, p: str, K: frozenset) -> str:
        return And(*[self.site.has(p, k) for k in sorted(K)])

    def _disjoint(self, p: str, K: frozenset) -> str:
        return And(*[Not(self.site.has(p, k)) for k in sorted(K)])

    def set_relation(self, ctx: Ctx, op: str, a: V, b: V) -> V:
        """op in le ge lt gt eq ne disjoint, between key sets."""
        ca, cb = self._const_keys(ctx, a), self._const_keys(ctx, b)
        if ca is not None and cb is not None:
            r = {"le": ca <= cb, "ge": ca >= cb, "lt": ca < cb, "gt": ca > cb, "eq": ca == cb, "ne": ca != cb, "disjoint": ca.isdisjoint(cb)}[op]
            return VBool(TRUE if r else FALSE)
        pa = self._json_keys(ctx, a) if ca is None else None
        pb = self._json_keys(ctx, b) if cb is None else None
        if pa is not None and cb is not None:
            p, K = pa, cb
        elif pb is not None and ca is not None:
            p, K = pb, ca
            op = {"le": "ge", "ge": "le", "lt": "gt", "gt": "lt"}.get(op, op)
        else:
            raise Unsupported(f"set relation {op} between {a.kind} and {b.kind}")
        self._touch(VJson(p))
        if op == "le":
            t = self._subset(p, K)
        elif op == "ge":
            t = self._superset(p, K)
        elif op == "lt":
            t = And(self._subset(p, K), Not(self._superset(p, K)))
        elif op == "gt":
            t = And(self._superset(p, K), Not(self._subset(p, K)))
        elif op == "eq":
            t = And(self._subset(p, K), self._superset(p, K))
        elif op == "ne":
            t = Not(And(self._subset(p, K), self._superset(p, K)))
        else:
            t = self._disjoint(p, K)
        return VBool(t)

    def set_binop(self, ctx: Ctx, op: str, a: V, b: V) -> V:
        ca, cb = self._const_keys(ctx, a), self._const_keys(ctx, b)
        if ca is not None and cb is not None:
            return VKeySet({"sub": ca - cb, "and": ca & cb, "or": ca | cb, "xor": ca ^ cb}[op])
        pa = self._json_keys(ctx, a) if ca is None else None
        pb = self._json_keys(ctx, b) if cb is None else None
        if pa is not None and cb is not None:
            self._touch(VJson(pa))
            self._named(pa, cb)
            if op == "sub":
                return VKeyExpr(pa, cb, "diff")
            if op == "and":
                return VKeyExpr(pa, cb, "inter")
        if pb is not None and ca is not None:
            self._touch(VJson(pb))
            self._named(pb, ca)
            if op == "sub":
                return VKeyExpr(pb, ca, "rdiff")
            if op == "and":
                return VKeyExpr(pb, ca, "inter")
        raise Unsupported(f"set operation {op} on {a.kind},{b.kind}")

    def _keyexpr_truth(self, v: "VKeyExpr") -> str:
        if v.op == "diff":
            return Not(self._subset(v.path, v.keys))
        if v.op == "rdiff":
            return Not(self._superset(v.path, v.keys))
        return Not(self._disjoint(v.path, v.keys))

    def compare(self, ctx: Ctx, op: ast.cmpop, a: V, b: V) -> V:
        sets = (VKeySet, VJsonKeys)
        if isinstance(a, sets) or isinstance(b, sets):
            name = {ast.LtE: "le", ast.GtE: "ge", ast.Lt: "lt", ast.Gt: "gt", ast.Eq: "eq", ast.NotEq: "ne"}.get(type(op))
            if name is not None:
                if not (isinstance(a, sets) and isinstance(b, sets)):
                    # a set compared with a non-set: == is False, ordering raises
                    if name in ("eq", "ne"):
                        return VBool(FALSE if name == "eq" else TRUE)
                    raise PyRaise("TypeError", [], "ordering between a set and a non-set")
                return self.set_relation(ctx, name, a, b)
        return super().compare(ctx, op, a, b)

    def binop(self, ctx: Ctx, op: ast.operator, a: V, b: V) -> V:
        sets = (VKeySet, VJsonKeys)
        if isinstance(a, sets) or isinstance(b, sets):
            name = {ast.Sub: "sub", ast.BitAnd: "and", ast.BitOr: "or", ast.BitXor: "xor"}.get(type(op))
            if name is None or not (isinstance(a, sets) and isinstance(b, sets)):
                raise PyRaise("TypeError", [], "unsupported operand type(s) for a set operator")
            return self.set_binop(ctx, name, a, b)
        return super().binop(ctx, op, a, b)

    def builtin_hook(self, ctx: Ctx, name: str, args: List[V], kwargs):
        if name in ("sorted", "list", "tuple") and len(args) == 1 and not kwargs:
            a0 = force(ctx, args[0])
            p0 = None
            if isinstance(a0, VJsonKeys):
                p0 = a0.path
            elif isinstance(a0, VJson):
                kind = self.node_class(ctx, a0)
                if kind == "obj":
                    p0 = a0.path
                elif kind == "scalar":
                    raise PyRaise("TypeError", [], "object is not iterable")
            if p0 is not None:
                return VOpaque(f"<{name} of the keys of {p0}>")  # string keys: sorting never raises; the value is only looked at by loggers
            if isinstance(a0, VJson):
                if kind == "str":
                    return VOpaque(f"<{name} of the characters of {a0.path}>")
                # an array: sorting may raise (unorderable elements).  Only when no valid input has an array here (so the path is
                # unreachable under every obligation's precondition) is the outcome immaterial.
                tags = self.site.typer.tags_at(a0.path) if self.site.typer is not None else None
                if name != "sorted" or (tags is not None and T_ARR not in tags):
                    return VOpaque(f"<{name} of the elements of {a0.path}>")
            raise Unsupported(f"{name}() of a JSON array")
        if name in ("set", "frozenset") and not kwargs:
            if not args:
                return VKeySet(frozenset())
            a = force(ctx, args[0])
            c = self._const_keys(ctx, a)
            if c is not None:
                return VKeySet(c)
            p = self._json_keys(ctx, a)
            if p is not None:
                return VJsonKeys(p)
            raise Unsupported(f"{name}() of {a.kind}")
        return None

    def keys_anyall(self, ctx: Ctx, is_any: bool, p: str, pred_term) -> V:
        """any()/all() of a predicate over the KEYS of the object at p.  The predicate must be decided, for a key the code
        does not name, by comparisons with string literals (each literal then becomes a named key of p); the result is
        exact: named keys one by one, all other keys through the late-resolved 'a key outside the named ones is present'."""
        S = self.site
        self._touch(VJson(p))
        npc = len(ctx.pc)
        om = VOmegaKey(OMEGA_KEY_MARK, p)
        c_om = pred_term(om)
        if c_om not in (TRUE, FALSE) or any(OMEGA_KEY_MARK in c for c in ctx.pc[npc:]):
            raise Unsupported("predicate over the keys of an object is not decided by the literals it names")
        named = sorted(k for k in S.keys.get(p, ()) if k != OMEGA)
        per = []
        for k in named:
            t = pred_term(VStr(smt.sstr(k)))
            per.append((S.has(p, k), t))
        outside = Not(S.strict_slot(p, frozenset(named)))
        if is_any:
            return VBool(Or(*[And(h, t) for h, t in per], And(c_om, outside)))
        return VBool(And(*[Implies(h, t) for h, t in per], Or(c_om, Not(outside))))

    # -- overrides
    def truth(self, ctx: Ctx, v: V) -> bool:
        if isinstance(v, VKeySet):
            return bool(v.keys)
        if isinstance(v, VJsonKeys):
            return ctx.branch(self.site.sym(f"nonempty {v.path}", "Bool"))
        if isinstance(v, VKeyExpr):
            return ctx.branch(self._keyexpr_truth(v))
        if isinstance(v, VJson):
            self._touch(v)
            S = self.site
            t = S.tag(v.path)
            p = v.path
            cond = Or(
                And(Eq(t, "1"), S.b(p)),
                And(Eq(t, "2"), Not(Eq(S.i(p), "0"))),
                And(Eq(t, "3"), Not(Eq(S.r(p), "0.0"))),
                And(Eq(t, "4"), Not(Eq(S.s(p), '""'))),
                And(Eq(t, "5"), smt.Gt(S.length(p), "0")),
                And(Eq(t, "6"), S.sym(f"nonempty {p}", "Bool")),
            )
            return ctx.branch(cond)
        if isinstance(v, (VStructured, VJsonMapped)):
            return True
        return super().truth(ctx, v)

    def isinstance_(self, ctx: Ctx, v: V, cls: V) -> bool:
        if isinstance(v, VJson):
            self._touch(v)
            names = [c.name for c in (cls.items if isinstance(cls, VTuple) else [cls]) if isinstance(c, VClass)]
            if len(names) != (len(cls.items) if isinstance(cls, VTuple) else 1):
                raise Unsupported("isinstance against non-class")
            tags: Set[int] = set()
            for n in names:
                if n == "bool":
                    tags |= {T_BOOL}
                elif n == "int":
                    tags |= {T_BOOL, T_INT}
                elif n == "float":
                    tags |= {T_REAL}
                elif n == "str":
                    tags |= {T_STR}
                elif n == "list":
                    tags |= {T_ARR}
                elif n == "dict":
                    tags |= {T_OBJ}
                elif n == "object":
                    tags |= set(range(7))
                elif n in ("tuple", "set", "bytes"):
                    pass
                elif n == "NoneType":
                    tags |= {T_NULL}
                else:
                    pass  # json.loads never yields instances of package classes
            allowed = self.site.allowed_tags(v.path)
            if allowed is not None:
                if allowed <= tags:
                    ctx.assume(self._tag_in(v, sorted(allowed)))
                    return True
                if not (allowed & tags):
                    ctx.assume(self._tag_in(v, sorted(allowed)))
                    return False
            return ctx.branch(self._tag_in(v, sorted(tags)))
        if isinstance(v, (VStructured, VJsonMapped)):
            raise Unsupported("isinstance on structured result")
        return super().isinstance_(ctx, v, cls)

    def op_is(self, ctx: Ctx, a: V, b: V) -> str:
        if isinstance(a, VJson) or isinstance(b, VJson):
            j, o = (a, b) if isinstance(a, VJson) else (b, a)
            o = force(ctx, o)
            self._touch(j)
            if isinstance(o, VNone):
                return Eq(self.site.tag(j.path), "0")
            if isinstance(o, VBool):
                return And(Eq(self.site.tag(j.path), "1"), Eq(self.site.b(j.path), o.t))
            if isinstance(o, VJson):
                if o.path == j.path:
                    return TRUE
                raise Unsupported("identity of two json nodes")
            return FALSE
        return super().op_is(ctx, a, b)

    def _rich(self, ctx: Ctx, a: V, b: V, dunder: str):
        if isinstance(a, VOmegaKey) or isinstance(b, VOmegaKey):
            k, o = (a, b) if isinstance(a, VOmegaKey) else (b, a)
            o = force(ctx, o)
            if dunder in ("__eq__", "__ne__"):
                if isinstance(o, VStr) and not isinstance(o, VOmegaKey) and smt.is_str_lit(o.t):
                    self.site.has(k.path, smt.sexpr_to_py(o.t))  # the literal is a named key from now on: the unnamed key differs from it
                    return VBool(FALSE if dunder == "__eq__" else TRUE)
                if not isinstance(o, (VStr, VJson)):
                    return VBool(FALSE if dunder == "__eq__" else TRUE)
            raise Unsupported("comparison of an unnamed key with a non-literal")
        if (isinstance(a, VJson) or isinstance(b, VJson)) and dunder not in ("__eq__", "__ne__"):
            # ordering: defined between numbers (bool counts as 0/1); anything else raises TypeError
            def num(v):
                if not isinstance(v, VJson):
                    return v
                self._touch(v)
                S0, t0 = self.site, self.site.tag(v.path)
                k0 = ctx.choose([Eq(t0, "2"), Eq(t0, "1"), Eq(t0, "3"), Or(Eq(t0, "0"), Eq(t0, "4"), Eq(t0, "5"), Eq(t0, "6"))])
                if k0 == 0:
                    return VInt(S0.i(v.path))
                if k0 == 1:
                    return VInt(Ite(S0.b(v.path), "1", "0"))
                if k0 == 2:
                    return VFloat(S0.r(v.path))
                raise PyRaise("TypeError", [], "ordering between a JSON value that is not a number and a number")

            na, nb = num(a), num(b)
            if not isinstance(na, (VInt, VBool, VFloat)) or not isinstance(nb, (VInt, VBool, VFloat)):
                raise Unsupported("ordering between a json value and a non-number")
            return super()._rich(ctx, na, nb, dunder)
        if isinstance(a, VJson) or isinstance(b, VJson):
            j, o = (a, b) if isinstance(a, VJson) else (b, a)
            self._touch(j)
            S = self.site
            t = S.tag(j.path)
            p = j.path
            if isinstance(o, VStr):
                e = And(Eq(t, "4"), Eq(S.s(p), o.t))
            elif isinstance(o, (VInt, VBool)):
                ot = o.t if isinstance(o, VInt) else Ite(o.t, "1", "0")
                e = Or(And(Eq(t, "2"), Eq(S.i(p), ot)), And(Eq(t, "1"), Eq(Ite(S.b(p), "1", "0"), ot)), And(Eq(t, "3"), Eq(S.r(p), smt.ToReal(ot))))
            elif isinstance(o, VFloat):
                e = Or(And(Eq(t, "3"), Eq(S.r(p), o.t)), And(Eq(t, "2"), Eq(smt.ToReal(S.i(p)), o.t)))
            elif isinstance(o, VNone):
                e = Eq(t, "0")
            elif isinstance(o, VList) and not o.items:
                e = And(Eq(t, "5"), Eq(S.length(p), "0"))
            else:
                raise Unsupported(f"== between json and {o.kind}")
            return VBool(e if dunder == "__eq__" else Not(e))
        return super()._rich(ctx, a, b, dunder)

    def contains_hook(self, ctx: Ctx, x: V, coll: V) -> V:
        if isinstance(coll, VKeySet):
            x = force(ctx, x)
            lits = sorted(coll.keys)
            if isinstance(x, VOmegaKey):
                self._named(x.path, lits)
                return VBool(FALSE)
            if isinstance(x, VStr):
                if smt.is_str_lit(x.t):
                    return VBool(TRUE if smt.sexpr_to_py(x.t) in coll.keys else FALSE)
                return VBool(Or(*[Eq(x.t, smt.sstr(k)) for k in lits]))
            if isinstance(x, VJson):
                self._touch(x)
                S0 = self.site
                return VBool(And(Eq(S0.tag(x.path), "4"), Or(*[Eq(S0.s(x.path), smt.sstr(k)) for k in lits])))
            if isinstance(x, (VInt, VBool, VNone, VFloat)):
                return VBool(FALSE)
            raise Unsupported(f"membership of {x.kind} in a set of strings")
        if isinstance(coll, VJsonKeys):
            coll = VJson(coll.path)
        if isinstance(x, VOmegaKey):
            raise Unsupported("membership test of an unnamed key")
        if isinstance(coll, VJson):
            x = force(ctx, x)
            kind = self.node_class(ctx, coll)
            S = self.site
            if kind == "obj":
                if isinstance(x, VStr) and smt.is_str_lit(x.t):
                    return VBool(S.has(coll.path, smt.sexpr_to_py(x.t)))
                raise Unsupported("non-constant key probe")
            if kind == "arr":
                # element test on a list: uninterpreted (nothing is known about it)
                return VBool(S.sym(f"elemtest {coll.path} :: {x!r}", "Bool"))
            if kind == "str":
                if isinstance(x, VStr):
                    return VBool(smt.Contains(S.s(coll.path), x.t))
                raise PyRaise("TypeError", [], "'in <string>' requires string as left operand")
            raise PyRaise("TypeError", [], "argument of this type is not iterable")
        raise Unsupported(f"in {coll}")

    def constdict_lookup(self, ctx: Ctx, d, key: V):
        key = force(ctx, key)
        if isinstance(key, VJson):
            kind = self.node_class(ctx, key)
            if kind in ("arr", "obj"):
                raise PyRaise("TypeError", [], "unhashable type used as a key of a constant table")
            if kind == "str":
                for k, v in d.entries:
                    if ctx.branch(Eq(self.site.s(key.path), smt.sstr(k))):
                        return v
            return None  # a number / bool / null equals no string key
        return super().constdict_lookup(ctx, d, key)

    def len_hook(self, ctx: Ctx, v: V) -> V:
        if isinstance(v, VJson):
            kind = self.node_class(ctx, v)
            if kind == "arr":
                return VInt(self.site.length(v.path))
            if kind == "str":
                return VInt(f"(str.len {self.site.s(v.path)})")
            if kind == "obj":
                n = self.site.sym(f"nkeys {v.path}", "Int")
                ctx.assume(smt.Le("0", n))
                return VInt(n)
            raise PyRaise("TypeError", [], "object has no len()")
        if isinstance(v, VJsonMapped):
            return VInt(self.site.length(v.path))
        if isinstance(v, VKeySet):
            return VInt(smt.sint(len(v.keys)))
        if isinstance(v, VJsonKeys):
            n = self.site.sym(f"nkeys {v.path}", "Int")
            ctx.assume(smt.Le("0", n))
            return VInt(n)
        if isinstance(v, VKeyExpr) and v.op in ("inter", "rdiff"):
            present = _sum([Ite(self.site.has(v.path, k), "1", "0") for k in sorted(v.keys)])
            return VInt(present if v.op == "inter" else smt.Sub(smt.sint(len(v.keys)), present))
        raise Unsupported(f"len of {v}")

    def subscript_hook(self, ctx: Ctx, base: V, idx: V):
        if isinstance(base, VJson):
            kind = self.node_class(ctx, base)
            S = self.site
            if isinstance(idx, VInt) and smt.is_int_lit(idx.t):
                i = smt.int_val(idx.t)
                if kind == "arr":
                    if i < 0 or i >= NELEMS:
                        raise Unsupported("array index beyond the modelled prefix")
                    if not ctx.branch(smt.Gt(S.length(base.path), smt.sint(i))):
                        raise PyRaise("IndexError", [], "list index out of range")
                    return VJson(S.elem(base.path, i))
                if kind == "obj":
                    raise PyRaise("KeyError", [], "integer key on a JSON object")
                if kind == "str":
                    raise Unsupported("indexing a string")
                raise PyRaise("TypeError", [], "object is not subscriptable")
            if isinstance(idx, VStr) and smt.is_str_lit(idx.t):
                key = smt.sexpr_to_py(idx.t)
                if kind == "obj":
                    if not ctx.branch(S.has(base.path, key)):
                        raise PyRaise("KeyError", [VStr(idx.t)], f"key {key!r} absent")
                    return VJson(S.child(base.path, key))
                raise PyRaise("TypeError", [], "string index on a non-object")
            raise Unsupported("non-constant subscript")
        return None

    def call_builtin(self, ctx: Ctx, name: str, args: List[V], kwargs) -> V:
        if args and isinstance(args[0], VJson) and name in ("int", "str", "bool", "float"):
            j = args[0]
            self._touch(j)
            S = self.site
            t = S.tag(j.path)
            if name == "str":
                k = ctx.choose([Eq(t, "4"), Not(Eq(t, "4"))])
                if k == 0:
                    return VStr(S.s(j.path))
                return VStr(S.sym(f"pystr {j.path}", "String"))
            if name == "int":
                k = ctx.choose([Eq(t, "2"), Eq(t, "1"), Eq(t, "3"), Eq(t, "4"), Or(Eq(t, "0"), Eq(t, "5"), Eq(t, "6"))])
                if k == 0:
                    return VInt(S.i(j.path))
                if k == 1:
                    return VInt(Ite(S.b(j.path), "1", "0"))
                if k == 2:
                    r = S.r(j.path)
                    return VInt(Ite(smt.Ge(r, "0.0"), f"(to_int {r})", f"(- (to_int (- {r})))"))
                if k == 3:
                    if ctx.branch(S.sym(f"intparse_ok {j.path}", "Bool")):
                        return VInt(S.sym(f"intparse {j.path}", "Int"))
                    raise PyRaise("ValueError", [], "invalid literal for int()")
                raise PyRaise("TypeError", [], "int() argument must be a string or a number")
            raise Unsupported(f"{name}() of json")
        return super().call_builtin(ctx, name, args, kwargs)

    def call(self, ctx: Ctx, f: V, args: List[V], kwargs: Dict[str, V]) -> V:
        from pyvc.symex import VExternal

        if isinstance(f, VJsonMethod) and f.name == "get":
            node = VJson(f.path)
            kind = self.node_class(ctx, node)
            if kind != "obj":
                raise PyRaise("AttributeError", [], f"a JSON {kind} has no method get")
            if not args or kwargs:
                raise Unsupported("dict.get signature")
            k = force(ctx, args[0])
            if not (isinstance(k, VStr) and smt.is_str_lit(k.t)):
                raise Unsupported("dict.get with a non-constant key")
            key = smt.sexpr_to_py(k.t)
            if ctx.branch(self.site.has(f.path, key)):
                return VJson(self.site.child(f.path, key))
            return args[1] if len(args) > 1 else VNone()

        if isinstance(f, VOpaque) and f.name.startswith("<logger>.") and f.name.split(".")[-1] in ("debug", "info", "warning", "error", "exception", "critical", "log"):
            return VNone()  # logging is not an observable of structuring (its arguments have been evaluated)
        if isinstance(f, VJsonMethod) and f.name == "keys":
            node = VJson(f.path)
            kind = self.node_class(ctx, node)
            if kind != "obj":
                raise PyRaise("AttributeError", [], f"a JSON {kind} has no method keys")
            if args or kwargs:
                raise PyRaise("TypeError", [], "keys() takes no arguments")
            return VJsonKeys(f.path)
        if isinstance(f, VSetMethod):
            if len(args) != 1 or kwargs:
                raise Unsupported(f"set.{f.name} signature")
            other = force(ctx, args[0])
            if self._const_keys(ctx, other) is None and self._json_keys(ctx, other) is None:
                raise Unsupported(f"set.{f.name}({other.kind})")
            if f.name in ("issuperset", "issubset", "isdisjoint"):
                return self.set_relation(ctx, {"issuperset": "ge", "issubset": "le", "isdisjoint": "disjoint"}[f.name], f.recv, other)
            if f.name in ("difference", "intersection"):
                return self.set_binop(ctx, {"difference": "sub", "intersection": "and"}[f.name], f.recv, other)
            raise Unsupported(f"set.{f.name}")

        if isinstance(f, VExternal) and f.dotted.split(".")[0] in ("constdict", "list", "tuple", "str", "int", "float", "bool", "none"):
            # a method of a builtin value (a constant table, a list the hook built, a string): not an external dependency
            return super().call(ctx, f, args, kwargs)
        if isinstance(f, VExternal):
            # frame condition of a hook: it may call converter.structure and pure builtins only
            self.site.__dict__.setdefault("frame_calls", [])
            if f.dotted not in self.site.frame_calls:
                self.site.frame_calls.append(f.dotted)
        if isinstance(f, VClass) and f.name in ("str", "int") and len(args) == 1 and isinstance(args[0], VJson):
            return self.call_builtin(ctx, f.name, args, kwargs)
        return super().call(ctx, f, args, kwargs)

    def call_hook(self, ctx: Ctx, e: ast.Call, env, fi):
        # converter.structure(x, C)
        if isinstance(e.func, ast.Attribute) and e.func.attr == "structure" and len(e.args) == 2 and not e.keywords and ctx.ghost.get("try_depth", 0) > 0:
            # the obligations treat a nested structure call as returning; inside a `try` with handlers its failure is part of the hook's
            # control flow (fallback to another alternative, custom value): not modelled - the bounded stand-in decides this hook
            raise Unsupported("converter.structure inside a try block with handlers (its exceptions steer the hook)")
        if isinstance(e.func, ast.Attribute) and e.func.attr == "structure" and len(e.args) == 2 and not e.keywords:
            recv = self.eval(ctx, e.func.value, env, fi)
            if isinstance(recv, VOpaque) and recv.name == "converter":
                x = self.eval(ctx, e.args[0], env, fi)
                c = self.eval(ctx, e.args[1], env, fi)
                if isinstance(x, VJson) and isinstance(c, VClass) and c.name:
                    return VStructured(x.path, c.name)
                raise Unsupported(f"converter.structure({type(x).__name__}, {type(c).__name__})")
        return None

    def anyall_hook(self, ctx: Ctx, name: str, v: V) -> V:
        if not isinstance(v, VGen):
            raise Unsupported(f"{name} over {v}")
        e = v.node
        if len(e.generators) != 1 or e.generators[0].ifs or e.generators[0].is_async:
            raise Unsupported("generator shape")
        g = e.generators[0]
        it = force(ctx, self.eval(ctx, g.iter, v.env, v.fi))
        is_any = name == "any"

        def pred(node) -> bool:
            env2 = dict(v.env)
            self.assign(ctx, g.target, node, env2, v.fi)
            return self.truth(ctx, self.eval(ctx, e.elt, env2, v.fi))

        if isinstance(it, (VList, VTuple)):
            for item in it.items:
                t = pred(item)
                if is_any and t:
                    return VBool(TRUE)
                if not is_any and not t:
                    return VBool(FALSE)
            return VBool(FALSE if is_any else TRUE)
        if isinstance(it, VJsonKeys):
            it = VJson(it.path)
            kind = "obj"
        elif isinstance(it, VJson):
            kind = self.node_class(ctx, it)
        else:
            raise Unsupported(f"{name} over {it}")
        if kind == "obj":

            def pred_term(key) -> str:
                env2 = dict(v.env)
                self.assign(ctx, g.target, key, env2, v.fi)
                return self.truth_term(ctx, self.eval(ctx, e.elt, env2, v.fi))

            return self.keys_anyall(ctx, is_any, it.path, pred_term)
        if kind != "arr":
            raise PyRaise("TypeError", [], f"{name}() over a JSON {kind}: elements are not the values the hook expects")
        S = self.site
        ln = S.length(it.path)
        k = ctx.choose([Eq(ln, "0")] + [Eq(ln, smt.sint(i)) for i in range(1, NELEMS + 1)] + [smt.Gt(ln, smt.sint(NELEMS))])
        for i in range(min(k, NELEMS)):
            t = pred(VJson(S.elem(it.path, i)))
            if is_any and t:
                return VBool(TRUE)
            if not is_any and not t:
                return VBool(FALSE)
        if k <= NELEMS:
            return VBool(FALSE if is_any else TRUE)
        # the rest of the array: generic element [*] (universal) and witness element [w] (existential)
        S.witness_arrays.add(it.path)
        gen, wit = VJson(S.elem(it.path, "*")), VJson(S.elem(it.path, "w"))
        exists = ctx.choose([TRUE, TRUE]) == 0  # fork: some remaining element decides / none does
        if exists:
            t = pred(wit)
            if t != is_any:
                raise_inf()
            return VBool(TRUE if is_any else FALSE)
        for node in (gen, wit):
            t = pred(node)
            if t == is_any:
                raise_inf()
        return VBool(FALSE if is_any else TRUE)

    def for_hook(self, ctx: Ctx, s: ast.For, it: V, env, fi) -> bool:
        """`for x in <json array>`: arrays of up to NELEMS elements are unrolled; for longer ones the body must be a pure check (it
        only raises / returns / passes): either some element makes it exit (the witness element) or none does (generic + witness)."""
        if not isinstance(it, VJson):
            return False
        if s.orelse:
            raise Unsupported("for-else")
        names_before = set(env)
        kind = self.node_class(ctx, it)
        if kind == "scalar":
            raise PyRaise("TypeError", [], "object is not iterable")
        S = self.site
        if kind in ("obj", "str"):
            shape = self._key_search_shape(s)
            if shape is not None:
                return self._key_search_loop(ctx, s, it, shape, env, fi, kind)
        if kind != "arr":
            # iterating an object yields its keys, a string its characters: strings in both cases.  Only the case where the body leaves
            # the function on the first one is modelled (a type check that rejects the element); otherwise the subset is left.
            nonempty = S.sym(f"nonempty {it.path}", "Bool") if kind == "obj" else Not(Eq(S.s(it.path), '""'))
            if not ctx.branch(nonempty):
                return True
            self.assign(ctx, s.target, VStr(ctx.fresh("first_key_or_char", "String")), env, fi)
            self.exec_block(ctx, s.body, env, fi)
            raise Unsupported(f"for over a JSON {kind} whose body does not leave the function on the first element")
        shape = self._map_loop_shape(s, env)
        if shape is not None:
            acc, elt_expr, pre = shape
            before = set(env)

            def elt(env2):
                self.exec_block(ctx, pre, env2, fi)
                return self.eval(ctx, elt_expr, env2, fi)

            env[acc] = self.map_json_array(ctx, it, s.target, env, fi, elt)
            # names bound inside the loop would hold the last element's values afterwards: not modelled, so they must not be read
            for st in [s.target] + pre:
                for node in ast.walk(st):
                    if isinstance(node, ast.Name) and isinstance(node.ctx, ast.Store):
                        if node.id in before:
                            raise Unsupported("map loop that rebinds a name of the enclosing scope")
                        env.pop(node.id, None)
            return True
        ln = S.length(it.path)
        k = ctx.choose([Eq(ln, "0")] + [Eq(ln, smt.sint(i)) for i in range(1, NELEMS + 1)] + [smt.Gt(ln, smt.sint(NELEMS))])
        for i in range(min(k, NELEMS)):
            self.assign(ctx, s.target, VJson(S.elem(it.path, i)), env, fi)
            self.exec_block(ctx, s.body, env, fi)
        if k <= NELEMS:
            return True
        if not self._is_check_body(s.body, names_before):
            raise Unsupported("loop over a JSON array whose body is not a pure check")
        S.witness_arrays.add(it.path)
        gen, wit = VJson(S.elem(it.path, "*")), VJson(S.elem(it.path, "w"))
        exists = ctx.choose([TRUE, TRUE]) == 0
        if exists:
            self.assign(ctx, s.target, wit, env, fi)
            self.exec_block(ctx, s.body, env, fi)  # must leave the function (raise / return)
            raise_inf()
        for node in (gen, wit):
            self.assign(ctx, s.target, node, env, fi)
            try:
                self.exec_block(ctx, s.body, env, fi)
            except (PyRaise, _ReturnT):
                raise_inf()
        return True

    @staticmethod
    def _key_search_shape(s: ast.For) -> Optional[Tuple[List[ast.stmt], ast.If]]:
        """`for key in obj: <plain assignments>; if <test>: ... return / raise` - a search over the keys of a JSON object."""
        if not isinstance(s.target, ast.Name) or not s.body or not isinstance(s.body[-1], ast.If) or s.body[-1].orelse:
            return None
        ifs = s.body[-1]
        if not ifs.body or not isinstance(ifs.body[-1], (ast.Return, ast.Raise)):
            return None
        pre = list(s.body[:-1])
        for st in pre:
            if not (isinstance(st, ast.Assign) and len(st.targets) == 1 and isinstance(st.targets[0], ast.Name)):
                return None
        for node in ast.walk(ast.Module(body=pre + [ifs], type_ignores=[])):
            if isinstance(node, (ast.Break, ast.Continue, ast.For, ast.While, ast.Global, ast.Nonlocal)):
                return None
        return pre, ifs

    def _key_search_loop(self, ctx: Ctx, s: ast.For, it: "VJson", shape, env, fi, kind: str = "obj") -> bool:
        """The keys of a JSON object have no order the sender promises: the loop leaves the function at WHICHEVER present key makes the
        test true comes first in the payload, so each such key is a possible outcome (non-exclusive alternatives), and falling through
        is the outcome when no such key is present.  The test must be decided, for a key the code does not name, by comparisons with
        string literals / constant tables (those literals become the named keys)."""
        pre, ifs = shape
        S, p = self.site, it.path
        self._touch(it)
        if kind == "str":
            # a string iterates its characters: the same search, over one-character strings that occur in it
            pk = p + "#chars"

            def present(k: str) -> str:
                return smt.Contains(S.s(p), smt.sstr(k)) if len(k) == 1 else FALSE

        else:
            pk = p

            def present(k: str) -> str:
                return S.has(p, k)

        def test_for(keyval: V) -> Tuple[str, Dict[str, V]]:
            env2 = dict(env)
            self.assign(ctx, s.target, keyval, env2, fi)
            self.exec_block(ctx, pre, env2, fi)
            return self.truth_term(ctx, self.eval(ctx, ifs.test, env2, fi)), env2

        npc, ntaken = len(ctx.pc), len(ctx.taken)
        c_om, _ = test_for(VOmegaKey(OMEGA_KEY_MARK, pk))
        if c_om != FALSE or len(ctx.pc) != npc or len(ctx.taken) != ntaken:
            raise Unsupported("search over the keys of an object whose test is not decided by the literals it names")
        named = sorted(k for k in S.keys.get(pk, ()) if k != OMEGA)
        exiting: List[str] = []
        for k in named:
            t, _ = test_for(VStr(smt.sstr(k)))
            if len(ctx.pc) != npc or len(ctx.taken) != ntaken or t not in (TRUE, FALSE):
                raise Unsupported("search over the keys of an object whose test depends on more than the key")
            if t == TRUE:
                exiting.append(k)
        exiting = [k for k in exiting if present(k) != FALSE]
        conds = [present(k) for k in exiting] + [And(*[Not(present(k)) for k in exiting])]
        if len(exiting) > 1:
            S.key_order_nondet = True  # two present keys can both be "the first": the encoding is deliberately nondeterministic here
        i = ctx.choose(conds)
        if i < len(exiting):
            _, env2 = test_for(VStr(smt.sstr(exiting[i])))
            self.exec_block(ctx, ifs.body, env2, fi)  # ends in return / raise
            raise Unsupported("search loop body did not leave the function")
        for st in [s.target] + [a.targets[0] for a in pre]:
            env.pop(st.id, None)  # loop-local names hold the last key's values afterwards: not modelled
        return True

    def map_json_array(self, ctx: Ctx, it: "VJson", target: ast.expr, env, fi, elt) -> "VJsonMapped":
        """[elt(x) for x in <json array>]: the first NELEMS elements individually, every further one through the generic element `*`."""
        S = self.site
        ln = S.length(it.path)
        k = ctx.choose([Eq(ln, "0")] + [Eq(ln, smt.sint(i)) for i in range(1, NELEMS + 1)] + [smt.Gt(ln, smt.sint(NELEMS))])
        items: List[Optional[V]] = [None] * (NELEMS + 1)
        for i in range(min(k, NELEMS + 1)):
            node = VJson(S.elem(it.path, i if i < NELEMS else "*"))
            env2 = dict(env)
            self.assign(ctx, target, node, env2, fi)
            items[i] = elt(env2)
        return VJsonMapped(it.path, items)

    @staticmethod
    def _map_loop_shape(s: ast.For, env) -> Optional[Tuple[str, ast.expr, List[ast.stmt]]]:
        """`for x in xs: <local statements>; ACC.append(<expr>)` with ACC an empty list built by this call: the loop is the comprehension
        `ACC = [<expr> for x in xs]` (statements before the append are evaluated per element in a scope of their own)."""
        if not s.body:
            return None
        last = s.body[-1]
        if not (isinstance(last, ast.Expr) and isinstance(last.value, ast.Call) and isinstance(last.value.func, ast.Attribute) and last.value.func.attr == "append" and isinstance(last.value.func.value, ast.Name) and len(last.value.args) == 1 and not last.value.keywords):
            return None
        acc = last.value.func.value.id
        cur = env.get(acc)
        if not (isinstance(cur, VList) and cur.items == []):
            return None
        for st in s.body[:-1]:
            for node in ast.walk(st):
                if isinstance(node, (ast.Return, ast.Break, ast.Continue, ast.Global, ast.Nonlocal, ast.FunctionDef, ast.Lambda, ast.For, ast.While)):
                    return None
                if isinstance(node, ast.Name) and node.id == acc:
                    return None
        for node in ast.walk(last.value.args[0]):
            if isinstance(node, ast.Name) and node.id == acc:
                return None
        return acc, last.value.args[0], list(s.body[:-1])

    def _is_check_body(self, body: List[ast.stmt], env) -> bool:
        """The body has no effect unless it leaves the function: assignments go to loop-local names only, calls are pure except inside a
        block that ends in return / raise (which runs once, on the way out)."""

        def pure_expr(e: ast.AST) -> bool:
            for node in ast.walk(e):
                if isinstance(node, ast.Call) and not (self._pure_call(node) or (isinstance(node.func, ast.Attribute) and node.func.attr in ("get", "keys", "items", "values", "startswith", "endswith"))):
                    return False
                if isinstance(node, (ast.NamedExpr, ast.Await, ast.Yield, ast.YieldFrom)):
                    return False
            return True

        def ok(stmts: List[ast.stmt]) -> bool:
            for st in stmts:
                if isinstance(st, ast.Assign):
                    if not (len(st.targets) == 1 and isinstance(st.targets[0], ast.Name) and st.targets[0].id not in env and pure_expr(st.value)):
                        return False
                elif isinstance(st, ast.If):
                    if not pure_expr(st.test):
                        return False
                    for blk in (st.body, st.orelse):
                        if blk and isinstance(blk[-1], (ast.Return, ast.Raise)):
                            continue  # leaves the function: whatever it calls happens once
                        if not ok(blk):
                            return False
                elif isinstance(st, (ast.Raise, ast.Return, ast.Pass)):
                    continue
                elif isinstance(st, ast.Expr):
                    if not pure_expr(st.value):
                        return False
                elif isinstance(st, ast.Assert):
                    if not pure_expr(st.test):
                        return False
                else:
                    return False
            return True

        return ok(body)

    @staticmethod
    def _pure_call(node: ast.Call) -> bool:
        f = node.func
        return isinstance(f, ast.Name) and f.id in ("isinstance", "len", "ValueError", "TypeError", "KeyError", "str", "int", "bool", "float", "repr", "type")

    def expr_hook(self, ctx: Ctx, e: ast.expr, env, fi):
        if isinstance(e, ast.GeneratorExp):
            return VGen(e, dict(env), fi)
        if isinstance(e, ast.Set):
            c = self._const_keys(ctx, VList([self.eval(ctx, x, env, fi) for x in e.elts]))
            if c is None:
                raise Unsupported("set display with a non-literal element")
            return VKeySet(c)
        if isinstance(e, ast.ListComp):
            if len(e.generators) != 1 or e.generators[0].ifs or e.generators[0].is_async:
                raise Unsupported("comprehension shape")
            g = e.generators[0]
            it = force(ctx, self.eval(ctx, g.iter, env, fi))
            if isinstance(it, VJson):
                kind = self.node_class(ctx, it)
                if kind in ("obj", "str"):
                    # iterating a dict yields its keys, a str its characters: an empty one gives [], otherwise the elements
                    # are strings the hook does not expect (structuring them raises downstream)
                    S0 = self.site
                    nonempty = S0.sym(f"nonempty {it.path}", "Bool") if kind == "obj" else Not(Eq(S0.s(it.path), '""'))
                    if ctx.branch(nonempty):
                        raise PyRaise("TypeError", [], f"comprehension over a non-empty JSON {kind}: elements are not the values the hook expects")
                    return VList([])
                if kind != "arr":
                    raise PyRaise("TypeError", [], f"comprehension over a JSON {kind}")

                def elt(env2):
                    return self.eval(ctx, e.elt, env2, fi)

                return self.map_json_array(ctx, it, g.target, env, fi, elt)
            if isinstance(it, (VList, VTuple)):
                out = []
                for item in it.items:
                    env2 = dict(env)
                    self.assign(ctx, g.target, item, env2, fi)
                    out.append(self.eval(ctx, e.elt, env2, fi))
                return VList(out)
            raise Unsupported("comprehension over non-json")
        return None

    def getattr(self, ctx: Ctx, v: V, name: str) -> V:
        if isinstance(v, VOpaque):
            return VOpaque(f"{v.name}.{name}")
        if isinstance(v, (VKeySet, VJsonKeys)):
            if name in ("issuperset", "issubset", "isdisjoint", "difference", "intersection"):
                return VSetMethod(v, name)
            raise Unsupported(f"set.{name}")
        if isinstance(v, VJson):
            if name in ("get", "keys"):
                return VJsonMethod(name, v.path)
            raise PyRaise("AttributeError", [], f"JSON value has no attribute {name}")
        return super().getattr(ctx, v, name)

    def format_value(self, ctx: Ctx, v: V, conv: int = -1) -> str:
        if isinstance(v, VJson):
            return self.site.sym(f"pystr {v.path}", "String")
        return super().format_value(ctx, v, conv)
