"""Relational contract of the rust plugin's `generate_property` (C07, used by C06 on evolved models): for every property
definition the emitted field

  * is declared `pub <ident>: <T>,` with T exactly what `get_type_name` returns **for this property's type and this property's
    `optional` mark** (so the Option rule of get_type_name is the one applied: a caller that forgets to hand over `optional`
    is refuted),
  * either carries an explicit `#[serde(rename = "<metamodel name>"...)]` (any identifier), or has no rename and the identifier
    `to_snake_case(name)` — whose camelCase image under the struct-level `rename_all` is the metamodel name (assumed:
    table-checked on every committed name by C07) — which then must not be a Rust keyword,
  * and never carries a rename to anything but the metamodel name.

Callees by contract: `get_type_name` is an uninterpreted function of (type, truthiness of optional); `to_snake_case` an
uninterpreted function; `_get_doc` lines start with `///`; `generate_extras` lines are `#[cfg(` / `#[deprecated` lines
(proved separately for the gate, assumed here); `is_special_property` by the contract proved in the same run."""
from __future__ import annotations

import os

from pyvc import smt, vc as _vc
from pyvc.smt import And, Eq, FALSE, Not, Or, TRUE
from pyvc.symex import ClassInfo, Contract, FieldSpec, FunctionInfo, SReturn, VBool, VFunc, VList, VStr, force
from contracts import genhelpers as gh

REL = gh.RUST_REL
LABEL = f"{REL}::generate_property"

ASSUMED = [
    "rust get_type_name is a function of the type definition and of `optional or is_special(type)` (its Option rule is checked on every field of lib.rs by the item table, and on evolved models by C06)",
    "rust to_snake_case is a function str -> str (its camelCase image is table-checked on every committed name)",
    "rust _get_doc returns lines starting with '///'",
]


DISCHARGED = [
    "rust is_special / is_special_property: null-admitting `or` / `tuple` (contracts/genhelpers.rust_special_items)",
    "rust generate_extras returns only the proposed gate and #[deprecated...] lines (contracts/genhelpers.rust_extras_item)",
]

RUST_KW = "as break const continue crate else enum extern false fn for if impl in let loop match mod move mut pub ref return self static struct super trait true type unsafe use where while async await dyn abstract become box do final macro override priv typeof unsized virtual yield try".split()


def _prefix(p: str, s: str) -> str:
    return f"(str.prefixof {p} {s})"


def build():
    world, interp = gh.typed_world(REL)
    world.classes["Property"] = ClassInfo(
        "Property",
        {"name": FieldSpec(["str"]), "type": FieldSpec([("obj", "TypeDef")]), "optional": FieldSpec(["none", "bool"]), "documentation": FieldSpec(["none", "str"])},
        {},
    )
    ns = world.namespaces["mod"]
    world.declare_global("(declare-fun uf_to_snake_case (String) String)")
    world.declare_global("(declare-fun uf_rust_type_name (Int Bool) String)")
    world.declare_global("(declare-fun uf_is_special (Int) Bool)")

    def ext(name, params, spec, note):
        q = f"assumed::{name}"
        world.functions[q] = FunctionInfo(q, None, Contract(name, params, lambda c, a: TRUE, spec, note), "", "mod")
        ns[name] = VFunc(q)

    def s_type_name(c, a):
        t = force(c, a["type_def"])
        opt = interp.truth_term(c, a["optional"]) if "optional" in a else FALSE
        # get_type_name wraps in Option when `optional` is truthy or the type itself is null-admitting (its own rule, assumed): the result
        # depends on the type and on that disjunction only, so a caller may hand over `optional` or `optional or is_special(type)`
        return SReturn(VStr(f"(uf_rust_type_name {t.oid} {Or(opt, f'(uf_is_special {t.oid})')})"))

    def s_doc(c, a):
        g = c.declare("docline", "String")
        c.assume(_prefix(smt.sstr("///"), g))
        return SReturn(VList([VStr(g)]))

    def s_extras(c, a):
        g = c.declare("extraline", "String")
        c.assume(Or(_prefix(smt.sstr("#[cfg("), g), _prefix(smt.sstr("#[deprecated"), g)))
        return SReturn(VList([VStr(g)]))

    ext("to_snake_case", [("name", ["str"])], lambda c, a: SReturn(VStr(f"(uf_to_snake_case {force(c, a['name']).t})")), ASSUMED[1])
    ext("get_type_name", [("type_def", [("obj", "TypeDef")]), ("types", ["other"]), ("spec", ["other"]), ("optional", ["none", "bool"]), ("name_context", ["none", "str"])], s_type_name, ASSUMED[0])
    ext("_get_doc", [("doc", ["none", "str"])], s_doc, ASSUMED[2])
    ext("generate_extras", [("type_def", ["other"])], s_extras, DISCHARGED[1])
    fp = world.functions.get(f"{REL}::is_special_property")
    if fp is not None:
        fp.contract = Contract("is_special_property", [("prop_def", [("obj", "Property")])], lambda c, a: TRUE, lambda c, a: SReturn(VBool(f"(uf_is_special {force(c, interp.getattr(c, a['prop_def'], 'type')).oid})")), "is_special of the property's type")
    fs = world.functions.get(f"{REL}::is_special")
    if fs is not None:
        fs.contract = Contract("is_special", [("type_def", [("obj", "TypeDef")])], lambda c, a: TRUE, lambda c, a: SReturn(VBool(f"(uf_is_special {force(c, a['type_def']).oid})")), "null-admitting `or` / `tuple` (proved separately in the same run)")
    return world, interp


def report():
    world, interp = build()
    fi = world.functions.get(LABEL)
    if fi is None:
        return world, None
    # strict, reserved and 2018+ keywords of the Rust reference (lower-case ones: the identifier is a snake_case name) — stated here,
    # not read from the plugin's RUST_KEYWORDS, so that a shortened list is refuted
    keywords = [smt.sstr(k) for k in RUST_KW]

    def post(c, a, impl):
        if impl[0] != "return":
            return FALSE
        r = force(c, impl[1])
        if not isinstance(r, VList):
            return FALSE
        items = [force(c, x) for x in r.items]
        if not all(isinstance(x, VStr) for x in items):
            return FALSE
        p = a["prop_def"]
        pname = force(c, interp.getattr(c, p, "name")).t
        opt = interp.truth_term(c, interp.getattr(c, p, "optional"))
        t = force(c, interp.getattr(c, p, "type"))
        want_type = f"(uf_rust_type_name {t.oid} {Or(opt, f'(uf_is_special {t.oid})')})"
        snake = f"(uf_to_snake_case {pname})"
        is_kw = Or(*[Eq(snake, k) for k in keywords])
        field = smt.Concat(smt.sstr("pub "), snake, smt.sstr(": "), want_type, smt.sstr(","))
        tail = smt.Concat(smt.sstr(": "), want_type, smt.sstr(","))
        pubs = [_prefix(smt.sstr("pub "), x.t) for x in items]
        has_field = Or(*pubs)
        typed = And(*[smt.Implies(pb, f"(str.suffixof {tail} {x.t})") for pb, x in zip(pubs, items)])
        plain = And(*[smt.Implies(pb, Eq(x.t, field)) for pb, x in zip(pubs, items)])
        rename = smt.Concat(smt.sstr('rename = "'), pname, smt.sstr('"'))
        serde = [_prefix(smt.sstr("#[serde("), x.t) for x in items]
        has_rename = Or(*[And(sd, smt.Contains(x.t, rename)) for sd, x in zip(serde, items)])
        wrong_rename = Or(*[And(sd, smt.Contains(x.t, smt.sstr("rename = ")), Not(smt.Contains(x.t, rename))) for sd, x in zip(serde, items)])
        # serde name = explicit rename (must be the metamodel name) or, without one, the identifier: then it must be to_snake_case(name) and no keyword
        return And(has_field, typed, Not(wrong_rename), Or(has_rename, And(plain, Not(is_kw))))

    params = [("prop_def", [("obj", "Property")]), ("types", ["other"]), ("spec", ["other"])]
    rep = _vc.generate_post(world, interp, fi, params, lambda c, a: TRUE, post, LABEL)
    return world, rep


def native_replay(model):
    """Run the real generate_property on a small grid of property definitions with get_type_name replaced by a recorder."""
    import importlib
    import sys
    from types import SimpleNamespace as NS

    repo = os.environ.get("VERIF_REPO", "/repo")
    if repo not in sys.path:
        sys.path.insert(0, repo)
    for m in [m for m in list(sys.modules) if m == "generator" or m.startswith("generator.")]:
        f = getattr(sys.modules[m], "__file__", "") or ""
        if not f.startswith(repo + os.sep):
            del sys.modules[m]
    mod = importlib.import_module("generator.plugins.rust.rust_commons")
    fails = []
    saved = mod.get_type_name
    for name, ident, kw in (("range", "range", False), ("textDocument", "text_document", False), ("type", "type_", True), ("async", "async_", True), ("match", "match_", True)):
        for optional in (None, False, True):
            t = NS(kind="reference", name="Range", value="", items=[])
            prop = NS(name=name, type=t, optional=optional, documentation=None, since=None, proposed=None, deprecated=None, sinceTags=None)
            seen = {}

            def fake(type_def, types, spec, optional=None, name_context=None, _seen=seen):
                _seen["optional"] = optional
                return "Option<VerifT>" if optional else "VerifT"

            mod.get_type_name = fake
            try:
                lines = mod.generate_property(prop, None, None)
            except Exception as e:  # noqa
                fails.append({"name": name, "optional": optional, "observed": f"raises {type(e).__name__}: {e}"})
                continue
            finally:
                mod.get_type_name = saved
            want = f"pub {ident}: {'Option<VerifT>' if optional else 'VerifT'},"
            pubs = [ln for ln in lines if ln.startswith("pub ")]
            ren = [ln for ln in lines if ln.startswith("#[serde(") and "rename" in ln]
            tail = f": {'Option<VerifT>' if optional else 'VerifT'},"
            ok = len(pubs) == 1 and pubs[0].endswith(tail) and all(f'rename = "{name}"' in ln for ln in ren) and (bool(ren) or (pubs == [want] and not kw))
            if not ok:
                fails.append({"name": name, "optional": optional, "lines": lines, "expected_field": want, "expected_rename": kw})
    return fails
