"""Contracts for the omit rule: _hooks._omit and types.is_special_property (C10, C02)."""
from __future__ import annotations

import ast
import os

from pyvc import smt
from pyvc.smt import Not, TRUE
from pyvc.symex import Contract, Ctx, FunctionInfo, Interp, SReturn, VBool, VClass, VModule, VStr, VTable, force
from pyvc.loader import REPO, new_world, read_ast, find_function

TYPES_REL = "packages/python/lsprotocol/types.py"
HOOKS_REL = "packages/python/lsprotocol/_hooks.py"


def sym_class(ctx: Ctx, name: str):
    return VClass(None, ctx.declare(f"{name}.cid", "Int"))


def member_term(world, interp, ctx, cls, prop) -> str:
    world.declare_global("(declare-fun member__SPECIAL_PROPERTIES (String) Bool)")
    nm = interp.getattr(ctx, cls, "__name__")
    return f"(member__SPECIAL_PROPERTIES {smt.Concat(nm.t, smt.sstr('.'), force(ctx, prop).t)})"


def build(live):
    world = new_world()
    interp = Interp(world)
    ttree = read_ast(os.path.join(REPO, TYPES_REL))
    fn = None
    table = None
    for node in ttree.body:
        if isinstance(node, ast.FunctionDef) and node.name == "is_special_property":
            fn = node
        if isinstance(node, ast.Assign) and isinstance(node.targets[0], ast.Name) and node.targets[0].id == "_SPECIAL_PROPERTIES":
            try:
                table = ast.literal_eval(node.value)
            except Exception:
                table = None
    world.namespaces["types"] = {"_SPECIAL_PROPERTIES": VTable("_SPECIAL_PROPERTIES", table)}
    items = []
    isp_contract = Contract(
        "is_special_property",
        [("cls", sym_class), ("property_name", ["str"])],
        lambda ctx, a: TRUE,
        lambda ctx, a: SReturn(VBool(member_term(world, interp, ctx, a["cls"], a["property_name"]))),
        'returns  f"{cls.__name__}.{property_name}" in _SPECIAL_PROPERTIES',
    )
    if fn is not None:
        fi = FunctionInfo(f"{TYPES_REL}::is_special_property", fn, None, TYPES_REL, "types")
        world.functions[fi.qualname] = fi
        items.append((fi, isp_contract, fi.qualname))
    # _omit: nested in _register_custom_property_hooks; calls lsp_types.is_special_property by contract
    htree = read_ast(os.path.join(REPO, HOOKS_REL))
    try:
        omit = find_function(htree, "_register_custom_property_hooks._omit")
    except KeyError:
        omit = None
    world.functions[f"{TYPES_REL}::is_special_property#contract"] = FunctionInfo("isp", None, isp_contract, TYPES_REL, "types")
    from pyvc.symex import VFunc

    world.namespaces["typesmod"] = {"is_special_property": VFunc(f"{TYPES_REL}::is_special_property#contract")}
    world.namespaces["hooks"] = {"lsp_types": VModule("typesmod")}
    if omit is not None:
        fo = FunctionInfo(f"{HOOKS_REL}::_register_custom_property_hooks._omit", omit, None, HOOKS_REL, "hooks")
        oc = Contract(
            "_omit",
            [("cls", sym_class), ("prop", ["str"])],
            lambda ctx, a: TRUE,
            lambda ctx, a: SReturn(VBool(Not(member_term(world, interp, ctx, a["cls"], a["prop"])))),
            "omit_if_default  <=>  the qualified attribute name is not in the special table",
        )
        items.append((fo, oc, fo.qualname))
    return world, interp, items, table
