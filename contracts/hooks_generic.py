"""The generic union-handler contract (DESIGN.md section 4) and the discovery of union use sites.

For every union position of every generated class the *effective* handler is looked up on a live
converter; hand-written hooks are verified from their real ast node, cattrs' default disambiguators
from the decision list read out of the live closure, missing handlers are C14 violations.
"""
from __future__ import annotations

import ast
import inspect
import logging
import json
import os
import typing
from dataclasses import dataclass, field
from typing import Any, Callable, Dict, List, Optional, Set, Tuple

from contracts.jsonsym import (
    NELEMS,
    OMEGA,
    HookInterp,
    Site,
    Validity,
    VJson,
    VJsonMapped,
    VStructured,
    type_key,
)
from oracle.metamodel import MetaModel
from oracle.pairing import Decl, all_class_decls
from pyvc import smt
from pyvc.loader import REPO, new_world, read_ast
from pyvc.smt import And, Eq, Implies, Not, Or, TRUE, FALSE
from pyvc.symex import VFunc
from pyvc.symex import (
    Ctx,
    FunctionInfo,
    Path,
    PyRaise,
    Unsupported,
    V,
    VBool,
    VClass,
    VFloat,
    VInt,
    VList,
    VModule,
    VNone,
    VOpaque,
    VStr,
    VTuple,
    World,
    _Return,
    explore,
    force,
)
from pyvc.vc import Obligation

HOOKS_REL = "packages/python/lsprotocol/_hooks.py"
NoneType = type(None)


# ---------------------------------------------------------------------------------------------
# use-site discovery
# ---------------------------------------------------------------------------------------------


@dataclass
class UnionSite:
    annotation: Any
    tau: Dict
    optional: bool
    where: List[str]
    handler: Any = None
    handler_kind: str = ""  # hook | default_dis | missing | native:<name>
    handler_name: str = ""
    error: str = ""

    @property
    def key(self) -> str:
        return f"{self.handler_name}@{type_key(self.tau)}{'?' if self.optional else ''}"


def strip_null(mm: MetaModel, t: Dict) -> Dict:
    if t["kind"] == "or":
        items = [i for i in t["items"] if not (i["kind"] == "base" and i["name"] == "null")]
        if len(items) == 1:
            return items[0]
        return {"kind": "or", "items": items}
    return t


def discover_sites(live, mm: MetaModel, decls: Optional[List[Decl]] = None) -> Tuple[List[UnionSite], List[str]]:
    conv = live.converter
    sites: Dict[Tuple[str, str, bool, str], UnionSite] = {}
    problems: List[str] = []
    hooks_file = os.path.join(REPO, HOOKS_REL)

    def classify(ann) -> Tuple[Any, str, str, str]:
        try:
            h = conv._structure_func.dispatch(ann)
        except Exception as e:  # noqa
            return None, "missing", "dispatch-error", f"{type(e).__name__}: {e}"
        import functools as _ft

        target = h
        if isinstance(h, _ft.partial) and not h.keywords and inspect.isfunction(h.func):
            target = h.func  # a hook with its leading arguments bound (functools.partial): the function below, called with those arguments first
        code = getattr(target, "__code__", None)
        fn = code.co_filename if code else ""
        qn = getattr(target, "__qualname__", repr(h))
        if fn and os.path.abspath(fn) == hooks_file:
            return h, "hook", qn.replace(".<locals>", "") + ("" if target is h else "[partial]"), ""
        if qn.endswith("raise_error"):
            return h, "missing", "raise_error", "no structure handler registered for this union"
        if qn.endswith("structure_attrs_union"):
            return h, "default_dis", "cattrs.default_disambiguator", ""
        if qn.endswith("_structure_optional"):
            return h, "native:optional", qn, ""
        return h, f"native:{qn}", qn, ""

    def walk(ann, t: Dict, optional: bool, loc: str, depth: int = 0):
        if depth > 12:
            return
        origin = typing.get_origin(ann)
        if origin is typing.Union:
            h, kind, name, err = classify(ann)
            if kind == "native:optional":
                inner = [a for a in typing.get_args(ann) if a is not NoneType]
                if len(inner) == 1:
                    walk(inner[0], strip_null(mm, mm.resolve_alias(t)) if mm.null_admitting(mm.resolve_alias(t)) else t, False, loc, depth + 1)
                    return
            k = (name, type_key(t), optional, repr(ann))
            if k not in sites:
                sites[k] = UnionSite(ann, t, optional, [], h, kind, name, err)
            sites[k].where.append(loc)
            return
        tt = mm.resolve_alias(t)
        if origin in (typing.Sequence, list, tuple) or (origin is not None and getattr(origin, "__name__", "") in ("Sequence", "list", "List")):
            args = typing.get_args(ann)
            if tt["kind"] == "array" and args:
                walk(args[0], tt["element"], False, loc + "[]", depth + 1)
            elif tt["kind"] == "tuple":
                for a, it in zip(args, tt["items"]):
                    walk(a, it, False, loc + "()", depth + 1)
            return
        if origin in (dict, typing.Dict) or getattr(origin, "__name__", "") in ("dict", "Dict"):
            args = typing.get_args(ann)
            if tt["kind"] == "map" and len(args) == 2:
                walk(args[1], tt["value"], False, loc + "{}", depth + 1)
            return
        if origin is tuple or getattr(origin, "__name__", "") in ("tuple", "Tuple"):
            if tt["kind"] == "tuple":
                for a, it in zip(typing.get_args(ann), tt["items"]):
                    walk(a, it, False, loc + "()", depth + 1)
            return

    for d in decls or all_class_decls(mm):
        cls = getattr(live.types, d.pyname, None)
        if cls is None or not live.attrs.has(cls):
            problems.append(f"class {d.pyname} missing")
            continue
        by_wire = {}
        for a in live.attrs.fields(cls):
            by_wire[live.wire_name(cls, a.name) or a.name] = a
        for p in d.props:
            a = by_wire.get(p["name"])
            if a is None:
                continue
            if isinstance(a.type, (str, typing.ForwardRef)):
                problems.append(f"{d.pyname}.{a.name}: unresolved annotation {a.type!r}")
                continue
            optional = bool(p.get("optional")) or bool(p.get("_absent"))
            walk(a.type, p["type"], optional, f"{d.pyname}.{a.name}")
    return list(sites.values()), problems


# ---------------------------------------------------------------------------------------------
# handler source
# ---------------------------------------------------------------------------------------------


class HookSources:
    def __init__(self):
        self.path = os.path.join(REPO, HOOKS_REL)
        self.tree = read_ast(self.path)
        self.by_line: Dict[int, List[ast.AST]] = {}
        for node in ast.walk(self.tree):
            if isinstance(node, (ast.FunctionDef, ast.Lambda)):
                self.by_line.setdefault(node.lineno, []).append(node)

    def node_for(self, fn) -> Optional[ast.AST]:
        code = fn.__code__
        cands = self.by_line.get(code.co_firstlineno, [])
        want_lambda = code.co_name == "<lambda>"
        cands = [c for c in cands if isinstance(c, ast.Lambda) == want_lambda and (want_lambda or c.name == code.co_name)]
        if len(cands) == 1:
            return cands[0]
        # decorated defs: co_firstlineno is the decorator line
        for node in ast.walk(self.tree):
            if isinstance(node, ast.FunctionDef) and node.name == code.co_name and node.decorator_list and node.decorator_list[0].lineno == code.co_firstlineno:
                return node
        return None


def default_dis_source(site: UnionSite) -> Tuple[Optional[str], Dict[str, Any]]:
    """Decision list of cattrs' default disambiguator, read from the live closure, as a Python function."""
    h = site.handler
    cv = inspect.getclosurevars(h)
    dis = cv.nonlocals.get("dis_fn")
    has_none = NoneType in typing.get_args(site.annotation)
    if dis is None:
        return None, {"error": "dis_fn not found in closure"}
    dv = inspect.getclosurevars(dis).nonlocals
    lines = ["def _default_disambiguator(object_, _):"]
    if has_none:
        lines += ["    if object_ is None:", "        return None"]
    lines += ["    if not isinstance(object_, dict):", "        raise ValueError('Only input mappings are supported')"]
    info: Dict[str, Any] = {}
    if "uniq_attrs_dict" in dv:
        for k, cls in dv["uniq_attrs_dict"].items():
            lines += [f"    if {k!r} in object_:", f"        return converter.structure(object_, lsp_types.{cls.__name__})"]
        fb = dv.get("fallback")
        if fb is not None:
            lines += [f"    return converter.structure(object_, lsp_types.{fb.__name__})"]
        else:
            lines += ["    raise ValueError(\"Couldn't disambiguate\")"]
        info = {"uniq_attrs": {k: v.__name__ for k, v in dv["uniq_attrs_dict"].items()}, "fallback": getattr(fb, "__name__", None)}
    elif "final_mapping" in dv:
        disc = dv["best_discriminator"]
        # the literal field name is the python attribute name; the hook reads data[<name>] directly
        for val, cls in dv["final_mapping"].items():
            if not isinstance(cls, type):
                return None, {"error": "literal mapping to a nested union"}
            lines += [f"    if object_[{disc!r}] == {val!r}:", f"        return converter.structure(object_, lsp_types.{cls.__name__})"]
        lines += ["    raise KeyError('unknown discriminator value')"]
        info = {"discriminator": disc, "mapping": {repr(k): v.__name__ for k, v in dv["final_mapping"].items() if isinstance(v, type)}}
    else:
        return None, {"error": "unrecognised disambiguator closure"}
    return "\n".join(lines) + "\n", info


# ---------------------------------------------------------------------------------------------
# verification of one site
# ---------------------------------------------------------------------------------------------


@dataclass
class SiteResult:
    site: UnionSite
    label: str
    obligations: List[Obligation] = field(default_factory=list)
    unsupported: Optional[str] = None
    static_failures: List[Tuple[str, str]] = field(default_factory=list)  # (obligation kind, message)
    paths: int = 0
    sym: Optional[Site] = None
    validity: Optional[Validity] = None
    source: str = ""
    extra: Dict[str, Any] = field(default_factory=dict)


def build_hook_world(live) -> World:
    world = new_world()
    tns: Dict[str, V] = {}
    for name in dir(live.types):
        obj = getattr(live.types, name)
        if isinstance(obj, type):
            tns[name] = VClass(name, world.class_id(name))
    world.namespaces["types"] = tns
    hns: Dict[str, V] = {"lsp_types": VModule("types"), "attrs": VModule("attrs"), "cattrs": VModule("cattrs"), "sys": VModule("sys")}
    # module-level names of the live _hooks module: sibling modules of the package expose their plain constants
    # (e.g. validators.UINTEGER_MAX_VALUE), plain constants are themselves
    import sys as _sys
    import types as _types

    hm = _sys.modules.get("lsprotocol._hooks")
    for name, obj in (vars(hm).items() if hm is not None else []):
        if name in hns or name.startswith("__"):
            continue
        if isinstance(obj, _types.ModuleType) and obj.__name__.startswith("lsprotocol.") and obj is not live.types:
            mns: Dict[str, V] = {}
            for k, v in vars(obj).items():
                cv = _closure_value(world, v) if not k.startswith("__") else None
                if cv is not None:
                    mns[k] = cv
            short = obj.__name__.split(".")[-1]
            world.namespaces[f"pkg.{short}"] = mns
            hns[name] = VModule(f"pkg.{short}")
        elif isinstance(obj, logging.Logger):
            hns[name] = VOpaque("<logger>")
        else:
            cv = _closure_value(world, obj)
            if cv is not None and not isinstance(obj, type):
                hns[name] = cv
    # module-level helper functions of _hooks.py are executed (inlined) when a hook calls them; the registration functions are not helpers
    try:
        tree = read_ast(os.path.join(REPO, HOOKS_REL))
        for node in tree.body:
            if isinstance(node, ast.FunctionDef) and not node.name.startswith("_register") and node.name not in ("register_hooks", "_resolve_forward_references") and node.name not in hns:
                q = f"{HOOKS_REL}::{node.name}"
                world.functions[q] = FunctionInfo(q, node, None, HOOKS_REL, "hooks", inline=True)
                hns[node.name] = VFunc(q)
    except (OSError, SyntaxError):
        pass
    world.namespaces["hooks"] = hns
    return world


def class_decl_props(mm: MetaModel, decl_by_name: Dict[str, Decl], cname: str) -> Optional[List[Dict]]:
    d = decl_by_name.get(cname)
    return d.props if d is not None else None


def array_element_type(mm: MetaModel, tau: Dict) -> Optional[Dict]:
    """Union of the element types of the array alternatives of tau (None if it has none)."""
    elems: List[Dict] = []

    def visit(t, depth=0):
        t = mm.resolve_alias(t)
        if t["kind"] == "array":
            elems.append(t["element"])
        elif t["kind"] == "or" and depth < 6:
            for it in t["items"]:
                visit(it, depth + 1)
        elif t["kind"] == "reference" and t["name"] in ("LSPArray", "LSPAny"):
            elems.append({"kind": "reference", "name": "LSPAny"})

    visit(tau)
    if not elems:
        return None
    if len(elems) == 1:
        return elems[0]
    return {"kind": "or", "items": elems}


def tuple_alternative(mm: MetaModel, tau: Dict, n: int) -> Optional[Dict]:
    def visit(t, depth=0):
        t = mm.resolve_alias(t)
        if t["kind"] == "tuple" and len(t["items"]) == n:
            return t
        if t["kind"] == "or" and depth < 6:
            for it in t["items"]:
                r = visit(it, depth + 1)
                if r:
                    return r
        return None

    return visit(tau)


def any_like(mm: MetaModel, sym: Site, tau: Dict, p: str) -> str:
    outs = []

    def visit(t, depth=0):
        if t["kind"] == "reference":
            if t["name"] == "LSPAny":
                outs.append(TRUE)
            elif t["name"] == "LSPObject":
                outs.append(Eq(sym.tag(p), "6"))
            elif t["name"] == "LSPArray":
                outs.append(Eq(sym.tag(p), "5"))
            elif t["name"] in mm.aliases and depth < 6:
                visit(mm.aliases[t["name"]]["type"], depth + 1)
        elif t["kind"] == "or" and depth < 6:
            for it in t["items"]:
                visit(it, depth + 1)
        elif t["kind"] == "literal" and not t["value"]["properties"]:
            outs.append(TRUE)  # empty literal maps to Any

    visit(tau)
    return Or(*outs)


def raw_type(mm: MetaModel, t: Dict, depth: int = 0) -> bool:
    """Types whose typed Python value *is* the raw JSON value (no class anywhere inside)."""
    k = t["kind"]
    if depth > 10:
        return False
    if k in ("base", "stringLiteral"):
        return True
    if k == "reference":
        n = t["name"]
        if n in ("LSPAny", "LSPObject", "LSPArray") or n in mm.enumerations:
            return True
        if n in mm.aliases:
            return raw_type(mm, mm.aliases[n]["type"], depth + 1)
        return False
    if k == "array":
        return raw_type(mm, t["element"], depth + 1)
    if k == "map":
        return raw_type(mm, t["value"], depth + 1)
    if k in ("or", "tuple"):
        return all(raw_type(mm, it, depth + 1) for it in t["items"])
    if k == "literal":
        return not t["value"]["properties"]
    return False


def raw_container_ok(mm: MetaModel, sym: Site, tau: Dict, p: str) -> str:
    """Pass-through of a JSON array / object is a correct reading when tau has an array / map alternative of raw types."""
    outs = []

    def visit(t, depth=0):
        tt = mm.resolve_alias(t)
        if tt["kind"] == "or" and depth < 8:
            for it in tt["items"]:
                visit(it, depth + 1)
        elif tt["kind"] == "array" and raw_type(mm, tt):
            outs.append(Eq(sym.tag(p), "5"))
        elif tt["kind"] == "map" and raw_type(mm, tt):
            outs.append(Eq(sym.tag(p), "6"))

    visit(tau)
    return Or(*outs)


def classes_admitted(mm: MetaModel, tau: Dict) -> Set[str]:
    """Structure / literal class names that are alternatives of tau (through aliases, not through arrays)."""
    out: Set[str] = set()

    def visit(t, depth=0):
        if t["kind"] == "reference":
            if t["name"] in mm.structures:
                out.add(t["name"])
            elif t["name"] in mm.aliases and depth < 8:
                visit(mm.aliases[t["name"]]["type"], depth + 1)
        elif t["kind"] == "or" and depth < 8:
            for it in t["items"]:
                visit(it, depth + 1)
        elif t["kind"] == "literal" and t.get("name"):
            out.add(t["name"])

    visit(tau)
    return out


def _enum_admitted(mm: MetaModel, tau: Dict, ename: str, depth: int = 0) -> bool:
    t = tau
    if t["kind"] == "reference":
        if t["name"] == ename:
            return True
        if t["name"] in mm.aliases and depth < 8:
            return _enum_admitted(mm, mm.aliases[t["name"]]["type"], ename, depth + 1)
        return False
    if t["kind"] == "or":
        return any(_enum_admitted(mm, it, ename, depth + 1) for it in t["items"])
    return False


def closed_enums_of(mm: MetaModel, tau: Dict, depth: int = 0) -> List[str]:
    t = tau
    if t["kind"] == "reference":
        if t["name"] in mm.enumerations:
            return [] if mm.is_open_enum(t["name"]) else [t["name"]]
        if t["name"] in mm.aliases and depth < 8 and t["name"] not in ("LSPAny", "LSPObject", "LSPArray"):
            return closed_enums_of(mm, mm.aliases[t["name"]]["type"], depth + 1)
        return []
    if t["kind"] == "or":
        out: List[str] = []
        for it in t["items"]:
            out.extend(closed_enums_of(mm, it, depth + 1))
        return out
    return []


class ReadingChecker:
    def __init__(self, mm: MetaModel, sym: Site, val: Validity, decl_by_name: Dict[str, Decl]):
        self.mm, self.sym, self.val, self.decl_by_name = mm, sym, val, decl_by_name
        self.static: List[Tuple[str, str]] = []

    def correct(self, r: Optional[V], p: str, tau: Dict, strict: bool) -> str:
        """Term: reading r is a correct (strict: and loss-free) reading of node p at type tau."""
        S = self.sym
        if isinstance(r, VNone):
            return Eq(S.tag(p), "0")
        if isinstance(r, VJson):
            if r.path != p:
                self.static.append(("O1'", f"returns a different node ({r.path}) for {p}"))
                return FALSE
            scalar = Or(*[Eq(S.tag(p), str(x)) for x in (0, 1, 2, 3, 4)])
            return Or(scalar, any_like(self.mm, S, tau, p), raw_container_ok(self.mm, S, tau, p))
        if isinstance(r, VStr):
            if r.t == S.s(p):
                return Eq(S.tag(p), "4")
            self.static.append(("O1'", f"returns a computed string for {p}"))
            return FALSE
        if isinstance(r, VInt):
            if r.t == S.i(p):
                return Eq(S.tag(p), "2")
            return FALSE
        if isinstance(r, VStructured):
            if r.path != p:
                self.static.append(("O1", f"structures a different node ({r.path}) for {p}"))
                return FALSE
            if r.cls in self.mm.enumerations:
                # converter.structure(x, EnumClass) = EnumClass(x): a member, or ValueError (downstream check)
                if not _enum_admitted(self.mm, tau, r.cls):
                    self.static.append(("O1", f"structures into enum {r.cls}, which is not an alternative of the union at this position"))
                    return FALSE
                return self.val.valid({"kind": "reference", "name": r.cls}, p, strict)
            props = class_decl_props(self.mm, self.decl_by_name, r.cls)
            if props is None:
                self.static.append(("O1", f"structures into {r.cls}, which is not a class paired with a metamodel declaration"))
                return FALSE
            if r.cls not in classes_admitted(self.mm, tau):
                self.static.append(("O1", f"structures into {r.cls}, which is not an alternative of the union at this position"))
                return FALSE
            t = {"kind": "reference", "name": r.cls} if r.cls in self.mm.structures else None
            if t is None:
                return FALSE
            return self.val.valid(t, p, strict)
        if isinstance(r, VJsonMapped):
            if r.path != p:
                return FALSE
            eps = array_element_type(self.mm, tau)
            if eps is None:
                self.static.append(("O1", "returns a list where the union has no array alternative"))
                return FALSE
            cs = [Eq(S.tag(p), "5")]
            for k, item in enumerate(r.items):
                if item is not None:
                    cs.append(self.correct(item, S.elem(p, k if k < NELEMS else "*"), eps, strict))
            return And(*cs)
        if isinstance(r, (VList, VTuple)):
            if not r.items:
                return And(Eq(S.tag(p), "5"), Eq(S.length(p), "0"))
            tt = tuple_alternative(self.mm, tau, len(r.items))
            if tt is None or len(r.items) > NELEMS:
                self.static.append(("O1", f"returns a {len(r.items)}-sequence where the union has no such tuple alternative"))
                return FALSE
            cs = [Eq(S.tag(p), "5"), Eq(S.length(p), smt.sint(len(r.items)))]
            for k, (item, it) in enumerate(zip(r.items, tt["items"])):
                cs.append(self.correct(item, S.elem(p, k), it, strict))
                cs.append(self.val.valid(it, S.elem(p, k), strict))
            return And(*cs)
        self.static.append(("O1", f"unrecognised result {type(r).__name__}"))
        return FALSE


def _closure_value(world: World, val, depth: int = 0) -> Optional[V]:
    """Symbolic value of a closure cell / module-level constant: classes of lsprotocol.types, builtin types, plain constants and
    (nested) tuples / lists of those."""
    from pyvc.symex import VClass, VList, VTuple, const_value

    if isinstance(val, type) and getattr(val, "__module__", "") == "lsprotocol.types":
        return VClass(val.__name__, world.class_id(val.__name__))
    if isinstance(val, type) and val in (bool, int, str, float, list, dict, tuple, object):
        return world.namespaces["builtins"].get(val.__name__)
    if val is None or isinstance(val, (bool, int, float, str)):
        return const_value(val)
    if isinstance(val, (tuple, list)) and depth < 4:
        items = [_closure_value(world, x, depth + 1) for x in val]
        if all(i is not None for i in items):
            if isinstance(val, tuple) and type(val) is not tuple:
                fields = getattr(type(val), "_fields", None)
                if not (isinstance(fields, tuple) and len(fields) == len(items)):
                    return None  # a tuple subclass that is no NamedTuple: unknown behaviour
                return VTuple(items, names=list(fields))
            return VTuple(items) if isinstance(val, tuple) else VList(items)
    if isinstance(val, dict) and depth < 4 and all(isinstance(k, str) for k in val):
        from pyvc.symex import VConstDict

        vals = [_closure_value(world, x, depth + 1) for x in val.values()]
        if all(i is not None for i in vals):
            return VConstDict(list(zip(val.keys(), vals)))
    return None


def closure_of(world: World, sources: "HookSources", fn, depth: int = 0) -> Dict[str, V]:
    """Symbolic closure of a live hook function: what its cells hold NOW (late binding included) is what the call will see.  Cells that
    hold another function of _hooks.py (a sibling helper defined in the same registration function) become inlined functions with their
    own closures."""
    from pyvc.symex import VFunc

    closure: Dict[str, V] = {"converter": VOpaque("converter")}
    try:
        cells = list(zip(fn.__code__.co_freevars, fn.__closure__ or ()))
    except AttributeError:
        return closure
    for name, cell in cells:
        if name in closure:
            continue
        try:
            val = cell.cell_contents
        except ValueError:
            continue
        cv = _closure_value(world, val)
        if cv is None and inspect.isfunction(val) and depth < 4 and os.path.realpath(val.__code__.co_filename) == os.path.realpath(sources.path):
            node = sources.node_for(val)
            if node is not None:
                q = f"{HOOKS_REL}::closure::{val.__qualname__}@{val.__code__.co_firstlineno}"
                if q not in world.functions:
                    world.functions[q] = FunctionInfo(q, node, None, HOOKS_REL, "hooks", closure=closure_of(world, sources, val, depth + 1), inline=True)
                cv = VFunc(q)
        if cv is not None:
            closure[name] = cv
    return closure


def describe_reading(r) -> str:
    if isinstance(r, VNone):
        return "None"
    if isinstance(r, VJson):
        return f"pass-through({r.path})"
    if isinstance(r, VStructured):
        return f"structure({r.path}, {r.cls})"
    if isinstance(r, VJsonMapped):
        return "[" + ", ".join(describe_reading(i) if i is not None else "-" for i in r.items) + "]"
    if isinstance(r, (VList, VTuple)):
        return "(" + ", ".join(describe_reading(i) for i in r.items) + ")"
    if isinstance(r, VStr):
        return f"str({r.t})"
    if isinstance(r, VInt):
        return f"int({r.t})"
    return repr(r)


def verify_site(live, mm: MetaModel, world: World, sources: HookSources, decl_by_name: Dict[str, Decl], site: UnionSite) -> SiteResult:
    label = f"{site.handler_name}@{type_key(site.tau)}{'?' if site.optional else ''}"
    res = SiteResult(site, label)
    sym = Site()
    res.sym = sym
    from contracts.jsonsym import PathTyper

    sym.typer = PathTyper(mm, site.tau)
    interp = HookInterp(world, sym)
    # --- the handler's function node
    bound_args: List[V] = []
    if site.handler_kind == "hook":
        import functools as _ft

        fn_obj = site.handler
        if isinstance(fn_obj, _ft.partial):
            for a in fn_obj.args:
                cv = _closure_value(world, a)
                if cv is None:
                    res.unsupported = f"functools.partial with a bound argument outside the subset ({type(a).__name__})"
                    return res
                bound_args.append(cv)
            fn_obj = fn_obj.func
        node = sources.node_for(fn_obj)
        if node is None:
            res.unsupported = "source node of the handler not found"
            return res
        res.source = f"{HOOKS_REL}:{node.lineno}"
        closure = closure_of(world, sources, fn_obj)
        fi = FunctionInfo(f"{HOOKS_REL}::{site.handler_name}", node, None, HOOKS_REL, "hooks", closure=closure, inline=True)
    elif site.handler_kind == "default_dis":
        src, info = default_dis_source(site)
        res.extra["decision_list"] = info
        if src is None:
            res.unsupported = f"default disambiguator: {info.get('error')}"
            return res
        node = ast.parse(src).body[0]
        res.source = "cattrs.disambiguators.create_default_dis_func (decision list read from the live closure)"
        res.extra["synthesised_source"] = src
        fi = FunctionInfo(f"cattrs::default_disambiguator[{type_key(site.tau)}]", node, None, "cattrs", "hooks", closure={"converter": VOpaque("converter")}, inline=True)
    else:
        res.unsupported = f"handler kind {site.handler_kind}"
        return res

    root = VJson("j")

    def run(ctx: Ctx):
        try:
            params = [a.arg for a in fi.node.args.args]
            args: List[V] = bound_args + [root] + [VOpaque("type_arg")] * (len(params) - 1 - len(bound_args))
            rv = interp.exec_function(ctx, fi, args, {})
            return ("return", rv)
        except PyRaise as e:
            return ("raise", e.exc, e.note)

    try:
        paths = explore(world, run)
    except Unsupported as u:
        res.unsupported = str(u)
        res.extra["frame_calls"] = list(getattr(sym, "frame_calls", []))
        return res
    res.extra["frame_calls"] = list(getattr(sym, "frame_calls", []))
    res.paths = len(paths)
    val = Validity(mm, sym)
    res.validity = val
    sym.touch("j")
    tau = site.tau
    pre_strict = val.valid(tau, "j", True)
    pre_loose = val.valid(tau, "j", False)
    # NB: an explicit null at an optional, non-null-admitting position is not a metamodel-valid input
    # (least demanding reading of the quantifier); null reaches a handler only where tau admits it.
    checker = ReadingChecker(mm, sym, val, decl_by_name)
    obs: List[Obligation] = []
    path_infos = []
    for i, p in enumerate(paths):
        out = p.outcome
        pc = list(p.pc)
        if out[0] == "raise":
            desc = f"raise {out[1]} ({out[2]})"
            obs.append(_ob(f"{label}:path{i}:O0", "O0", [pre_strict] + pc, "unsat", i, p, desc))
            path_infos.append((i, p, out, None))
            continue
        r = out[1]
        desc = describe_reading(r)
        nstat = len(checker.static)
        o1 = checker.correct(r, "j", tau, False)
        o2 = checker.correct(r, "j", tau, True)
        stat = checker.static[nstat:]
        obs.append(_ob(f"{label}:path{i}:reach", "reach", [pre_strict] + pc, "sat", i, p, desc))
        obs.append(_ob(f"{label}:path{i}:O1", "O1", [pre_strict] + pc + [Not(o1)], "unsat", i, p, desc, static=[m for k, m in stat]))
        obs.append(_ob(f"{label}:path{i}:O2", "O2", [pre_strict] + pc + [o1, Not(o2)], "unsat", i, p, desc))
        # O4 (C13 rejection clause): a raw scalar of a closed enumeration's base type that the union does not admit
        # must not be passed through unchecked (no downstream validation happens on a pass-through)
        if isinstance(r, (VJson, VStr, VInt)) and (not isinstance(r, VJson) or r.path == "j"):
            for en in closed_enums_of(mm, tau):
                bt = "4" if mm.enumerations[en]["type"]["name"] == "string" else "2"
                obs.append(_ob(f"{label}:path{i}:O4:{en}", "O4", pc + [Eq(sym.tag("j"), bt), Not(pre_loose)], "unsat", i, p, f"{desc} [closed enum {en}]"))
        path_infos.append((i, p, out, r))
    # --- cover: every alternative of tau is satisfiable as a precondition (vacuity guard)
    alts = mm.resolve_alias(tau)["items"] if mm.resolve_alias(tau)["kind"] == "or" else [tau]
    for ai, alt in enumerate(alts):
        obs.append(_ob(f"{label}:cover:alt{ai}", "cover", [val.valid(alt, "j", True)], "sat", -1, None, f"alternative {type_key(alt)}"))
    # --- O3: extras never change the path / outcome (two-run obligation)
    o3 = _o3_obligations(label, sym, val, tau, site.optional, paths, path_infos)
    obs.extend(o3)
    # finalise terms
    decls_holder: List[str] = []
    common = []
    for o in obs:
        o.asserts = [sym.resolve(a) for a in o.asserts]
    axioms = [sym.resolve(a) for a in sym.axioms]
    wf = sym.wellformed()
    decls = sym.decl_lines()
    for o in obs:
        o.decls = decls
        o.asserts = [wf] + axioms + o.asserts
    res.obligations = obs
    res.static_failures = checker.static
    res.extra["paths"] = [(i, describe_reading(r) if r is not None else f"raise {out[1]}") for i, p, out, r in path_infos]
    res.extra["paths_full"] = [([sym.resolve(c) for c in p.pc], out, r) for i, p, out, r in path_infos]
    return res


def _ob(name, kind, asserts, expect, i, p: Optional[Path], desc, static=None) -> Obligation:
    meta = {"path": i, "impl": desc, "decisions": p.decisions if p else [], "static": static or []}
    return Obligation(name, kind, [], list(asserts), expect, meta)


def _rename(term: str, decls: Dict[str, str], under: Callable[[str], bool]) -> str:
    """Prime every symbol for which under(name) holds (symbols are |quoted|)."""
    out = []
    i = 0
    while i < len(term):
        if term[i] == "|":
            j = term.index("|", i + 1)
            name = term[i : j + 1]
            out.append(name[:-1] + "′|" if under(name) else name)
            i = j + 1
        elif term[i] == '"':
            j = i + 1
            while True:
                j = term.index('"', j)
                if j + 1 < len(term) and term[j + 1] == '"':
                    j += 2
                    continue
                break
            out.append(term[i : j + 1])
            i = j + 1
        else:
            out.append(term[i])
            i += 1
    return "".join(out)


def _o3_obligations(label, sym: Site, val: Validity, tau, optional, paths, path_infos) -> List[Obligation]:
    """Two runs on inputs that agree on everything except undeclared keys must end in the same outcome.

    Encoded per pair of paths with different outcomes: pre_loose(j) & pre_loose(j') & agree(j,j') & pc_i(j) & pc_k(j') unsat,
    where j' shares every symbol with j except those that live under an undeclared key (or are the presence bit of one)."""
    obs: List[Obligation] = []
    mm = val.mm
    # declared keys per node: every key some validity formula mentions there; undeclared = probed only by the code
    val_keys: Dict[str, Set[str]] = {}
    pre_loose = val.valid(tau, "j", False)
    # keys introduced so far come from (a) the hook's probes (b) validity formulas. Recompute (b) by scanning a fresh Validity.
    shadow = Site()
    shadow.touched = set(sym.touched)
    shadow.witness_arrays = set(sym.witness_arrays)
    sval = Validity(mm, shadow)
    sval.valid(tau, "j", False)
    declared = {p: set(ks) for p, ks in shadow.keys.items()}

    def undeclared_symbol(name: str) -> bool:
        body = name[1:-1]
        # presence bit of an undeclared key
        if body.startswith("has "):
            p, key = body[4:].split(" :: ", 1)
            return key == OMEGA or key not in declared.get(p, set())
        # any symbol of a node below an undeclared key
        for kind in ("tag ", "b ", "i ", "r ", "s ", "len ", "nonempty ", "nkeys ", "pystr ", "valid! ", "valid? ", "mapvalues! ", "mapvalues? ", "elemtest "):
            if body.startswith(kind):
                path = body.split(" @ ")[-1] if " @ " in body else body[len(kind) :].split(" :: ")[0]
                if kind in ("nonempty ", "nkeys ") and OMEGA in sym.keys.get(path, ()):
                    return True  # truthiness / size of an object of a declared structure type depends on its undeclared keys
                return _below_undeclared(path, declared)
        return False

    outcomes = []
    for i, p, out, r in path_infos:
        outcomes.append(("raise", out[1]) if out[0] == "raise" else ("ret", describe_reading(r)))
    # one obligation per pair of DISTINCT outcomes (paths with the same outcome are merged into a disjunction)
    groups: Dict[Tuple[str, str], List[int]] = {}
    for idx, oc in enumerate(outcomes):
        groups.setdefault(oc, []).append(idx)
    keys = list(groups)
    for a in range(len(keys)):
        for b in range(a + 1, len(keys)):
            pc_a = Or(*[And(*paths[i].pc) for i in groups[keys[a]]])
            pc_b = Or(*[And(*paths[i].pc) for i in groups[keys[b]]])
            obs.append(
                Obligation(
                    f"{label}:O3:{keys[a][1][:60]}~{keys[b][1][:60]}",
                    "O3",
                    [],
                    [pre_loose, pc_a, ("@@PRIME@@", pre_loose), ("@@PRIME@@", pc_b), ("@@PRIME@@", sym.key_axioms())],
                    "unsat",
                    {"path": groups[keys[a]][0], "other": groups[keys[b]][0], "impl": f"{keys[a]} vs {keys[b]}", "undeclared": undeclared_symbol},
                )
            )
    # primes are applied after resolution (strict slots do not occur in loose formulas, but has-sets must be final)
    for o in obs:
        und = o.meta.pop("undeclared")
        new = []
        for a in o.asserts:
            if isinstance(a, tuple):
                t = sym.resolve(a[1])
                t2 = _rename(t, sym.decls, und)
                new.append(t2)
            else:
                new.append(a)
        o.asserts = new
    # declare primed symbols
    for o in obs:
        for a in o.asserts:
            for name in _quoted(a):
                if name.endswith("′|"):
                    base = name[:-2] + "|"
                    if base in sym.decls:
                        sym.decls.setdefault(name, sym.decls[base])
    return obs


def _quoted(term: str) -> List[str]:
    out = []
    i = 0
    while i < len(term):
        if term[i] == "|":
            j = term.index("|", i + 1)
            out.append(term[i : j + 1])
            i = j + 1
        elif term[i] == '"':
            j = i + 1
            while True:
                j = term.index('"', j)
                if j + 1 < len(term) and term[j + 1] == '"':
                    j += 2
                    continue
                break
            i = j + 1
        else:
            i += 1
    return out


def _below_undeclared(path: str, declared: Dict[str, Set[str]]) -> bool:
    """True if some object-key step along `path` uses a key that is not declared at its parent."""
    # path grammar: j(.key | [k])*
    cur = "j"
    rest = path[1:]
    while rest:
        if rest.startswith("["):
            end = rest.index("]")
            cur = cur + rest[: end + 1]
            rest = rest[end + 1 :]
        elif rest.startswith("."):
            # key runs until next '.' or '[' that starts a known step; keys in LSP contain no '.' or '['
            m = 1
            while m < len(rest) and rest[m] not in ".[":
                m += 1
            key = rest[1:m]
            if key not in declared.get(cur, set()) or key == OMEGA:
                return True
            cur = cur + "." + key
            rest = rest[m:]
        else:
            break
    return False
