"""Relational contract of the .NET plugin's `generate_property` (C08, used by C06 on evolved models): for every property
definition, whatever its documentation / marks / type name, the emitted member

  * carries `[DataMember(Name = "<metamodel name>")]`,
  * is declared `public <type>? <Name> ` exactly when the property is optional or its type is an `or` with a direct
    `null` member (and without the `?` otherwise),
  * carries `NullValueHandling.Ignore` exactly when it is optional and not null-admitting,
  * and the second component of the result is the type name.

The obligations are stated for type names that are not `ImmutableArray<` / `ImmutableDictionary<` (for those the code
deliberately drops both marks: known finding 17, reported once by the item table of C08).

Callees are used by contract: `has_null_base_type` by the contract proved in the same run; `get_type_name` returns an
arbitrary string; `to_upper_camel_case` is an uninterpreted function; `get_converter` returns None or a `[JsonConverter(`
line; `get_doc` lines start with `///` (assumed — listed in the evidence); `generate_extras` lines are `[Obsolete(` / `[Proposed]` /
`[Since(` / `[Direction(` lines (proved in the same run: genhelpers.dotnet_extras_item).  Lists returned by callees are abstracted by one generic element (universal)."""
from __future__ import annotations

import os

from pyvc import smt, vc as _vc
from pyvc.smt import And, Eq, FALSE, Not, Or, TRUE
from pyvc.symex import ClassInfo, Contract, FieldSpec, FunctionInfo, Interp, SReturn, VBool, VFunc, VList, VNone, VStr, VTuple, force, new_value, dyn_range_constraint
from pyvc.loader import REPO, load_module, new_world
from contracts import genhelpers as gh

REL = gh.DOTNET_REL
LABEL = f"{REL}::generate_property"

ASSUMED = [
    "dotnet get_type_name returns a string (arbitrary)",
    "dotnet to_upper_camel_case is a function str -> str",
    "dotnet get_converter returns None or a line starting with '[JsonConverter('",
    "dotnet get_doc returns lines starting with '///'",
    "the `usings` list handed to generate_property is only appended to",
]


# callee contracts used by generate_property that are themselves proved in the same run of C08 (not assumptions)
DISCHARGED = [
    "dotnet has_null_base_type: True iff some item is the base type null (contracts/genhelpers.items_null_contract)",
    "dotnet generate_extras (elements without messageDirection) returns only '[Obsolete(' / '[Since(' / '[Direction(' lines or '[Proposed]' (contracts/genhelpers.dotnet_extras_item)",
]


def _prefix(p: str, s: str) -> str:
    return f"(str.prefixof {p} {s})"


def build():
    world, interp = gh.typed_world(REL)
    world.classes["Property"] = ClassInfo(
        "Property",
        {
            "name": FieldSpec(["str"]),
            "type": FieldSpec([("obj", "TypeDef")]),
            "optional": FieldSpec(["none", "bool"]),
            "documentation": FieldSpec(["none", "str"]),
            "since": FieldSpec(["none", "str"]),
            "proposed": FieldSpec(["none", "bool"]),
            "deprecated": FieldSpec(["none", "str"]),
        },
        {},
    )
    ns = world.namespaces["mod"]
    world.declare_global("(declare-fun uf_to_upper_camel_case (String) String)")

    def ext(name, params, spec, note):
        q = f"assumed::{name}"
        world.functions[q] = FunctionInfo(q, None, Contract(name, params, lambda c, a: TRUE, spec, note), "", "mod")
        ns[name] = VFunc(q)

    def s_upper(c, a):
        return SReturn(VStr(f"(uf_to_upper_camel_case {force(c, a['name']).t})"))

    def s_type_name(c, a):
        return SReturn(VStr(c.declare("tn", "String")))

    def s_converter(c, a):
        v = new_value(c, "conv", ["none", "str"])
        c.assume(dyn_range_constraint(c, v))
        f = force(c, v)
        if isinstance(f, VStr):
            c.assume(_prefix(smt.sstr("[JsonConverter("), f.t))
        return SReturn(f)

    def s_doc(c, a):
        g = c.declare("docline", "String")
        c.assume(_prefix(smt.sstr("///"), g))
        return SReturn(VList([VStr(g)]))

    def s_extras(c, a):
        g = c.declare("extraline", "String")
        c.assume(Or(_prefix(smt.sstr("[Obsolete("), g), _prefix(smt.sstr("[Since("), g), _prefix(smt.sstr("[Direction("), g), Eq(g, smt.sstr("[Proposed]"))))
        return SReturn(VList([VStr(g)]))

    ext("to_upper_camel_case", [("name", ["str"])], s_upper, ASSUMED[1])
    ext("get_type_name", [("type_def", ["other"]), ("types", ["other"]), ("spec", ["other"]), ("name_context", ["str"])], s_type_name, ASSUMED[0])
    ext("get_converter", [("type_def", ["other"]), ("type_name", ["str"])], s_converter, ASSUMED[2])
    ext("get_doc", [("doc", ["none", "str"])], s_doc, ASSUMED[3])
    ext("generate_extras", [("type_def", ["other"])], s_extras, DISCHARGED[1])
    # has_null_base_type: by its contract (proved by C08 in the same run)
    fn = world.functions.get(f"{REL}::has_null_base_type")
    if fn is not None:
        # the caller sees the callee's result as the abstract predicate `some item is the base type null` of the property's item list
        fn.contract = Contract("has_null_base_type", [("items", [("symlist", "TypeDef")])], lambda c, a: TRUE, lambda c, a: SReturn(VBool(c.declare("items_have_null", "Bool"))), "True iff some item is the base type `null`")
    return world, interp


def report():
    world, interp = build()
    fi = world.functions.get(LABEL)
    if fi is None:
        return world, None

    def usings(ctx, name):
        lst = VList([])
        ctx.ghost.setdefault("own_lists", {})[id(lst)] = lst
        return lst

    def pre(c, a):
        return TRUE

    def post(c, a, impl):
        if impl[0] != "return":
            return FALSE
        r = force(c, impl[1])
        if not isinstance(r, VTuple) or len(r.items) != 2:
            return FALSE
        lines = force(c, r.items[0])
        tname = force(c, r.items[1])
        if not isinstance(lines, VList) or not isinstance(tname, VStr):
            return FALSE
        items = [force(c, x) for x in lines.items]
        if not all(isinstance(x, VStr) for x in items):
            return FALSE
        tn = c.declare("tn", "String")
        p = a["prop_def"]
        pname = force(c, interp.getattr(c, p, "name")).t
        opt = interp.truth_term(c, interp.getattr(c, p, "optional"))
        kind = force(c, interp.getattr(c, interp.getattr(c, p, "type"), "kind")).t
        special = And(Eq(kind, smt.sstr("or")), c.declare("items_have_null", "Bool"))
        imm = Or(_prefix(smt.sstr("ImmutableArray<"), tn), _prefix(smt.sstr("ImmutableDictionary<"), tn))
        # the member's C# name is the generator's rule (jsonrpc -> JsonRPC, else to_upper_camel_case); it is not what C08 states
        upname = smt.Ite(Eq(pname, smt.sstr("jsonrpc")), smt.sstr("JsonRPC"), f"(uf_to_upper_camel_case {pname})")
        nullable = Or(opt, special)
        ignoring = And(opt, Not(special))

        def decl(q: str) -> str:
            return smt.Concat(smt.sstr("public "), tn, smt.sstr(q), smt.sstr(" "), upname, smt.sstr(" "))

        has_q = Or(*[_prefix(decl("?"), x.t) for x in items])
        has_plain = Or(*[_prefix(decl(""), x.t) for x in items])
        has_ignore = Or(*[And(_prefix(smt.sstr("[JsonProperty("), x.t), smt.Contains(x.t, smt.sstr("NullValueHandling.Ignore"))) for x in items])
        has_member = Or(*[Eq(x.t, smt.Concat(smt.sstr('[DataMember(Name = "'), pname, smt.sstr('")]'))) for x in items])
        body = And(Eq(has_q, nullable), Eq(has_plain, Not(nullable)), Eq(has_ignore, ignoring))
        return And(has_member, Eq(tname.t, tn), smt.Implies(Not(imm), body))

    params = [("prop_def", [("obj", "Property")]), ("spec", ["other"]), ("types", ["other"]), ("usings", usings), ("class_name", ["str"])]
    rep = _vc.generate_post(world, interp, fi, params, pre, post, LABEL)
    return world, rep


def solve_parallel(world, rep, workers: int = 16, timeout_ms: int = 10000) -> float:
    """Reachability first, then the postconditions of reachable paths only; chunks in parallel solver processes."""
    import concurrent.futures as cf
    import time

    def run(obs):
        if not obs:
            return
        chunks = [obs[i::workers] for i in range(workers)]
        with cf.ThreadPoolExecutor(max_workers=workers) as ex:
            list(ex.map(lambda ch: _vc.solve(world, ch, timeout_ms=timeout_ms) if ch else 0.0, chunks))

    t0 = time.time()
    reach = [o for o in rep.obligations if o.kind == "reach"]
    run(reach)
    live = {o.meta.get("path") for o in reach if o.answer != "unsat"}
    dead = [o for o in rep.obligations if o.kind != "reach" and o.meta.get("path") not in live]
    for o in dead:
        o.answer, o.backend = "unsat", "unreachable-path"
    run([o for o in rep.obligations if o.kind != "reach" and o.meta.get("path") in live])
    return time.time() - t0


def native_replay(model):
    """Rebuild the property definition of a counter-model and run the real generate_property on it."""
    import importlib
    import sys
    from types import SimpleNamespace as NS

    repo = os.environ.get("VERIF_REPO", "/repo")
    if repo not in sys.path:
        sys.path.insert(0, repo)
    for m in [m for m in list(sys.modules) if m == "generator" or m.startswith("generator.")]:
        f = getattr(sys.modules[m], "__file__", "") or ""
        if not f.startswith(repo + os.sep):
            del sys.modules[m]
    mod = importlib.import_module("generator.plugins.dotnet.dotnet_classes")
    from lib.helpers_verify import _typedef

    out = []
    for optional in (None, False, True):
        for t in (
            NS(kind="base", name="string", value="", items=[]),
            NS(kind="reference", name="Range", value="", items=[]),
            NS(kind="or", name="", value="", items=[NS(kind="base", name="string", value="", items=[]), NS(kind="base", name="null", value="", items=[])]),
            NS(kind="or", name="", value="", items=[NS(kind="base", name="null", value="", items=[]), NS(kind="reference", name="Range", value="", items=[])]),
            NS(kind="or", name="", value="", items=[NS(kind="base", name="string", value="", items=[]), NS(kind="base", name="integer", value="", items=[])]),
        ):
            out.append((optional, t))
    fails = []
    for optional, t in out:
        prop = NS(name="verifProp", type=t, optional=optional, documentation=None, since=None, proposed=None, deprecated=None, sinceTags=None)
        saved = mod.get_type_name
        mod.get_type_name = lambda *a, **k: "VerifType"
        saved_conv = mod.get_converter
        mod.get_converter = lambda *a, **k: None
        try:
            lines, tn = mod.generate_property(prop, None, None, [], "VerifClass")
        except Exception as e:  # noqa
            fails.append({"optional": optional, "type": _show(t), "observed": f"raises {type(e).__name__}: {e}"})
            continue
        finally:
            mod.get_type_name = saved
            mod.get_converter = saved_conv
        special = t.kind == "or" and any(i.kind == "base" and i.name == "null" for i in t.items)
        nullable = bool(optional) or special
        ignoring = bool(optional) and not special
        decl = [ln for ln in lines if ln.startswith("public ")]
        got_nullable = any(ln.startswith("public VerifType? ") for ln in decl)
        got_plain = any(ln.startswith("public VerifType ") for ln in decl)
        got_ignore = any("NullValueHandling.Ignore" in ln for ln in lines)
        got_member = '[DataMember(Name = "verifProp")]' in lines
        if got_nullable != nullable or got_plain == nullable or got_ignore != ignoring or not got_member:
            fails.append({"optional": optional, "type": _show(t), "lines": lines, "expected": {"nullable": nullable, "null_ignoring": ignoring}})
    return fails


def _show(t):
    return {"kind": t.kind, "name": t.name, "items": [(i.kind, i.name) for i in t.items]}
