"""Contracts for packages/python/lsprotocol/validators.py (C12, used by C11).

Postconditions are taken from the property statement: the range constants below are the
statement's [-2^31, 2^31-1] and [0, 2^31-1], not the module's.
"""
from __future__ import annotations

import os

from pyvc import smt
from pyvc.smt import And, Le, TRUE
from pyvc.symex import (
    ClassInfo,
    Contract,
    Ctx,
    FieldSpec,
    Interp,
    SRaise,
    SReturn,
    VBool,
    VInt,
    VStr,
    World,
    force,
    num_term,
)
from pyvc.loader import REPO, load_module, new_world

REL = "packages/python/lsprotocol/validators.py"
ANY = ["none", "bool", "int", "float", "str", "other"]

RANGES = {
    "integer_validator": (-(2**31), 2**31 - 1),
    "uinteger_validator": (0, 2**31 - 1),
}


def build_world():
    world = new_world()
    interp = Interp(world)
    world.classes["AttrsAttribute"] = ClassInfo("AttrsAttribute", {"name": FieldSpec(["str"])}, {})
    load_module(world, interp, os.path.join(REPO, REL), "validators", REL)
    return world, interp


def make_contract(interp: Interp, fname: str) -> Contract:
    lo, hi = RANGES[fname]

    def pre(ctx: Ctx, a):
        return TRUE

    def spec(ctx: Ctx, a):
        v = force(ctx, a["value"])
        if isinstance(v, (VInt, VBool)):
            t = num_term(v)[1]
            if ctx.branch(And(Le(smt.sint(lo), t), Le(t, smt.sint(hi)))):
                return SReturn(VBool(TRUE))

        def pred(ctx2: Ctx, excargs):
            if len(excargs) != 1:
                return smt.FALSE
            m = force(ctx2, excargs[0])
            if not isinstance(m, VStr):
                return smt.FALSE
            qn = interp.getattr(ctx2, interp.getattr(ctx2, a["instance"], "__class__"), "__qualname__")
            has = interp.hasattr(ctx2, a["attribute"], "name")
            if interp.truth(ctx2, has):
                nm = interp.format_value(ctx2, interp.getattr(ctx2, a["attribute"], "name"))
            else:
                nm = interp.format_value(ctx2, a["attribute"])
            return smt.Contains(m.t, smt.Concat(qn.t, '"."', nm))

        return SRaise("ValueError", pred)

    return Contract(
        name=fname,
        params=[("instance", ANY), ("attribute", [("obj", "AttrsAttribute"), "str", "other"]), ("value", ANY)],
        pre=pre,
        spec=spec,
        note=f"returns True iff value is an int (bool included) in [{lo},{hi}]; otherwise raises ValueError whose message contains <qualname>.<attribute name>",
    )


# ---------------------------------------------------------------------------- native oracle (for replay)


def native_expected(fname: str, value):
    lo, hi = RANGES[fname]
    return isinstance(value, int) and lo <= value <= hi


class _Attr:
    def __init__(self, name):
        self.name = name


def concretize(model: dict):
    """SMT model -> (instance, attribute, value) Python objects."""

    def dyn(name):
        tag = model.get(f"{name}.tag")
        kinds = {0: None, 1: "bool", 2: "int", 3: "float", 4: "str", 6: "other"}
        k = kinds.get(tag, "other") if tag is not None else "int"
        if tag == 0:
            return None
        if k == "bool":
            return bool(model.get(f"{name}.b", False))
        if k == "int":
            return int(model.get(f"{name}.i", 0))
        if k == "float":
            return float(model.get(f"{name}.r", 0.5))
        if k == "str":
            return str(model.get(f"{name}.s", ""))
        return object()

    value = dyn("value")
    instance = dyn("instance")
    atag = model.get("attribute.tag")
    if atag == 4:
        attribute = str(model.get("attribute.s", "attr"))
    elif atag == 6:
        attribute = object()
    else:
        attribute = _Attr("attr_name")
    return instance, attribute, value


def native_run(fn, instance, attribute, value):
    """Run the real validator; return (verdict, detail) where verdict is 'ok' or a description of the contract breach."""
    fname = fn.__name__
    exp = native_expected(fname, value)
    try:
        r = fn(instance, attribute, value)
        if exp and r is True:
            return "ok", "returned True"
        if exp:
            return "bad", f"in-range value {value!r}: returned {r!r} instead of True"
        return "bad", f"out-of-range / non-int value {value!r} accepted (returned {r!r})"
    except ValueError as e:
        if exp:
            return "bad", f"in-range int {value!r} rejected: {e}"
        name = attribute.name if hasattr(attribute, "name") else str(attribute)
        want = f"{instance.__class__.__qualname__}.{name}"
        if want not in str(e):
            return "bad", f"ValueError does not name class and attribute ({want!r} not in {str(e)!r})"
        return "ok", "raised ValueError"
    except Exception as e:  # noqa
        return "bad", f"raised {type(e).__name__} instead of returning True / raising ValueError: {e}"
