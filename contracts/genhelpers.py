"""Contracts for small decision helpers of the generator plugins (C06/C07/C08): total on their stated domain and equal to
the statement's mapping / rule.  Type definitions are objects with string fields kind / name / value."""
from __future__ import annotations

import ast
import os
from typing import Any, Dict, List, Tuple

from pyvc import smt
from pyvc.smt import And, Eq, Ite, Not, Or, TRUE, FALSE
from pyvc.symex import ClassInfo, Contract, Ctx, FieldSpec, FunctionInfo, Interp, SRaise, SReturn, VBool, VStr, World, force
from pyvc.loader import REPO, load_module, new_world

RUST_REL = "generator/plugins/rust/rust_commons.py"
DOTNET_REL = "generator/plugins/dotnet/dotnet_classes.py"
PY_REL = "generator/plugins/python/utils.py"

RUST_BASE = {"string": "String", "RegExp": "String", "DocumentUri": "Url", "URI": "Url", "decimal": "Decimal", "integer": "i32", "uinteger": "u32", "boolean": "bool"}
DOTNET_BASE = {"string": "string", "RegExp": "string", "DocumentUri": "Uri", "URI": "Uri", "decimal": "float", "integer": "int", "uinteger": "long", "boolean": "bool", "null": "object"}


def _mapping_contract(fname: str, table: Dict[str, str], extra_ok: Tuple[str, ...] = ()) -> Contract:
    names = list(table)

    def pre(ctx, a):
        n = force(ctx, _name(ctx, a)).t
        return Or(*[Eq(n, smt.sstr(x)) for x in names])

    def spec(ctx, a):
        n = force(ctx, _name(ctx, a)).t
        term = smt.sstr("?")
        for k in reversed(names):
            term = Ite(Eq(n, smt.sstr(k)), smt.sstr(table[k]), term)
        return SReturn(VStr(term))

    def _name(ctx, a):
        from pyvc.symex import Interp as I

        return a["__interp"].getattr(ctx, a["lsp_type"], "name")

    return Contract(fname, [("lsp_type", [("obj", "TypeDef")])], pre, spec, f"maps each metamodel base type to its {fname} target: {table}")


def build_mapping(rel: str, fname: str, table: Dict[str, str]):
    world = new_world()
    interp = Interp(world)
    world.classes["TypeDef"] = ClassInfo("TypeDef", {"kind": FieldSpec(["str"]), "name": FieldSpec(["str"]), "value": FieldSpec(["str"])}, {})
    load_module(world, interp, os.path.join(REPO, rel), "mod", rel)
    fi = world.functions.get(f"{rel}::{fname}")
    names = list(table)

    def pre(ctx, a):
        n = force(ctx, interp.getattr(ctx, a["lsp_type"], "name")).t
        return Or(*[Eq(n, smt.sstr(x)) for x in names])

    def spec(ctx, a):
        n = force(ctx, interp.getattr(ctx, a["lsp_type"], "name")).t
        term = smt.sstr("?")
        for k in reversed(names):
            term = Ite(Eq(n, smt.sstr(k)), smt.sstr(table[k]), term)
        return SReturn(VStr(term))

    c = Contract(fname, [("lsp_type", [("obj", "TypeDef")])], pre, spec, f"total on the metamodel's base types and equal to the mapping {table}")
    return world, interp, fi, c
