"""Contracts for small decision helpers of the generator plugins (C06/C07/C08): total on their stated domain and equal to
the statement's mapping / rule.  Type definitions are objects with string fields kind / name / value."""
from __future__ import annotations

import ast
import os
from typing import Any, Dict, List, Tuple

from pyvc import smt
from pyvc.smt import And, Eq, Ite, Not, Or, TRUE, FALSE
from pyvc.symex import ClassInfo, Contract, Ctx, FieldSpec, FunctionInfo, Interp, SRaise, SReturn, VBool, VStr, World, force
from pyvc.loader import REPO, load_module, new_world

RUST_REL = "generator/plugins/rust/rust_commons.py"
DOTNET_REL = "generator/plugins/dotnet/dotnet_classes.py"
PY_REL = "generator/plugins/python/utils.py"

RUST_BASE = {"string": "String", "RegExp": "String", "DocumentUri": "Url", "URI": "Url", "decimal": "Decimal", "integer": "i32", "uinteger": "u32", "boolean": "bool"}
DOTNET_BASE = {"string": "string", "RegExp": "string", "DocumentUri": "Uri", "URI": "Uri", "decimal": "float", "integer": "int", "uinteger": "long", "boolean": "bool", "null": "object"}


def _mapping_contract(fname: str, table: Dict[str, str], extra_ok: Tuple[str, ...] = ()) -> Contract:
    names = list(table)

    def pre(ctx, a):
        n = force(ctx, _name(ctx, a)).t
        return Or(*[Eq(n, smt.sstr(x)) for x in names])

    def spec(ctx, a):
        n = force(ctx, _name(ctx, a)).t
        term = smt.sstr("?")
        for k in reversed(names):
            term = Ite(Eq(n, smt.sstr(k)), smt.sstr(table[k]), term)
        return SReturn(VStr(term))

    def _name(ctx, a):
        from pyvc.symex import Interp as I

        return a["__interp"].getattr(ctx, a["lsp_type"], "name")

    return Contract(fname, [("lsp_type", [("obj", "TypeDef")])], pre, spec, f"maps each metamodel base type to its {fname} target: {table}")


def build_mapping(rel: str, fname: str, table: Dict[str, str]):
    world = new_world()
    interp = Interp(world)
    world.classes["TypeDef"] = ClassInfo("TypeDef", {"kind": FieldSpec(["str"]), "name": FieldSpec(["str"]), "value": FieldSpec(["str"])}, {})
    load_module(world, interp, os.path.join(REPO, rel), "mod", rel)
    fi = world.functions.get(f"{rel}::{fname}")
    names = list(table)

    def pre(ctx, a):
        n = force(ctx, interp.getattr(ctx, a["lsp_type"], "name")).t
        return Or(*[Eq(n, smt.sstr(x)) for x in names])

    def spec(ctx, a):
        n = force(ctx, interp.getattr(ctx, a["lsp_type"], "name")).t
        term = smt.sstr("?")
        for k in reversed(names):
            term = Ite(Eq(n, smt.sstr(k)), smt.sstr(table[k]), term)
        return SReturn(VStr(term))

    c = Contract(fname, [("lsp_type", [("obj", "TypeDef")])], pre, spec, f"total on the metamodel's base types and equal to the mapping {table}")
    return world, interp, fi, c


# ---------------------------------------------------------------------------------------------
# decision helpers over type definitions with item lists (null membership, special fields, field validators)
# ---------------------------------------------------------------------------------------------

from pyvc.symex import SReturn as _SReturn, rest_quantifier, symlist_elem, symlist_len  # noqa: E402
from pyvc import vc as _vc  # noqa: E402

TESTDATA_REL = "generator/plugins/testdata/testdata_generator.py"


def typed_world(rel: str):
    world = new_world()
    interp = Interp(world)
    world.class_id("TypeDef")
    world.class_id("Property")
    world.classes["TypeDef"] = ClassInfo(
        "TypeDef",
        {"kind": FieldSpec(["str"]), "name": FieldSpec(["str"]), "value": FieldSpec(["str"]), "items": FieldSpec([("symlist", "TypeDef")])},
        {},
    )
    world.classes["Property"] = ClassInfo("Property", {"name": FieldSpec(["str"]), "type": FieldSpec([("obj", "TypeDef")]), "optional": FieldSpec(["none", "bool"])}, {})
    load_module(world, interp, os.path.join(REPO, rel), "mod", rel)
    return world, interp


def null_member(ctx: Ctx, interp: Interp, tdef, kinds=("or",)) -> bool:
    """Spec: tdef is an `or` (resp. one of `kinds`) with a direct `null` member — concrete on this path (forks)."""
    k = force(ctx, interp.getattr(ctx, tdef, "kind")).t
    if not ctx.branch(Or(*[Eq(k, smt.sstr(x)) for x in kinds])):
        return False
    return items_have_null(ctx, interp, interp.getattr(ctx, tdef, "items"))


def items_have_null(ctx: Ctx, interp: Interp, items) -> bool:
    def q(e) -> bool:
        ek = force(ctx, interp.getattr(ctx, e, "kind")).t
        en = force(ctx, interp.getattr(ctx, e, "name")).t
        return ctx.branch(And(Eq(ek, smt.sstr("base")), Eq(en, smt.sstr("null"))))

    return rest_quantifier(ctx, True, symlist_len(ctx, items), lambda kk: symlist_elem(ctx, items, kk), q)


def _b(x: bool) -> VBool:
    return VBool(TRUE if x else FALSE)


def python_special_items():
    """(world, interp, [(fi, contract, label)]) for utils._has_null_base_type and utils._is_special_field."""
    world, interp = typed_world(PY_REL)
    P = [("obj", "Property")]
    c_null = Contract("_has_null_base_type", [("prop", P)], lambda c, a: TRUE, lambda c, a: _SReturn(_b(null_member(c, interp, interp.getattr(c, a["prop"], "type")))), "True iff prop.type is an `or` with a direct `null` member")

    def spec_special(c, a):
        t = interp.getattr(c, a["prop"], "type")
        k = force(c, interp.getattr(c, t, "kind")).t
        if c.branch(Eq(k, smt.sstr("stringLiteral"))):
            return _SReturn(_b(True))
        return _SReturn(_b(null_member(c, interp, t)))

    c_special = Contract("_is_special_field", [("prop", P)], lambda c, a: TRUE, spec_special, "True iff the property is a string literal or null-admitting (direct `null` member)")
    out = []
    for fn, c in (("_has_null_base_type", c_null), ("_is_special_field", c_special)):
        fi = world.functions.get(f"{PY_REL}::{fn}")
        if fi is not None:
            out.append((fi, c, f"{PY_REL}::{fn}"))
    # callers see the callee's contract
    if f"{PY_REL}::_has_null_base_type" in world.functions:
        world.functions[f"{PY_REL}::_has_null_base_type"].contract = c_null
    return world, interp, out


def items_null_contract(rel: str, fname: str):
    """has_null_base_type(items) of the dotnet / testdata plugins: any direct `null` member in a list of types."""
    world, interp = typed_world(rel)
    fi = world.functions.get(f"{rel}::{fname}")
    c = Contract(fname, [("items", [("symlist", "TypeDef")])], lambda c, a: TRUE, lambda c, a: _SReturn(_b(items_have_null(c, interp, a["items"]))), "True iff some item is the base type `null`")
    return world, interp, fi, c, f"{rel}::{fname}"


def rust_special_items():
    world, interp = typed_world(RUST_REL)
    T = [("obj", "TypeDef")]
    c = Contract("is_special", [("type_def", T)], lambda c, a: TRUE, lambda c, a: _SReturn(_b(null_member(c, interp, a["type_def"], ("or", "tuple")))), "True iff type_def is an `or` / `tuple` with a direct `null` member")
    out = []
    fi = world.functions.get(f"{RUST_REL}::is_special")
    if fi is not None:
        out.append((fi, c, f"{RUST_REL}::is_special"))
        fi.contract = c
    fp = world.functions.get(f"{RUST_REL}::is_special_property")
    if fp is not None:
        cp = Contract("is_special_property", [("prop_def", [("obj", "Property")])], lambda c, a: TRUE, lambda c, a: _SReturn(_b(null_member(c, interp, interp.getattr(c, a["prop_def"], "type"), ("or", "tuple")))), "is_special of the property's type")
        out.append((fp, cp, f"{RUST_REL}::is_special_property"))
    return world, interp, out


VALIDATOR_TOKENS = {
    "integer": "validators.integer_validator",
    "uinteger": "validators.uinteger_validator",
    "string": "attrs.validators.instance_of(str)",
    "DocumentUri": "attrs.validators.instance_of(str)",
    "URI": "attrs.validators.instance_of(str)",
    "boolean": "attrs.validators.instance_of(bool)",
    "decimal": "attrs.validators.instance_of(float)",
}


def field_validator_report(run_label: str = f"{PY_REL}::_generate_field_validator"):
    """Relational contract of utils._generate_field_validator: the emitted `attrs.field(...)` text names exactly the validator
    of the base type, is optional-wrapped with default=None iff optional, and for a string literal accepts and defaults to it."""
    world, interp = typed_world(PY_REL)
    fi = world.functions.get(run_label)
    if fi is None:
        return world, None
    names = list(VALIDATOR_TOKENS) + ["null"]
    all_tokens = sorted(set(VALIDATOR_TOKENS.values()))

    def pre(c, a):
        k = force(c, interp.getattr(c, a["type_def"], "kind")).t
        n = force(c, interp.getattr(c, a["type_def"], "name")).t
        kinds = ["base", "reference", "array", "map", "and", "or", "tuple", "literal", "stringLiteral"]
        v = force(c, interp.getattr(c, a["type_def"], "value")).t
        return And(Or(*[Eq(k, smt.sstr(x)) for x in kinds]), smt.Implies(Eq(k, smt.sstr("base")), Or(*[Eq(n, smt.sstr(x)) for x in names])), Not(smt.Contains(v, smt.sstr("'"))), Not(smt.Contains(v, smt.sstr('"'))))

    def post(c, a, impl):
        if impl[0] != "return":
            return FALSE
        r = force(c, impl[1])
        if not isinstance(r, VStr):
            return FALSE
        k = force(c, interp.getattr(c, a["type_def"], "kind")).t
        n = force(c, interp.getattr(c, a["type_def"], "name")).t
        v = force(c, interp.getattr(c, a["type_def"], "value")).t
        opt = interp.truth_term(c, a["optional"])
        is_lit = Eq(k, smt.sstr("stringLiteral"))
        # quote style of the emitted text is irrelevant (same syntax tree): accept ' or "
        lit_ok = And(
            Or(*[smt.Contains(r.t, smt.Concat(smt.sstr("in_([" + q), v, smt.sstr(q + "])"))) for q in ("'", '"')]),
            Or(*[smt.Contains(r.t, smt.Concat(smt.sstr("default=" + q), v, smt.sstr(q))) for q in ("'", '"')]),
        )
        clauses = []
        for tok in all_tokens:
            want = Or(*[And(Eq(k, smt.sstr("base")), Eq(n, smt.sstr(b))) for b, t in VALIDATOR_TOKENS.items() if t == tok])
            clauses.append(Eq(smt.Contains(r.t, smt.sstr(tok)), want))
        opt_ok = And(Eq(smt.Contains(r.t, smt.sstr("default=None")), opt), smt.Implies(smt.Contains(r.t, smt.sstr("attrs.validators.optional(")), opt))
        has_validator = Or(*[And(Eq(k, smt.sstr("base")), Eq(n, smt.sstr(b))) for b in VALIDATOR_TOKENS])
        wrap_ok = smt.Implies(And(opt, has_validator), smt.Contains(r.t, smt.sstr("attrs.validators.optional(")))
        return And(smt.Contains(r.t, smt.sstr("attrs.field(")), smt.Ite(is_lit, lit_ok, And(*clauses, opt_ok, wrap_ok)))

    rep = _vc.generate_post(world, interp, fi, [("type_def", [("obj", "TypeDef")]), ("optional", ["bool"])], pre, post, run_label)
    return world, rep


def rust_extras_item():
    """generate_extras (rust): the cfg(feature = "proposed") gate is emitted iff the element is proposed; #[deprecated] iff deprecated."""
    from pyvc.symex import VList, VStr as _VStr, VTuple

    world = new_world()
    interp = Interp(world)
    world.classes["Annotated"] = ClassInfo("Annotated", {"deprecated": FieldSpec(["none", "str"]), "proposed": FieldSpec(["none", "bool"]), "since": FieldSpec(["none", "str"]), "documentation": FieldSpec(["none", "str"])}, {})
    load_module(world, interp, os.path.join(REPO, RUST_REL), "mod", RUST_REL)
    fi = world.functions.get(f"{RUST_REL}::generate_extras")
    GATE = smt.sstr('#[cfg(feature = "proposed")]')
    DEP = smt.sstr("#[deprecated]")

    def post(c, a, impl):
        if impl[0] != "return":
            return FALSE
        r = force(c, impl[1])
        if not isinstance(r, (VList, VTuple)):
            return FALSE
        items = [force(c, x) for x in r.items]
        if not all(isinstance(x, _VStr) for x in items):
            return FALSE
        has_gate = Or(*[Eq(x.t, GATE) for x in items])
        has_dep = Or(*[Eq(x.t, DEP) for x in items])
        prop = interp.truth_term(c, interp.getattr(c, a["type_def"], "proposed"))
        dep = interp.truth_term(c, interp.getattr(c, a["type_def"], "deprecated"))
        # ... and nothing else: every line is the gate or a #[deprecated...] attribute (the line shape generate_property's contract assumes)
        only = And(*[Or(Eq(x.t, GATE), f"(str.prefixof {smt.sstr('#[deprecated')} {x.t})") for x in items])
        return And(Eq(has_gate, prop), Eq(has_dep, dep), only)

    if fi is None:
        return world, None
    rep = _vc.generate_post(world, interp, fi, [("type_def", [("obj", "Annotated")])], lambda c, a: TRUE, post, f"{RUST_REL}::generate_extras")
    return world, rep


DOTNET_HELPERS_REL = "generator/plugins/dotnet/dotnet_helpers.py"


def dotnet_extras_item():
    """generate_extras (dotnet), for elements without a messageDirection (properties, structures, enumerations, aliases): every emitted line is an
    `[Obsolete(`, `[Since(` or `[Direction(` attribute or `[Proposed]` — the line shapes the contract of dotnet generate_property assumes — and
    `[Proposed]` is emitted iff the element is proposed.  get_deprecated / cleanup_str / to_upper_camel_case return arbitrary strings."""
    from pyvc.symex import VList, VStr as _VStr, VTuple, VFunc, VNone, new_value, dyn_range_constraint, FunctionInfo as _FI

    world = new_world()
    interp = Interp(world)
    world.classes["Annotated"] = ClassInfo("Annotated", {"deprecated": FieldSpec(["none", "str"]), "proposed": FieldSpec(["none", "bool"]), "since": FieldSpec(["none", "str"]), "documentation": FieldSpec(["none", "str"])}, {})
    load_module(world, interp, os.path.join(REPO, DOTNET_HELPERS_REL), "mod", DOTNET_HELPERS_REL)
    fi = world.functions.get(f"{DOTNET_HELPERS_REL}::generate_extras")
    if fi is None:
        return world, None
    ns = world.namespaces["mod"]
    world.declare_global("(declare-fun uf_cleanup_str (String) String)")

    def ext(name, params, spec):
        q = f"assumed::{name}"
        world.functions[q] = _FI(q, None, Contract(name, params, lambda c, a: TRUE, spec, "returns an arbitrary value of its result type"), "", "mod")
        ns[name] = VFunc(q)

    def s_deprecated(c, a):
        v = new_value(c, "deprecated_in_doc", ["none", "str"])
        c.assume(dyn_range_constraint(c, v))
        return SReturn(v)

    ext("get_deprecated", [("text", ["none", "str"])], s_deprecated)
    ext("cleanup_str", [("text", ["str"])], lambda c, a: SReturn(VStr(f"(uf_cleanup_str {force(c, a['text']).t})")))
    PROPOSED = smt.sstr("[Proposed]")

    def post(c, a, impl):
        if impl[0] != "return":
            return FALSE
        r = force(c, impl[1])
        if not isinstance(r, (VList, VTuple)):
            return FALSE
        items = [force(c, x) for x in r.items]
        if not all(isinstance(x, _VStr) for x in items):
            return FALSE
        shapes = And(*[Or(Eq(x.t, PROPOSED), *[f"(str.prefixof {smt.sstr(p)} {x.t})" for p in ("[Obsolete(", "[Since(", "[Direction(")]) for x in items])
        prop = interp.truth_term(c, interp.getattr(c, a["type_def"], "proposed"))
        return And(shapes, Eq(Or(*[Eq(x.t, PROPOSED) for x in items]), prop))

    rep = _vc.generate_post(world, interp, fi, [("type_def", [("obj", "Annotated")])], lambda c, a: TRUE, post, f"{DOTNET_HELPERS_REL}::generate_extras")
    return world, rep
