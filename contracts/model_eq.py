"""Contracts for the hand-written __eq__ methods of generator/model.py (C18).

spec(C.__eq__)(self, other) =  other is an instance of C  and  every structural field compares equal ; never raises.
Structural fields = attrs fields of the live class minus the private id_ and the annotation keys
(documentation, since, sinceTags, proposed, deprecated) — DESIGN 3.1 'structurally different'.
Field values are opaque: `a.f == b.f` is an uninterpreted Boolean per (field, pair of owners).
"""
from __future__ import annotations

import ast
import os
from typing import Any, Dict, List, Tuple

from pyvc import smt
from pyvc.smt import And, FALSE, TRUE
from pyvc.symex import ClassInfo, Contract, Ctx, FieldSpec, FunctionInfo, Interp, SReturn, VBool, VClass, World, force
from pyvc.loader import REPO, load_module, new_world

REL = "generator/model.py"
ANNOT = {"documentation", "since", "sinceTags", "proposed", "deprecated", "id_"}


def build(model_module) -> Tuple[World, Interp, List[Tuple[FunctionInfo, Contract, str, Dict[str, Any]]]]:
    import attrs

    world = new_world()
    interp = Interp(world)
    classes = []
    tree = ast.parse(open(os.path.join(REPO, REL), encoding="utf-8").read())
    for node in tree.body:
        if isinstance(node, ast.ClassDef):
            live = getattr(model_module, node.name, None)
            if live is not None and attrs.has(live):
                classes.append((node, live))
    for node, live in classes:
        world.class_id(node.name)
    for node, live in classes:
        fields = {a.name: FieldSpec(["other"]) for a in attrs.fields(live)}
        world.classes[node.name] = ClassInfo(node.name, fields, {}, bases=[ast.unparse(b) for b in node.bases])
    # plain (non-attrs) classes of the module that model classes derive from: mixins carrying shared helpers
    attrs_names = {n.name for n, _ in classes}
    for node in tree.body:
        if isinstance(node, ast.ClassDef) and node.name not in attrs_names:
            world.class_id(node.name)
            world.classes[node.name] = ClassInfo(node.name, {}, {sub.name: f"{REL}::{node.name}.{sub.name}" for sub in node.body if isinstance(sub, ast.FunctionDef)}, bases=[ast.unparse(b) for b in node.bases])
    load_module(world, interp, os.path.join(REPO, REL), "model", REL)
    for node, live in classes:
        world.namespaces["model"][node.name] = VClass(node.name, world.class_id(node.name))
    items = []
    for node, live in classes:
        q = f"{REL}::{node.name}.__eq__"
        fi = world.functions.get(q)
        origin = "own"
        if fi is None:
            # no __eq__ in the class body: the one the live class uses may be inherited from a base class of model.py (a shared
            # implementation), or be the attrs-generated one (which would compare the random id_)
            eqf = getattr(live, "__eq__", None)
            code = getattr(eqf, "__code__", None)
            if code is not None and os.path.realpath(code.co_filename) == os.path.realpath(os.path.join(REPO, REL)):
                q = f"{REL}::{eqf.__qualname__}"
                fi = world.functions.get(q)
                origin = f"inherited from {eqf.__qualname__}" if fi is not None else f"{eqf.__qualname__} (not loadable)"
            else:
                origin = "not defined in generator/model.py (attrs-generated or foreign)"
        if fi is not None:
            world.classes[node.name].methods["__eq__"] = q
        structural = [a.name for a in attrs.fields(live) if a.name not in ANNOT]
        others = [("obj", c.name) for c, _ in classes if c.name != node.name][:3]

        def spec(ctx: Ctx, a, cname=node.name, structural=structural):
            o = force(ctx, a["other"])
            from pyvc.symex import VObj

            if not (isinstance(o, VObj) and o.cls == cname):
                return SReturn(VBool(FALSE))
            terms = []
            for f in structural:
                e = interp.op_eq(ctx, interp.getattr(ctx, a["self"], f), interp.getattr(ctx, o, f))
                terms.append(interp.truth_term(ctx, e))
            return SReturn(VBool(And(*terms)))

        c = Contract(
            f"{node.name}.__eq__",
            [("self", [("obj", node.name)]), ("other", [("obj", node.name), "none", "int", "str", "other"] + others)],
            lambda ctx, a: TRUE,
            spec,
            f"True iff other is a {node.name} and all structural fields are equal ({', '.join(structural)}); never raises",
        )
        items.append((fi, c, f"{REL}::{node.name}.__eq__", {"class": node.name, "structural": structural, "origin": origin}))
    return world, interp, items
