"""C13 — enums carry exactly the metamodel's values; open ones accept custom values."""
from __future__ import annotations

import enum
from typing import Any, Dict, List, Optional, Tuple

from lib.pylive import Live
from lib.report import Run
from lib.tables import check_classes, check_enums
from lib.unions import UnionAnalysis
from oracle.metamodel import MetaModel
from oracle.native import json_equal
from oracle.pairing import all_class_decls
from props import _tables
from props import _unions as U


def enum_positions(mm: MetaModel, t: Dict, wrap, depth=0):
    """Yield (enum name, function embedding a value of the enum into a value of t) for every enum reference inside t."""
    k = t["kind"]
    if depth > 6:
        return
    if k == "reference":
        n = t["name"]
        if n in mm.enumerations:
            yield n, wrap
        elif n in mm.aliases and n not in ("LSPAny", "LSPObject", "LSPArray"):
            yield from enum_positions(mm, mm.aliases[n]["type"], wrap, depth + 1)
    elif k == "array":
        yield from enum_positions(mm, t["element"], lambda v, w=wrap: w([v]), depth + 1)
    elif k == "map":
        yield from enum_positions(mm, t["value"], lambda v, w=wrap: w({"k": v}), depth + 1)
    elif k == "or":
        for it in t["items"]:
            yield from enum_positions(mm, it, wrap, depth + 1)


def main(argv: List[str]) -> int:
    run = Run("C13", "proof", argv)
    live = Live()
    mm = MetaModel.load()
    T = live.types
    # ---- evaluated: enum tables
    e = check_enums(live, mm)
    n1, d1 = _tables.report(run, e, ["enum-exists", "enum-values", "enum-base"])
    n2 = d2 = 0
    for name, ed in mm.enumerations.items():
        cls = getattr(T, name, None)
        if cls is None or not isinstance(cls, type) or not issubclass(cls, enum.Enum):
            continue
        n2 += 1
        if len(cls.__members__) != len(ed["values"]):
            run.violation(f"table:enum:{name}:count", f"enumeration {name}: {len(cls.__members__)} member names for {len(ed['values'])} metamodel values", {"members": list(cls.__members__), "metamodel": [v['name'] for v in ed['values']]}, True)
        else:
            d2 += 1
    # ---- deduced: handlers at open-enum positions pass scalars through (O0/O1 of the generic union contract)
    ua = UnionAnalysis(live, mm)
    enum_results = []
    for r in ua.results:
        t = mm.resolve_alias(r.site.tau)
        refs = [t] if t["kind"] != "or" else t["items"]
        if any(x["kind"] == "reference" and x["name"] in mm.enumerations for x in refs):
            enum_results.append(r)
    sub = UnionAnalysis.__new__(UnionAnalysis)
    sub.__dict__.update(ua.__dict__)
    sub.results = enum_results
    sub.sites = [r.site for r in enum_results] + [s for s in ua.sites if s.handler_kind == "missing" and any(x["kind"] == "reference" and x["name"] in mm.enumerations for x in (mm.resolve_alias(s.tau).get("items") or [mm.resolve_alias(s.tau)]))]
    what = {"O0": "a valid enum value makes the handler raise", "O1": "a valid enum value is not passed through / parsed as a valid alternative", "O4": "a value outside a closed enumeration is passed through unchecked"}
    cov = U.report_unions(run, live, mm, sub, {"missing", "O0", "O1", "O4"}, what)
    # ---- evaluated: closed enumerations are annotated with exactly the enum class (C11 shows they reject)
    decls = all_class_decls(mm)
    res = check_classes(live, mm, decls)
    n3, d3 = _tables.report(run, res, ["annotation", "attr-for-prop", "class-exists"])
    # ---- behavioural sweep over every use site x every declared value (+ custom values)
    conv = live.converter
    sweep = 0
    for d in decls:
        cls = getattr(T, d.pyname, None)
        if cls is None:
            continue
        base = mm.witness_props(d.props, False, 0)
        for p in d.props:
            for ename, wrap in enum_positions(mm, p["type"], lambda v: v):
                ed = mm.enumerations[ename]
                vals = [v["value"] for v in ed["values"]]
                is_str = ed["type"]["name"] == "string"
                custom = ["x-custom", "", "UPPER"] if is_str else [4242, 0, 7, -5 if ed["type"]["name"] == "integer" else 99]
                custom = [c for c in custom if c not in vals]
                tests = [(v, True) for v in vals] + [(c, mm.is_open_enum(ename)) for c in custom]
                for v, accept in tests:
                    j = dict(base)
                    j[p["name"]] = wrap(v)
                    if not mm.valid({"kind": "literal", "value": {"properties": d.props}}, j, True) and accept:
                        continue
                    sweep += 1
                    a = next((a.name for a in live.attrs.fields(cls) if (live.wire_name(cls, a.name) or a.name) == p["name"]), p["name"])
                    try:
                        obj = conv.structure(j, cls)
                        back = conv.unstructure(obj)
                        ok = accept and json_equal(back.get(p["name"]), j[p["name"]])
                        obs = f"accepted; re-serialised {p['name']} = {back.get(p['name'])!r}"
                    except Exception as ex:  # noqa
                        ok = not accept
                        obs = f"rejected ({type(ex).__name__})"
                    if not ok:
                        kind = "declared" if v in vals else "custom"
                        run.violation(
                            f"enum-use:{d.pyname}.{a}:{ename}:{kind}",
                            f"{d.pyname}.{a}: {kind} value {v!r} of {'open' if mm.is_open_enum(ename) else 'closed'} enumeration {ename} should be {'accepted and round-trip' if accept else 'rejected'}; {obs}",
                            {"input": j, "observed": obs, "replay": f"converter.structure(<input>, lsprotocol.types.{d.pyname})"},
                            True,
                        )
    # ---- closed enumerations must not have a lookup back door: a `_missing_` hook (or a metaclass __call__) that maps undeclared values to
    #      members.  Probed with every constant the hook's code mentions, with case / whitespace variants of the declared values and with
    #      the member names.
    import enum as _enum

    coerced: Dict[str, List[str]] = {}
    for ename, ed in mm.enumerations.items():
        if mm.is_open_enum(ename):
            continue
        ecls = getattr(T, ename, None)
        if ecls is None or not (isinstance(ecls, type) and issubclass(ecls, _enum.Enum)):
            continue
        vals = [v["value"] for v in ed["values"]]
        probes: List[Any] = []
        if ed["type"]["name"] == "string":
            for w in vals + [v["name"] for v in ed["values"]]:
                probes += [w.upper(), w.lower(), w.capitalize(), w.title(), w.swapcase(), " " + w, w + " ", w + "\n"]
        else:
            probes += [str(v) for v in vals] + [float(v) + 0.5 for v in vals[:2]] + [float(vals[0]), True, None]
        hook = None
        for k in ecls.__mro__:
            if k in (_enum.Enum, object) or k.__module__ == "enum":
                continue
            if "_missing_" in k.__dict__:
                hook = k.__dict__["_missing_"]
                break
        if hook is not None:
            fn = getattr(hook, "__func__", hook)
            stack = [fn.__code__]
            while stack:
                code = stack.pop()
                for c in code.co_consts:
                    if isinstance(c, type(code)):
                        stack.append(c)
                    elif isinstance(c, (str, int, float)) and not isinstance(c, bool):
                        probes.append(c)
                    elif isinstance(c, (tuple, frozenset)):
                        probes += [x for x in c if isinstance(x, (str, int, float)) and not isinstance(x, bool)]
                for nm in code.co_names:
                    g = getattr(fn, "__globals__", {}).get(nm)
                    if isinstance(g, dict):
                        probes += [x for x in list(g.keys()) + list(g.values()) if isinstance(x, (str, int, float))]
                        for vv in g.values():
                            if isinstance(vv, dict):
                                probes += [x for x in list(vv.keys()) + list(vv.values()) if isinstance(x, (str, int, float))]
                    elif isinstance(g, (tuple, list, set, frozenset)):
                        probes += [x for x in g if isinstance(x, (str, int, float))]
        for v in dict.fromkeys(pr for pr in probes if not any(pr == d_ and type(pr) is type(d_) for d_ in vals)):
            sweep += 1
            try:
                got = ecls(v)
            except (ValueError, TypeError, KeyError):
                continue
            except Exception:  # noqa
                continue
            if hook is None and isinstance(v, (bool, float)) and any(v == d_ for d_ in vals):
                # Python's Enum lookup compares with ==: true == 1 and 1.0 == 1.  One obligation for the whole class of enumerations.
                coerced.setdefault(type(v).__name__, []).append(ename)
                continue
            run.violation(f"enum-lookup:{ename}:{v!r}", f"closed enumeration {ename} maps the undeclared value {v!r} to the member {got!r} (cattrs structures an enum-typed property by calling the class)" + (" — through its _missing_ hook" if hook is not None else ""), {"value": v, "member": repr(got), "replay": f"lsprotocol.types.{ename}({v!r})"}, True)
    if coerced:
        run.violation(
            "C13:coercion:number-equal-to-member",
            f"a JSON boolean or non-integer-typed number that is == a member's value (true == 1, 1.0 == 1) is accepted for integer-valued closed enumerations ({sum(len(v) for v in coerced.values())} cases, e.g. {sorted(set(sum(coerced.values(), [])))[:4]}): Enum lookup compares with ==",
            {"by_kind": {k: sorted(set(v)) for k, v in coerced.items()}, "replay": "lsprotocol.types.DiagnosticSeverity(True)"},
            True,
        )
    # ---- the same, for enumeration-typed properties of an object reached THROUGH a union-typed property of the container (the hook decides
    #      how that object is built: a hand-built alternative skips the enum conversion)
    from lib.sweeps import union_nested_sites

    seen_nested = set()
    for d in decls:
        cls = getattr(T, d.pyname, None)
        if cls is None:
            continue
        base = None
        for p in d.props:
            if p.get("_envelope"):
                continue
            for alt_t, nprops, place in union_nested_sites(mm, p["type"]):
                for q in nprops:
                    for ename, wrap in enum_positions(mm, q["type"], lambda v: v):
                        ed = mm.enumerations[ename]
                        vals = [v["value"] for v in ed["values"]]
                        is_str = ed["type"]["name"] == "string"
                        custom = [c for c in (["x-custom", "", "UPPER"] if is_str else [4242, 0, -5 if ed["type"]["name"] == "integer" else 99]) if c not in vals]
                        try:
                            inner0 = mm.witness(alt_t, False, 2)
                        except Exception:  # noqa
                            continue
                        if not isinstance(inner0, dict):
                            continue
                        if base is None:
                            base = mm.witness_props(d.props, False, 0)
                        for v, accept in [(v, True) for v in vals[:3]] + [(c, mm.is_open_enum(ename)) for c in custom]:
                            inner = dict(inner0)
                            inner[q["name"]] = wrap(v)
                            val = place(inner)
                            okv = mm.valid(p["type"], val, True)
                            if accept and not okv:
                                continue
                            if not accept and mm.valid(p["type"], val, False):
                                continue
                            j = dict(base)
                            j[p["name"]] = val
                            sweep += 1
                            try:
                                obj = conv.structure(j, cls)
                                back = conv.unstructure(obj)
                                ok = accept and json_equal(back.get(p["name"]), mm.norm(p["type"], val))
                                obs = f"accepted; re-serialised {p['name']} = {str(back.get(p['name']))[:120]}"
                            except Exception as ex:  # noqa
                                ok = not accept
                                obs = f"rejected ({type(ex).__name__})"
                            if ok:
                                continue
                            a = next((a_.name for a_ in live.attrs.fields(cls) if (live.wire_name(cls, a_.name) or a_.name) == p["name"]), p["name"])
                            kind = "declared" if v in vals else "custom"
                            an = alt_t["name"] if alt_t["kind"] == "reference" else "literal"
                            key = f"enum-use:{d.pyname}.{a}>{an}.{q['name']}:{ename}:{kind}"
                            if key in seen_nested:
                                continue
                            seen_nested.add(key)
                            run.violation(key, f"{d.pyname}.{a}: {kind} value {v!r} of {'open' if mm.is_open_enum(ename) else 'closed'} enumeration {ename} at {q['name']} inside the {an} alternative should be {'accepted and round-trip' if accept else 'rejected'}; {obs}", {"input": j, "observed": obs, "replay": f"converter.structure(<input>, lsprotocol.types.{d.pyname})"}, True)
    if n1 == 0:
        run.crash("no enum obligation")
    run.assume(*U.ASSUMPTIONS[:3], "CompletionItemKind is counted as open (documented customisation)", "cattrs structures an Enum-annotated field with Enum(v) (assumed row; exercised at every use site by the sweep)")
    return run.finish(
        {
            "obligations": n1 + n2 + n3 + cov["n_ob"],
            "discharged": d1 + d2 + d3 + cov["n_dis"],
            "checker_cmd": "bin/check C13",
            "trusted_base": ["z3/cvc5", "pyvc + jsonsym", "oracle/metamodel.py", "cattrs Enum row"],
            "enumerations": len(mm.enumerations),
            "open_enum_handler_sites": len(enum_results),
            "handlers_under_contract": cov["functions"],
            "use_site_sweep_cases": sweep,
            "smt_by_backend": cov["backends"],
            "cross_check": cov.get("cross_check"),
            "samples": e.samples[:3] + cov["samples"][:3],
        }
    )
