"""C04 — the generated Python package is a complete, faithful image of the metamodel."""
from __future__ import annotations

import ast
import os
from typing import List

from lib.pylive import Live, REPO
from lib.report import Run
from lib.tables import check_aliases, check_classes, check_enums
from oracle.metamodel import MetaModel
from oracle.pairing import all_class_decls
from props import _tables

FACETS = ["class-exists", "wire-name", "no-extra-attr", "attr-for-prop", "required", "default", "annotation", "validator", "enum-exists", "enum-values", "enum-base", "alias-exists"]


def main(argv: List[str]) -> int:
    run = Run("C04", "proof", argv)
    live = Live()
    mm = MetaModel.load()
    from contracts import genhelpers as gh
    from lib.helpers_verify import verify_field_validator, verify_helper_items
    from lib.smtrun import SmtStats

    stats = SmtStats()
    w_, i_, items_ = gh.python_special_items()
    verify_helper_items(run, stats, w_, i_, items_)
    verify_field_validator(run, stats)
    res = check_classes(live, mm)
    e = check_enums(live, mm)
    a = check_aliases(live, mm)
    n1, d1 = _tables.report(run, res, FACETS)
    n2, d2 = _tables.report(run, e, FACETS)
    n3, d3 = _tables.report(run, a, FACETS)
    # the other direction: nothing extra.  Every attrs class / enum defined in types.py is accounted for.
    tree = ast.parse(open(os.path.join(REPO, "packages/python/lsprotocol/types.py"), encoding="utf-8").read())
    defined = [n.name for n in tree.body if isinstance(n, ast.ClassDef)]
    expected = {d.pyname for d in all_class_decls(mm)} | set(mm.enumerations) | set(mm.aliases) | {"ResponseError", "ResponseErrorMessage", "MessageDirection", "LSPObject"}
    n4 = d4 = 0
    from oracle.pytypes import all_anonymous_types

    anon_sets = []
    for t in all_anonymous_types(mm):
        props = t["value"]["properties"] if t["kind"] == "literal" else mm.and_props(t)
        anon_sets.append(frozenset(p["name"] for p in props))
    for name in defined:
        n4 += 1
        if name in expected:
            d4 += 1
            continue
        # generated classes of anonymous literal / and types: accounted for when some anonymous type of the metamodel has exactly their wire names
        cls = getattr(live.types, name, None)
        if isinstance(cls, type) and live.attrs.has(cls):
            wn = frozenset((live.wire_name(cls, a.name) or a.name) for a in live.attrs.fields(cls))
            if wn in anon_sets:
                d4 += 1
                continue
        if name.startswith("_") and isinstance(cls, type) and not live.attrs.has(cls) and not issubclass(cls, __import__("enum").Enum):
            # a private helper class (a mixin carrying shared methods): not a protocol type, nothing of the metamodel corresponds to it
            d4 += 1
            run.notes.append(f"lsprotocol.types defines the private helper class {name} (no attrs class, no enumeration): not a protocol type")
            continue
        run.violation(f"table:{name}:extra-class", f"lsprotocol.types defines class {name}, which corresponds to no metamodel declaration", {"class": name}, True)
    if n1 == 0:
        run.crash("no table obligation generated")
    run.assume(
        "the metamodel oracle (flattening: own > parent > grandparent; documented type mapping) is written from the property statement, independently of the generator",
        "anonymous literal / and types are paired with generated classes by their set of wire names",
        "typing == decides annotation equality (Union flattening/ordering as typing defines it)",
        "wire names are read off the overrides the live converter holds for each class",
    )
    return run.finish(
        {
            "obligations": n1 + n2 + n3 + n4 + stats.obligations,
            "discharged": d1 + d2 + d3 + d4 + stats.discharged,
            "smt": stats.coverage(),
            "checker_cmd": "bin/check C04 (exhaustive evaluation of the class/enum/alias tables against generator/lsp.json)",
            "trusted_base": ["z3/cvc5 + pyvc (generator decision helpers)", "oracle/metamodel.py", "attrs.fields / cattrs overrides as read from the live objects", "typing equality"],
            "by_facet": {**res.obligations, **e.obligations, **a.obligations, "no-extra-class": n4},
            "exhaustive": True,
            "samples": res.samples[:6] + e.samples[:2],
        }
    )
