"""C06 — the generator is correct on every schema-valid evolution of the metamodel (bounded family of evolved models)."""
from __future__ import annotations

import concurrent.futures as cf
import itertools
import json
import os
import random
import re
import shutil
import subprocess
from typing import Any, Dict, List, Optional, Tuple

from lib import gen
from lib.report import Run, VERIF
from oracle import evolve as ev

REPO = gen.REPO
PY_SUB = ["C04", "C09", "C10", "C01", "C03", "C02"]
OTHER_SUB = ["C07", "C08", "C17", "C16"]
RUNTIME_FILES = ["__init__.py", "_hooks.py", "converters.py", "validators.py", "py.typed"]


def build_overlay(tmp: str, name: str, doc: Dict) -> str:
    ov = os.path.join(tmp, name)
    shutil.copytree(os.path.join(REPO, "generator"), os.path.join(ov, "generator"), ignore=shutil.ignore_patterns("__pycache__"))
    json.dump(doc, open(os.path.join(ov, "generator", "lsp.json"), "w"))
    pyd = os.path.join(ov, "packages", "python", "lsprotocol")
    os.makedirs(pyd)
    for f in RUNTIME_FILES:
        src = os.path.join(REPO, "packages", "python", "lsprotocol", f)
        if os.path.exists(src):
            shutil.copy(src, os.path.join(pyd, f))
    os.makedirs(os.path.join(ov, "packages", "rust", "lsprotocol", "src"))
    shutil.copy(os.path.join(REPO, "packages", "rust", "lsprotocol", "Cargo.toml"), os.path.join(ov, "packages", "rust", "lsprotocol", "Cargo.toml"))
    return ov


def run_sub(ov: str, pid: str, tier: str) -> Tuple[int, List[Tuple[str, str]], str]:
    env = dict(os.environ)
    env["VERIF_REPO"] = ov
    env["VERIF_EVIDENCE_DIR"] = os.path.join(ov, "_evidence")
    env["VERIF_REPLAY_DIR"] = os.path.join(ov, "_replays")
    env["VERIF_TIER"] = "quick"
    env["VERIF_SCRATCH"] = ov
    p = subprocess.run([os.path.join(VERIF, "bin", "check"), pid, "--tier", "quick"], capture_output=True, text=True, env=env, timeout=1800)
    out = p.stdout + p.stderr
    viol = []
    lines = out.splitlines()
    for i, l in enumerate(lines):
        if l.startswith("VIOLATION "):
            ob = lines[i + 1].split("obligation: ", 1)[1] if i + 1 < len(lines) and "obligation: " in lines[i + 1] else "?"
            what = lines[i + 2].split("what: ", 1)[1] if i + 2 < len(lines) and "what: " in lines[i + 2] else ""
            viol.append((ob, what))
    return p.returncode, viol, out[-1500:]


def main(argv: List[str]) -> int:
    run = Run("C06", "other", argv)
    import jsonschema

    doc = json.load(open(os.path.join(REPO, "generator", "lsp.json"), "rb"))
    schema = json.load(open(os.path.join(REPO, "generator", "lsp.schema.json"), "rb"))
    rooted = {**schema, "$ref": "#/definitions/MetaModel"}
    names = [n for n, _ in ev.EDITS]
    rnd = random.Random(run.seed)
    models: List[Tuple[str, List[str], int]] = [("identity", [], 0)]
    if run.tier == "quick":
        # every edit kind once, grouped into a few models (sites chosen by VERIF_SEED)
        order = list(names)
        groups = [order[i::4] for i in range(4)]
        for gi, g in enumerate(groups):
            models.append((f"group{gi}", g, run.seed * 31 + gi))
    else:
        for n in names:
            for k in range(2):
                models.append((f"{n}@{k}", [n], run.seed * 97 + k))
        pairs = list(itertools.combinations(names, 2))
        rnd.shuffle(pairs)
        for a, b in pairs[:20]:
            models.append((f"{a}+{b}", [a, b], rnd.randrange(10**6)))
    restricted = {}
    for rn, (_, r_plugins, r_subs) in ev.RESTRICTED.items():
        models.append((f"{rn}@only", [rn], run.seed * 13 + 1))
        restricted[f"{rn}@only"] = (r_plugins, r_subs)
    tmp = gen.scratch("verif-c06-")
    sub_runs = 0
    plugin_runs = 0
    evolved = []
    try:
        jobs = []
        for mname, edits, seed in models:
            d = ev.evolve(doc, edits, seed)
            try:
                jsonschema.validate(d, rooted)
            except jsonschema.ValidationError as e:
                run.crash(f"evolution {mname} ({edits}) is not schema-valid: {str(e)[:200]}")
                continue
            ov = build_overlay(tmp, re.sub(r"[^A-Za-z0-9_.+@-]", "_", mname), d)
            evolved.append({"model": mname, "edits": edits, "seed": seed, "structures": len(d["structures"]), "requests": len(d["requests"])})
            # every plugin terminates successfully
            ok = True
            if mname in restricted:
                # an edit only some plugins can process: those plugins and their checks only
                for pl, outdir in (("python", os.path.join(ov, "packages", "python")), ("rust", os.path.join(ov, "packages", "rust")), ("dotnet", os.path.join(ov, "_dotnet"))):
                    if pl in restricted[mname][0]:
                        rc, log, dt = gen.run_plugin(pl, outdir, repo=ov)
                        plugin_runs += 1
                        if rc != 0:
                            run.violation(f"evolve:{pl}:exit:{'+'.join(edits)}", f"{pl} plugin fails on the evolved model {mname}: {log[-200:]}", {"model": mname, "edits": edits, "seed": seed, "plugin": pl, "exit": rc, "log": log[-1500:]}, True)
                for pid in restricted[mname][1]:
                    jobs.append((mname, edits, seed, ov, pid))
                continue
            for pl, outdir in (("python", os.path.join(ov, "packages", "python")), ("rust", os.path.join(ov, "packages", "rust")), ("dotnet", os.path.join(ov, "_dotnet"))):
                rc, log, dt = gen.run_plugin(pl, outdir, repo=ov)
                plugin_runs += 1
                if rc != 0:
                    ok = ok and pl != "python"
                    err = [l for l in log.splitlines() if "Error" in l or "error" in l][-1:] or [log[-200:]]
                    run.violation(f"evolve:{pl}:exit:{mname if mname == 'identity' else '+'.join(edits)}", f"{pl} plugin fails on the evolved model {mname} ({edits}): {err[0][:200]}", {"model": mname, "edits": edits, "seed": seed, "plugin": pl, "exit": rc, "log": log[-1500:], "replay": f"oracle.evolve.evolve(lsp.json, {edits}, {seed}) -> python -m generator --model <evolved> --plugin {pl}"}, True)
            lib = os.path.join(ov, "packages", "rust", "lsprotocol", "src", "lib.rs")
            if os.path.exists(lib):
                fm = subprocess.run([gen.RUSTFMT, "--edition", "2021", lib], capture_output=True, text=True)
                if fm.returncode != 0:
                    run.violation(f"evolve:{'+'.join(edits) or 'identity'}:rust:parses", f"rustfmt rejects lib.rs generated from the evolved model {mname}: {fm.stderr[:200]}", {"model": mname, "edits": edits, "stderr": fm.stderr[-1200:]}, True)
            # the generated module imports together with the unchanged runtime files
            imp = subprocess.run(["/venv/bin/python", "-c", "import sys; sys.path.insert(0, sys.argv[1]); import lsprotocol.types, lsprotocol.converters as c; c.get_converter()", os.path.join(ov, "packages", "python")], capture_output=True, text=True)
            if imp.returncode != 0:
                run.violation(f"evolve:{'+'.join(edits) or 'identity'}:python:import", f"the module generated from the evolved model {mname} does not import: {imp.stderr.strip().splitlines()[-1][:200] if imp.stderr.strip() else ''}", {"model": mname, "edits": edits, "seed": seed, "stderr": imp.stderr[-1500:]}, True)
                subs = OTHER_SUB
            else:
                subs = PY_SUB + OTHER_SUB
            if mname == "identity":
                subs = [s for s in subs if s in ("C04", "C07")]  # the identity edit is the committed model: the registered checks cover it
            for pid in subs:
                jobs.append((mname, edits, seed, ov, pid))
        with cf.ThreadPoolExecutor(max_workers=5) as ex:
            results = list(ex.map(lambda j: (j, run_sub(j[3], j[4], run.tier)), jobs))
        for (mname, edits, seed, ov, pid), (rc, viol, tail) in results:
            sub_runs += 1
            tag = "+".join(edits) or "identity"
            if rc == 1:
                for ob, what in viol[:6]:
                    run.violation(f"evolve:{pid}:{ob}", f"on the evolved model {mname} ({edits}) check {pid} fails: {what[:300]}", {"model": mname, "edits": edits, "seed": seed, "sub_check": pid, "sub_obligation": ob, "replay": f"VERIF_REPO=<overlay built from oracle.evolve.evolve(lsp.json, {edits}, {seed})> bin/check {pid}"}, True)
                if not viol:
                    run.crash(f"sub-check {pid} on {mname} exited 1 without a VIOLATION line: {tail[-300:]}")
            elif rc == 2:
                run.undecide(f"sub-check {pid} on evolved model {mname} is undecided: {tail[-300:]}")
            elif rc != 0:
                run.crash(f"sub-check {pid} on evolved model {mname} crashed (exit {rc}): {tail[-400:]}")
    finally:
        shutil.rmtree(tmp, ignore_errors=True)
    run.assume(
        "the quantifier (all metamodels reachable by sequences of the listed edits) is explored on a finite catalogue only: "
        + ("every edit kind once, grouped into 4 models, sites chosen by VERIF_SEED" if run.tier == "quick" else "every edit kind alone at 2 sites plus 20 random pairs"),
        "new / removed properties are placed only on structures that are not alternatives (or ancestors of alternatives) of a union: those unions are parsed by hand-written hooks whose discriminators the generator does not regenerate, so changing the alternatives' key sets is outside the input discipline (observed with VERIF_SEED=4: a null-admitting property added to StaticRegistrationOptions is dropped by the hooks that test for the key 'id')",
        "each evolved model is validated against #/definitions/MetaModel before use; 'inside the input discipline' = only unions that already have a handler, or[T,null], and the type forms the statement lists",
        "the sub-checks are the registered checks of C01-C04, C09, C10, C07, C08, C17 re-run with VERIF_REPO pointing at an overlay tree (evolved lsp.json, regenerated types.py / lib.rs, unchanged runtime files); their own assumptions apply",
    )
    return run.finish(
        {
            "explanation": "bounded family of evolved metamodels given to all four plugins; 'terminates successfully', 'imports', 'rustfmt parses' and the whole C01-C04/C09/C10/C07/C08/C17 machinery are evaluated against each evolved metamodel",
            "evaluations": sub_runs + plugin_runs,
            "distinct_nontrivial": len(evolved),
            "rule": "one evaluation = one plugin run or one sub-check run on one evolved model; distinct = evolved models",
            "evolved_models": evolved,
            "edit_kinds": names,
            "sub_check_runs": sub_runs,
            "plugin_runs": plugin_runs,
            "samples": evolved[:5],
        }
    )
