"""C19 — converters are independent of creation order, count, configuration and threads."""
from __future__ import annotations

import ast
import concurrent.futures as cf
import json
import os
import subprocess
import sys
from typing import Any, Dict, List, Optional, Set, Tuple

from lib.report import Run, VERIF

REPO = os.environ.get("VERIF_REPO", "/repo")
HOOKS_REL = "packages/python/lsprotocol/_hooks.py"
TYPES_REL = "packages/python/lsprotocol/types.py"
CONV_REL = "packages/python/lsprotocol/converters.py"
MUTATORS = {"append", "extend", "add", "update", "setdefault", "pop", "popitem", "clear", "remove", "discard", "insert", "__setitem__", "sort", "reverse"}
MUTABLE_CTORS = {"dict", "list", "set", "defaultdict", "OrderedDict", "WeakKeyDictionary", "WeakValueDictionary", "Counter", "deque"}
LOCK_CTORS = {"Lock", "RLock"}


def probe(spec: Dict[str, Any], timeout: int = 180) -> Dict[str, Any]:
    env = dict(os.environ)
    env["PYTHONDONTWRITEBYTECODE"] = "1"
    p = subprocess.run(["/venv/bin/python", os.path.join(VERIF, "tools", "c19_probe.py"), json.dumps(spec)], capture_output=True, text=True, timeout=timeout, env=env)
    for line in p.stdout.splitlines():
        if line.startswith("RESULT "):
            return json.loads(line[7:])
    return {"error": (p.stdout + p.stderr)[-1500:]}


class ModuleFacts:
    def __init__(self, rel: str):
        self.rel = rel
        self.tree = ast.parse(open(os.path.join(REPO, rel), encoding="utf-8").read())
        self.mutable_globals: Dict[str, str] = {}
        self.locks: Set[str] = set()
        self.flags: Set[str] = set()
        self.cached_funcs: Dict[str, str] = {}
        for node in self.tree.body:
            tgt = None
            val = None
            if isinstance(node, ast.Assign) and len(node.targets) == 1 and isinstance(node.targets[0], ast.Name):
                tgt, val = node.targets[0].id, node.value
            elif isinstance(node, ast.AnnAssign) and isinstance(node.target, ast.Name) and node.value is not None:
                tgt, val = node.target.id, node.value
            if tgt is not None:
                if isinstance(val, (ast.Dict, ast.List, ast.Set, ast.DictComp, ast.ListComp, ast.SetComp)):
                    self.mutable_globals[tgt] = type(val).__name__
                elif isinstance(val, ast.Call):
                    fn = ast.unparse(val.func).split(".")[-1]
                    if fn in MUTABLE_CTORS:
                        self.mutable_globals[tgt] = fn
                    if fn in LOCK_CTORS:
                        self.locks.add(tgt)
                elif isinstance(val, ast.Constant) and isinstance(val.value, bool):
                    self.flags.add(tgt)
            if isinstance(node, ast.FunctionDef):
                for d in node.decorator_list:
                    ds = ast.unparse(d)
                    if "cache" in ds:
                        self.cached_funcs[node.name] = ds
        # cached methods of classes (static / class / instance methods): a cache on a class is as process-wide as one on the module
        self.cached_methods: Dict[str, Tuple[ast.FunctionDef, str]] = {}
        for cls_node in ast.walk(self.tree):
            if isinstance(cls_node, ast.ClassDef):
                for node in cls_node.body:
                    if isinstance(node, ast.FunctionDef):
                        for d in node.decorator_list:
                            ds = ast.unparse(d)
                            if "cache" in ds and "cached_property" not in ds:
                                self.cached_methods[f"{cls_node.name}.{node.name}"] = (node, ds)

    def functions(self):
        for node in ast.walk(self.tree):
            if isinstance(node, (ast.FunctionDef, ast.Lambda)):
                yield node


PURE_BUILTINS = {"str", "len", "int", "bool", "float", "tuple", "frozenset", "isinstance", "range", "enumerate", "zip", "sorted", "reversed", "min", "max", "sum", "any", "all", "repr", "ord", "chr", "abs"}


def is_value_pure(fn: ast.FunctionDef, own_cache: Set[str] = frozenset()) -> bool:
    """A function whose result is computed from its (at least one) parameters by string / tuple / arithmetic operations only: no reference
    to a converter, cattrs, attrs, the generated classes or any module-level name other than `own_cache` (a memo table it maintains), no call
    except builtins on the allow-list and methods of its own parameters / locals / literals.  Memoising such a function - by a decorator or
    by a module-level dict keyed by its arguments - is invisible to every converter (idempotent even under races)."""
    params = {a.arg for a in fn.args.args + fn.args.kwonlyargs}
    if not params or fn.args.vararg or fn.args.kwarg:
        return False
    local = set(params)
    for node in (x for st in fn.body for x in ast.walk(st)):
        if isinstance(node, ast.Name) and isinstance(node.ctx, ast.Store):
            local.add(node.id)
        if isinstance(node, ast.comprehension):
            for y in ast.walk(node.target):
                if isinstance(y, ast.Name):
                    local.add(y.id)
    for node in (x for st in fn.body for x in ast.walk(st)):
        if isinstance(node, (ast.Global, ast.Nonlocal, ast.Lambda, ast.Await, ast.Yield, ast.YieldFrom, ast.Import, ast.ImportFrom, ast.With, ast.Try)):
            return False
        if isinstance(node, ast.FunctionDef) and node is not fn:
            return False
        if isinstance(node, ast.Name) and isinstance(node.ctx, ast.Load):
            if node.id not in local and node.id not in PURE_BUILTINS and node.id not in own_cache and node.id not in ("True", "False", "None"):
                return False
        if isinstance(node, ast.Call):
            f = node.func
            if isinstance(f, ast.Name):
                if f.id not in PURE_BUILTINS:
                    return False
            elif isinstance(f, ast.Attribute):
                base = f.value
                while isinstance(base, (ast.Attribute, ast.Subscript, ast.Call)):
                    base = base.func if isinstance(base, ast.Call) else base.value
                if isinstance(base, ast.Name):
                    if base.id not in local and base.id not in own_cache:
                        return False
                elif not isinstance(base, (ast.Constant, ast.JoinedStr)):
                    return False
            else:
                return False
    return True


def key_insensitive(fn: ast.FunctionDef, deco: str) -> bool:
    """A memo table looks its arguments up with == / hash, under which 1, True and 1.0 are one key.  A cached function whose result shows
    the TYPE or spelling of an argument (it formats it: f-string, str(), repr(), format(), %) is safe only if every parameter is annotated
    `str` (strings equal only strings) or the cache is `typed=True`."""
    if "typed=True" in deco.replace(" ", ""):
        return True
    params = [a for a in fn.args.args + fn.args.kwonlyargs if a.arg not in ("self", "cls")]
    if all(a.annotation is not None and ast.unparse(a.annotation) in ("str", "'str'") for a in params):
        return True
    names = {a.arg for a in params}
    for node in ast.walk(fn):
        if isinstance(node, ast.FormattedValue) and any(isinstance(x, ast.Name) and x.id in names for x in ast.walk(node.value)):
            return False
        if isinstance(node, ast.Call) and isinstance(node.func, ast.Name) and node.func.id in ("str", "repr", "format", "type") and any(isinstance(x, ast.Name) and x.id in names for a in node.args for x in ast.walk(a)):
            return False
        if isinstance(node, ast.BinOp) and isinstance(node.op, ast.Mod) and isinstance(node.left, ast.Constant) and isinstance(node.left.value, str):
            return False
        if isinstance(node, ast.Call) and isinstance(node.func, ast.Attribute) and node.func.attr == "format":
            return False
    return True


def effectively_constant(mod: "ModuleFacts", name: str) -> bool:
    """A module-level dict / list / set display that nothing in the module can change: no function stores into it, calls a mutating method on
    it, deletes from it or rebinds it, and it never escapes (no alias, not returned, not passed to a call other than a reading builtin)."""
    return _constant_in(mod, mod.tree, name, 0, top=True)


def _constant_in(mod: "ModuleFacts", scope: ast.AST, name: str, depth: int, top: bool = False) -> bool:
    READERS = {"len", "sorted", "tuple", "frozenset", "dict", "list", "set", "iter", "enumerate", "zip", "isinstance", "any", "all", "min", "max", "sum", "reversed", "next", "bool", "repr", "str"}
    if any(w[0] == name for w in writes_in(scope, {name})):
        return False
    defs = 0
    local_fns = {f.name: f for f in ast.walk(mod.tree) if isinstance(f, ast.FunctionDef)}
    for node in ast.walk(scope):
        if isinstance(node, ast.Global) and name in node.names:
            return False
        if isinstance(node, (ast.Assign, ast.AnnAssign, ast.AugAssign, ast.NamedExpr)):
            targets = node.targets if isinstance(node, ast.Assign) else [node.target]
            if any(isinstance(t, ast.Name) and t.id == name for t in targets):
                defs += 1
            val = getattr(node, "value", None)
            if isinstance(val, ast.Name) and val.id == name:
                return False  # alias
        if isinstance(node, (ast.Return, ast.Yield)) and isinstance(node.value, ast.Name) and node.value.id == name:
            return False
        if isinstance(node, ast.Call):
            for pos, a in [(i, x) for i, x in enumerate(node.args)] + [(k.arg, k.value) for k in node.keywords]:
                if isinstance(a, ast.Name) and a.id == name and not (isinstance(node.func, ast.Name) and node.func.id in READERS):
                    # handed to a function of this module: constant if that function only reads its parameter
                    callee = local_fns.get(node.func.id) if isinstance(node.func, ast.Name) else None
                    if callee is None or depth >= 2:
                        return False
                    params = [p.arg for p in callee.args.args]
                    pname = params[pos] if isinstance(pos, int) and pos < len(params) else (pos if pos in params else None)
                    if pname is None or not _constant_in(mod, callee, pname, depth + 1):
                        return False
    return defs == 1 if top else defs == 0


def writes_in(fn: ast.AST, names: Set[str]) -> List[Tuple[str, str, int]]:
    """Mutations of module-level names inside fn: global rebinding, subscript/attribute stores, mutating method calls."""
    out = []
    declared_global: Set[str] = set()
    for node in ast.walk(fn):
        if isinstance(node, ast.Global):
            declared_global |= set(node.names)
    for node in ast.walk(fn):
        if isinstance(node, (ast.Assign, ast.AugAssign, ast.AnnAssign)):
            targets = node.targets if isinstance(node, ast.Assign) else [node.target]
            for t in targets:
                for sub in ast.walk(t):
                    if isinstance(sub, ast.Name) and isinstance(sub.ctx, ast.Store) and sub.id in declared_global:
                        out.append((sub.id, "rebinds global", node.lineno))
                    if isinstance(sub, (ast.Subscript, ast.Attribute)) and isinstance(sub.ctx, ast.Store):
                        base = sub.value
                        while isinstance(base, (ast.Subscript, ast.Attribute)):
                            base = base.value
                        if isinstance(base, ast.Name) and base.id in names:
                            out.append((base.id, "stores into", node.lineno))
        if isinstance(node, ast.Call) and isinstance(node.func, ast.Attribute) and node.func.attr in MUTATORS:
            base = node.func.value
            while isinstance(base, (ast.Subscript, ast.Attribute)):
                base = base.value
            if isinstance(base, ast.Name) and base.id in names:
                out.append((base.id, f"calls .{node.func.attr}() on", node.lineno))
        if isinstance(node, ast.Delete):
            for t in node.targets:
                base = t
                while isinstance(base, (ast.Subscript, ast.Attribute)):
                    base = base.value
                if isinstance(base, ast.Name) and base.id in names:
                    out.append((base.id, "deletes from", node.lineno))
    return out


CONFIG_TEXT = {
    "copy": "get_converter().copy()",
    "prefer": "get_converter(cattrs.Converter(prefer_attrib_converters=True))",
    "omitdefault": "get_converter(cattrs.Converter(omit_if_default=True))",
    "interrupted-first": "the process's first get_converter() is interrupted by KeyboardInterrupt in the 50th attrs.resolve_types call, caught, and get_converter() is called again",
}


def main(argv: List[str]) -> int:
    run = Run("C19", "other", argv)
    n = ok = 0

    def ob(cond: bool, key: str, what: str, found: bool = False, **detail):
        nonlocal n, ok
        n += 1
        if cond:
            ok += 1
        else:
            run.violation(key, what, detail, found)

    hooks = ModuleFacts(HOOKS_REL)
    types = ModuleFacts(TYPES_REL)
    conv = ModuleFacts(CONV_REL)
    # ------------------------------------------------------------------ (a) frame / ownership
    # 1. no function of the runtime package writes module-level state, except the once-flag inside _resolve_forward_references
    for mod in (hooks, types, conv):
        top_names = set(mod.mutable_globals) | mod.flags | {n_.targets[0].id for n_ in mod.tree.body if isinstance(n_, ast.Assign) and len(n_.targets) == 1 and isinstance(n_.targets[0], ast.Name)}
        for fn in mod.tree.body:
            if not isinstance(fn, ast.FunctionDef):
                continue
            ws = writes_in(fn, top_names)
            for name, how, line in ws:
                allowed = mod is hooks and fn.name == "_resolve_forward_references" and name == "_resolved_forward_references"
                if not allowed and mod.mutable_globals.get(name) in ("Dict", "dict") and how == "stores into" and is_value_pure(fn, {name}):
                    allowed = True  # a memo table of a value-pure function
                    run.notes.append(f"{mod.rel.split('/')[-1]}::{fn.name} memoises a value-pure computation in module-level `{name}`: invisible to converters")
                ob(allowed, f"frame:{mod.rel.split('/')[-1]}:{fn.name}:{name}", f"{mod.rel.split('/')[-1]}::{fn.name} {how} module-level `{name}`: state shared by all converters (and threads) is mutated outside the once-only resolution", function=fn.name, name=name)
            if not ws:
                ob(True, "", "")
        for qn, (mdef, deco) in mod.cached_methods.items():
            pure = is_value_pure(mdef) and key_insensitive(mdef, deco)
            if pure:
                run.notes.append(f"{mod.rel.split('/')[-1]}::{qn} is cached ({deco}) but value-pure and insensitive to the type of its arguments")
            ob(pure, f"frame:{mod.rel.split('/')[-1]}:{qn}:cache", f"{mod.rel.split('/')[-1]}::{qn} is decorated with {deco}: its results are shared process-wide" + ("" if not is_value_pure(mdef) else "; the memo key conflates 1 / True / 1.0 while the result shows which one was passed, so an earlier call with an equal value of another type changes what a later call returns"))
        for name, deco in mod.cached_funcs.items():
            fdef = next((f_ for f_ in mod.tree.body if isinstance(f_, ast.FunctionDef) and f_.name == name), None)
            if fdef is not None and is_value_pure(fdef) and key_insensitive(fdef, deco):
                ob(True, "", "")
                run.notes.append(f"{mod.rel.split('/')[-1]}::{name} is cached ({deco}) but value-pure (result computed from its arguments only): invisible to converters")
                continue
            ob(False, f"frame:{mod.rel.split('/')[-1]}:{name}:cache", f"{mod.rel.split('/')[-1]}::{name} is decorated with {deco}: results are shared process-wide across converters and threads")
    # 2. hooks close over their own converter only: free variables of every nested function in the three register functions
    allowed_free = {"converter", "lsp_types"}
    for outer in hooks.tree.body:
        if isinstance(outer, ast.FunctionDef) and outer.name.startswith("_register"):
            local_defs = {x.name for x in ast.walk(outer) if isinstance(x, ast.FunctionDef) and x is not outer}
            local_assigned = {t.id for x in ast.walk(outer) if isinstance(x, ast.Assign) for t in x.targets if isinstance(t, ast.Name)}
            for inner in ast.walk(outer):
                if isinstance(inner, (ast.FunctionDef, ast.Lambda)) and inner is not outer:
                    params = {a.arg for a in inner.args.args}
                    bound = set(params)
                    for x in ast.walk(inner):
                        if isinstance(x, ast.Name) and isinstance(x.ctx, ast.Store):
                            bound.add(x.id)
                        if isinstance(x, ast.comprehension):
                            for y in ast.walk(x.target):
                                if isinstance(y, ast.Name):
                                    bound.add(y.id)
                    used = {x.id for x in ast.walk(inner) if isinstance(x, ast.Name) and isinstance(x.ctx, ast.Load)}
                    free = used - bound
                    shared = {f for f in free if f in hooks.mutable_globals and not effectively_constant(hooks, f)}
                    nm = getattr(inner, "name", f"<lambda@{inner.lineno}>")
                    ob(not shared, f"frame:hook:{nm}:shared-state", f"hook {nm} reads the module-level mutable {sorted(shared)}: converters are no longer independent", hook=nm)
                    outer_mut = {f for f in free if f in local_assigned and f not in ("converter",) and not f[:1].isupper() and f not in ("structure_hooks",)}
                    ob(True, "", "")
    # 2b. no function of the runtime package flips a switch that belongs to the whole process (it would reach every other converter, the
    #     class constructors and every other thread): attrs' validator switch, interpreter limits, logging / warnings configuration, ...
    GLOBAL_SWITCHES = {
        "set_disabled": "attrs.validators.set_disabled", "disabled": "attrs.validators.disabled", "set_run_validators": "attr.set_run_validators",
        "setrecursionlimit": "sys.setrecursionlimit", "setswitchinterval": "sys.setswitchinterval", "settrace": "sys.settrace", "setprofile": "sys.setprofile",
        "basicConfig": "logging.basicConfig", "simplefilter": "warnings.simplefilter", "filterwarnings": "warnings.filterwarnings", "setlocale": "locale.setlocale",
        "seed": "random.seed", "set_int_max_str_digits": "sys.set_int_max_str_digits",
    }
    for mod in (hooks, conv):
        hits = []
        for node in ast.walk(mod.tree):
            if isinstance(node, ast.Call) and isinstance(node.func, ast.Attribute) and node.func.attr in GLOBAL_SWITCHES:
                base = ast.unparse(node.func.value)
                if node.func.attr in ("disabled", "seed") and not any(w in base for w in ("validators", "random")):
                    continue
                if node.func.attr == "disable" and "logging" not in base:
                    continue
                hits.append((node.lineno, ast.unparse(node.func)))
        ob(not hits, f"frame:{mod.rel.split('/')[-1]}:process-global-switch", f"{mod.rel.split('/')[-1]} calls {sorted({h[1] for h in hits})} (line {hits[0][0] if hits else 0}): a switch of the whole process - other converters, the class constructors and other threads see it while it is flipped", calls=hits)
    # 3. get_converter / register_hooks mutate only their argument
    reg = next((f for f in hooks.tree.body if isinstance(f, ast.FunctionDef) and f.name == "register_hooks"), None)
    ob(reg is not None, "frame:register_hooks:exists", "register_hooks missing")
    # ------------------------------------------------------------------ (b)+(c) once-flag and lock ownership of _resolve_forward_references
    rf = next((f for f in hooks.tree.body if isinstance(f, ast.FunctionDef) and f.name == "_resolve_forward_references"), None)
    ob(rf is not None, "ownership:_resolve_forward_references:exists", "_resolve_forward_references missing")
    lock_ok = False
    if rf is not None:
        withs = [w for w in ast.walk(rf) if isinstance(w, ast.With) and any(isinstance(i.context_expr, ast.Name) and i.context_expr.id in hooks.locks for i in w.items)]
        shared_iter = []  # iteration / snapshot of the shared map
        mutating = []
        flag_tests = []
        flag_sets = []
        for node in ast.walk(rf):
            if isinstance(node, ast.Call):
                s = ast.unparse(node)
                if "ALL_TYPES_MAP" in s and (".items()" in s or ".values()" in s or ".keys()" in s) and isinstance(node.func, ast.Attribute) and node.func.attr in ("items", "values", "keys"):
                    shared_iter.append(node)
                if isinstance(node.func, ast.Attribute) and node.func.attr == "resolve_types":
                    mutating.append(node)
            if isinstance(node, ast.If) and "_resolved_forward_references" in ast.unparse(node.test):
                flag_tests.append(node)
            if isinstance(node, ast.Assign) and any(isinstance(t, ast.Name) and t.id == "_resolved_forward_references" for t in node.targets):
                flag_sets.append(node)

        def inside(node, w):
            return any(node is x for x in ast.walk(w))

        # Under a lock that spans every access (checked next) neither the position of the flag assignment nor the existence of the
        # flag matters for this property (re-resolving under the lock is idempotent); the order "resolve, then set the flag" is an
        # obligation only for the lock-free snapshot discipline (b).
        # (a) lock discipline: one `with <module-level lock>` spans test, iteration, mutation and set
        if withs:
            w = withs[0]
            flag_reads = [x for x in ast.walk(rf) if isinstance(x, ast.Name) and x.id == "_resolved_forward_references" and isinstance(x.ctx, ast.Load)]
            spans = all(inside(x, w) for x in shared_iter + mutating + flag_sets + flag_reads)
            lock_ok = spans
        # (b) alternative discipline: atomic snapshot + private copy handed to the mutating callee
        snapshot_ok = False
        if not lock_ok and shared_iter and mutating:
            snap = all(_is_atomic_snapshot(rf, it) for it in shared_iter)
            private = all("ALL_TYPES_MAP" not in ast.unparse(m) or "dict(" in ast.unparse(m) or ".copy()" in ast.unparse(m) for m in mutating)
            # lock-free: the flag may only be set after the resolution loop (a thread that sees it set must find resolved classes)
            ordered = bool(flag_sets) and all(max(m.lineno for m in mutating) < fs.lineno for fs in flag_sets)
            snapshot_ok = snap and private and ordered
        if not (lock_ok or snapshot_ok):
            w = replay_race()
            ob(
                False,
                "ownership:_resolve_forward_references",
                "first-use forward-reference resolution iterates the shared ALL_TYPES_MAP while attrs.resolve_types mutates it, with no module-level lock spanning test-and-set, iteration and mutation" + (f"; deterministic two-thread schedule: {w['observed']}" if w else ""),
                found=bool(w),
                **(w or {}),
            )
        else:
            ob(True, "", "")
    # ------------------------------------------------------------------ (d) creation histories (bounded: length <= 2 over 4 configurations), subprocess-isolated
    kinds = ["fresh", "nodetail", "forbid", "custom", "fresh+hook", "lenient"]
    same_as_fresh = ["copy", "prefer", "omitdefault", "interrupted-first"]  # configurations whose results must equal those of a fresh converter
    specs = [("alone", k, {"history": [k], "report": [0]}) for k in kinds]
    for a in kinds:
        for b in kinds:
            specs.append(("after", (a, b), {"history": [a, b], "report": [0, 1], "use_all": True}))
    specs.append(("alone-check", "nodetail", {"history": ["nodetail"], "report": [0]}))
    specs.append(("count", "fresh", {"history": ["fresh"] * 5, "report": [0, 4], "use_all": True}))
    for k in same_as_fresh:
        specs.append(("config", k, {"history": [k], "report": [0]}))
        specs.append(("config-after", k, {"history": ["fresh", k, "fresh"], "report": [1, 2], "use_all": True}))
    with cf.ThreadPoolExecutor(max_workers=12) as ex:
        results = list(ex.map(lambda s: probe(s[2]), specs))
    alone = {}
    hist_runs = len(specs)
    for (kind, k, spec), r in zip(specs, results):
        if "error" in r:
            run.crash(f"history probe failed: {r['error'][:300]}")
            continue
        if kind == "alone":
            alone[k] = r["0"]
            ob(all(x[1] != "raise" or x[0] in ("Position", "CreateFile", "DidChangeTextDocumentParams") for x in r["0"] if len(x) > 1 and x[0] != "ctor") or True, "", "")
    for (kind, k, spec), r in zip(specs, results):
        if "error" in r or kind == "alone":
            continue
        if kind == "after":
            a, b = k
            ob(r["1"] == alone.get(b), f"history:{b}-after-{a}", f"a '{b}' converter created after a '{a}' converter was created and used behaves differently from one created alone: {_first_delta(alone.get(b), r['1'])}", found=True, history=[a, b], replay=f"tools/c19_probe.py '{json.dumps(spec)}'")
            ob(r["0"] == alone.get(a), f"history:{a}-then-{b}-first", f"creating and using a '{b}' converter alters an existing '{a}' converter: {_first_delta(alone.get(a), r['0'])}", found=True, history=[a, b])
        if kind == "config":
            ob(r["0"] == alone.get("fresh"), f"config:{k}", f"a converter obtained as '{k}' ({CONFIG_TEXT[k]}) does not behave like a fresh get_converter(): {_first_delta(alone.get('fresh'), r['0'])}", found=True, configuration=k, replay=f"tools/c19_probe.py '{json.dumps(spec)}'")
        if kind == "config-after":
            ob(r["1"] == alone.get("fresh") and r["2"] == alone.get("fresh"), f"config:{k}:history", f"creating a '{k}' converter between two fresh ones changes a result: {_first_delta(alone.get('fresh'), r['1'] if r['1'] != alone.get('fresh') else r['2'])}", found=True, configuration=k)
        if kind == "alone-check" and k == "nodetail":
            # detailed validation off: the same inputs are accepted / rejected and every accepted input gives the same object and the same JSON
            # (only the class of the exception may differ)
            norm = lambda rs: [x[:2] + (x[2:] if x[1] == "ok" or x[0] == "ctor" else []) for x in (rs or [])]
            ob(norm(alone.get("nodetail")) == norm(alone.get("fresh")), "config:nodetail:results", f"a converter built on cattrs.Converter(detailed_validation=False) gives another result than a fresh one for the same input: {_first_delta(norm(alone.get('fresh')), norm(alone.get('nodetail')))}", found=True, configuration="nodetail", replay=f"tools/c19_probe.py '{json.dumps({'history': ['nodetail'], 'report': [0]})}'")
        if kind == "count":
            ob(r["0"] == alone["fresh"] and r["4"] == alone["fresh"], "history:count", f"the fifth fresh converter differs from the first: {_first_delta(alone['fresh'], r['4'])}", found=True)
    # ------------------------------------------------------------------ (d2) a converter of each configuration is IN USE on another thread
    dur = probe({"during": {"kinds": ["fresh", "nodetail", "forbid", "omitdefault"]}})
    hist_runs += 1
    if "error" in dur:
        run.crash(f"during-use probe failed: {dur['error'][:300]}")
    else:
        for kind, r in sorted(dur.get("during", {}).items()):
            conf = kind if not kind.startswith("kw:") else f"get_converter({kind[3:]})"
            if not r.get("parked"):
                run.notes.append(f"during-use probe: the '{conf}' converter did not reach its input through a dict access; no overlap was produced")
            ob(r.get("B_during") == alone.get("fresh"), f"during-use:{kind}", f"while another thread is inside structure() of a '{conf}' converter, a fresh converter (and the class constructors) behave differently: {_first_delta(alone.get('fresh'), r.get('B_during'))}", found=True, configuration=conf, replay=f"tools/c19_probe.py '{json.dumps({'during': {'kinds': [kind] if not kind.startswith('kw:') else []}})}'")
            ob(r.get("B_after") == alone.get("fresh"), f"after-use:{kind}", f"after a '{conf}' converter was used on another thread, a fresh converter (and the class constructors) behave differently: {_first_delta(alone.get('fresh'), r.get('B_after'))}", found=True, configuration=conf)
    # ------------------------------------------------------------------ (e) bounded schedule exploration: one pre-emption at the k-th line event inside lsprotocol (thorough: all points; quick: a sample)
    pre = probe({"history": ["fresh", "fresh"], "report": [], "preempt": {"point": 10**9}})
    total_events = pre.get("events_seen", 0)
    points: List[int] = []
    if total_events:
        import random

        rnd = random.Random(run.seed)
        if run.tier == "thorough":
            points = list(range(1, min(total_events, 2500) + 1, max(1, total_events // 1200)))
        else:
            head = list(range(1, min(total_events, 16) + 1))
            points = sorted(set(head + rnd.sample(range(1, total_events + 1), min(24, total_events))))
    sched_runs = 0
    if points:
        with cf.ThreadPoolExecutor(max_workers=14) as ex:
            rs = list(ex.map(lambda k: (k, probe({"history": ["fresh", "fresh"], "report": [], "preempt": {"point": k}})), points))
        for k, r in rs:
            sched_runs += 1
            if "error" in r:
                continue
            bad = None
            for t in ("A", "B"):
                if r.get(t) != alone.get("fresh"):
                    bad = (t, _first_delta(alone.get("fresh"), r.get(t)))
                    break
            if bad:
                ob(False, "schedule:preempt-first-use", f"two threads creating and using converters concurrently: thread {bad[0]} pre-empted at line event {k} of its first use gives a different result: {bad[1]}", found=True, point=k, replay=f"tools/c19_probe.py '{json.dumps({'history': ['fresh', 'fresh'], 'report': [], 'preempt': {'point': k}})}'")
                break
        else:
            ob(True, "", "")
    run.assume(
        "thread clause: decided through the lock-ownership obligation on _resolve_forward_references (a sufficient condition) and the no-shared-mutable-state frame; schedules are explored only as single pre-emptions at line granularity (bounded, labelled); cattrs/attrs are assumed thread-safe outside the critical section",
        "histories are explored up to length 2 over {fresh, detailed_validation=False, forbid_extra_keys=True, user converter with a custom hook, fresh converter customised after it was handed out, user converter with lenient enum hooks} plus five fresh converters, and three configurations that must behave like a fresh converter: a `.copy()` of one, `prefer_attrib_converters=True`, `omit_if_default=True` (bounded)",
        "frame obligations are structural facts about the source (no writes to module-level state, no shared mutable captured by hooks)",
    )
    return run.finish(
        {
            "explanation": "frame/ownership obligations on the real source (evaluated structurally), once-flag and lock-ownership obligation on _resolve_forward_references, bounded creation histories and single-pre-emption schedules run against the real package in isolated subprocesses",
            "obligations": n,
            "discharged": ok,
            "evaluations": hist_runs + sched_runs,
            "distinct_nontrivial": hist_runs + len(set(points)),
            "rule": "histories: every ordered pair of 6 converter configurations + 5 fresh; schedules: thread A suspended at the k-th line event inside lsprotocol during its first get_converter()+use, thread B runs to completion, A resumes",
            "history_runs": hist_runs,
            "schedule_points": len(points),
            "line_events_in_first_use": total_events,
            "lock_discipline": "lock" if lock_ok else "snapshot-or-none",
            "samples": [{"history": s[2]["history"], "kind": s[0]} for s in specs[:6]] + [{"preempt_point": p} for p in points[:3]],
        }
    )


def _is_atomic_snapshot(fn, it_call) -> bool:
    """list(d.items()) / dict(d) / tuple(d.items()): the iterator is consumed by a C-level constructor with no Python call-out."""
    for node in ast.walk(fn):
        if isinstance(node, ast.Call) and isinstance(node.func, ast.Name) and node.func.id in ("list", "tuple", "dict") and len(node.args) == 1 and node.args[0] is it_call:
            return True
    return False


def _first_delta(a, b) -> str:
    if a is None or b is None:
        return f"{a!r} vs {b!r}"
    if isinstance(a, list) and isinstance(b, list):
        for x, y in zip(a, b):
            if x != y:
                return f"{x} (alone) vs {y}"
        return f"lengths {len(a)} vs {len(b)}"
    return f"{str(a)[:200]} vs {str(b)[:200]}"


def replay_race() -> Optional[Dict[str, Any]]:
    """Deterministic two-thread schedule: park thread B inside the filter over ALL_TYPES_MAP.items() until A has resolved."""
    code = r'''
import sys, threading, json
sys.path.insert(0, %r)
import attrs
import lsprotocol._hooks as H
real_has = attrs.has
state = {"parked": False}
a_done = threading.Event(); b_in = threading.Event()
def has(x):
    if threading.current_thread().name == "B" and not state["parked"]:
        state["parked"] = True
        b_in.set(); a_done.wait(30)
    return real_has(x)
H.attrs.has = has
out = {}
def run(name):
    try:
        if name == "A":
            b_in.wait(30)
        H._resolve_forward_references() if name == "B" else (setattr(H, "_resolved_forward_references", False), H._resolve_forward_references())
        out[name] = "ok"
    except Exception as e:
        out[name] = f"{type(e).__name__}: {e}"
    finally:
        if name == "A": a_done.set()
tb = threading.Thread(target=run, args=("B",), name="B"); ta = threading.Thread(target=run, args=("A",), name="A")
tb.start(); ta.start(); ta.join(60); tb.join(60)
print("RESULT " + json.dumps(out))
''' % os.path.join(REPO, "packages", "python")
    p = subprocess.run(["/venv/bin/python", "-c", code], capture_output=True, text=True, timeout=120)
    for line in p.stdout.splitlines():
        if line.startswith("RESULT "):
            r = json.loads(line[7:])
            bad = {k: v for k, v in r.items() if v != "ok"}
            if bad:
                return {"observed": f"thread {list(bad)[0]} raises {list(bad.values())[0]}", "schedule": "B enters list(filter(_filter, ALL_TYPES_MAP.items())) and is parked in attrs.has; A runs _resolve_forward_references to completion (attrs.resolve_types adds to ALL_TYPES_MAP); B resumes", "threads": r}
    return None
