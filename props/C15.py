"""C15 — unknown properties are ignored (forward compatibility)."""
from __future__ import annotations

import ast
import os
from typing import Any, Dict, List

from lib.pylive import Live, REPO
from lib.report import Run
from lib import sweeps as sweeps_mod
from lib.sweeps import decl_type, inject_extras, root_inputs
from lib.unions import UnionAnalysis
from oracle.metamodel import MetaModel
from oracle.native import json_diff, json_equal
from oracle.pairing import all_class_decls
from props import _unions as U


def main(argv: List[str]) -> int:
    run = Run("C15", "proof", argv)
    live = Live()
    mm = MetaModel.load()
    decls = all_class_decls(mm)
    ua = UnionAnalysis(live, mm)
    what = {"O3": "a property no alternative declares changes which alternative is chosen / whether parsing succeeds"}
    cov = U.report_unions(run, live, mm, ua, {"O3"}, what)
    # ---- evaluated: precondition of the assumed 'extras ignored' row: forbid_extra_keys is never enabled
    n2 = d2 = 0
    for rel in ("packages/python/lsprotocol/_hooks.py", "packages/python/lsprotocol/converters.py"):
        tree = ast.parse(open(os.path.join(REPO, rel), encoding="utf-8").read())
        for node in ast.walk(tree):
            if isinstance(node, ast.Call):
                n2 += 1
                bad = [k.arg for k in node.keywords if k.arg and "forbid_extra_keys" in k.arg and not (isinstance(k.value, ast.Constant) and k.value.value is False)]
                if bad:
                    run.violation(f"frame:{rel}:forbid_extra_keys", f"{rel}: a call passes {bad[0]} — unknown properties would be rejected", {"call": ast.unparse(node)[:300]}, False)
                else:
                    d2 += 1
    # ---- bounded native sweep: extras at every object node of a valid value of every class
    conv = live.converter
    sweep = 0
    extras_failures = 0
    for d in decls:
        cls = getattr(live.types, d.pyname, None)
        if cls is None:
            continue
        t = decl_type(d)
        for j_index, j in enumerate(root_inputs(mm, d, cap=25 if run.tier == "quick" else 120)):
            try:
                base_obj = conv.structure(j, cls)
                base_out = conv.unstructure(base_obj)
            except Exception:
                continue
            stop = False
            for style in ("plain", "twins", "deep", "neighbours-up", "neighbours-down", "fragments"):
                sweeps_mod.EXTRAS_STYLE = style
                try:
                    jx = inject_extras(mm, t, j)
                finally:
                    sweeps_mod.EXTRAS_STYLE = "plain"
                sweep += 1
                tag = {"plain": "", "twins": ":look-alike-keys", "deep": ":deep-payload", "neighbours-up": ":keys-of-the-level-below", "neighbours-down": ":keys-of-the-level-above", "fragments": ":pieces-of-discriminating-keys"}[style]
                try:
                    obj = conv.structure(jx, cls)
                    out = conv.unstructure(obj)
                except Exception as e:  # noqa
                    run.violation(f"extras:{d.pyname}:raises{tag}", f"adding undeclared properties to a valid {d.pyname} makes structuring fail: {type(e).__name__}: {str(e)[:160]}", {"input_without_extras": j, "input_with_extras": jx, "style": style}, True)
                    stop = True
                    break
                if obj != base_obj or not json_equal(out, base_out):
                    run.violation(f"extras:{d.pyname}:changes{tag}", f"adding undeclared properties to a valid {d.pyname} changes the result: {json_diff(base_out, out)}", {"input_without_extras": j, "input_with_extras": jx, "without": base_out, "with": out, "style": style}, True)
                    stop = True
                    break
            if not stop and j_index == 0 and isinstance(j, dict):
                # the same with the process's logging set to DEBUG (an application that traces its traffic) and several undeclared
                # properties on one node: what the library logs about ignored properties must not change what it returns
                import logging

                jx = dict(inject_extras(mm, t, j))
                jx.update({"xVerifFirst": 1, "xVerifSecond": [2], "xVerifThird": {"k": None}})
                root_logger = logging.getLogger()
                old_level, old_disable = root_logger.level, logging.root.manager.disable
                sink = logging.NullHandler()
                root_logger.addHandler(sink)
                root_logger.setLevel(logging.DEBUG)
                logging.disable(logging.NOTSET)
                try:
                    sweep += 1
                    try:
                        obj = conv.structure(jx, cls)
                        out = conv.unstructure(obj)
                        if obj != base_obj or not json_equal(out, base_out):
                            run.violation(f"extras:{d.pyname}:changes:debug-logging", f"with logging at DEBUG, adding undeclared properties to a valid {d.pyname} changes the result: {json_diff(base_out, out)}", {"input_without_extras": j, "input_with_extras": jx, "logging": "root logger at DEBUG"}, True)
                            stop = True
                    except Exception as e:  # noqa
                        run.violation(f"extras:{d.pyname}:raises:debug-logging", f"with logging at DEBUG, adding undeclared properties to a valid {d.pyname} makes structuring fail: {type(e).__name__}: {str(e)[:160]}", {"input_without_extras": j, "input_with_extras": jx, "logging": "root logger at DEBUG"}, True)
                        stop = True
                finally:
                    root_logger.setLevel(old_level)
                    root_logger.removeHandler(sink)
                    logging.disable(old_disable)
            if stop:
                extras_failures += 1
                break
        if extras_failures >= 20:
            run.notes.append("extras sweep stopped after 20 classes with a violation (the remaining classes were not swept)")
            break
    run.assume(*U.ASSUMPTIONS, "cattrs ignores keys a class does not declare unless forbid_extra_keys is set (assumed row; its precondition is the call-site scan; exercised by the sweep)")
    return run.finish(
        {
            "obligations": cov["n_ob"] + n2,
            "discharged": cov["n_dis"] + d2,
            "checker_cmd": "bin/check C15",
            "trusted_base": ["z3/cvc5", "pyvc + jsonsym encoder (two-run obligations)", "cattrs extra-keys row"],
            "smt_by_backend": cov["backends"],
            "handlers_under_contract": cov["functions"],
            "outside_subset": cov["outside"],
            "call_sites_scanned": n2,
            "bounded_root_sweep_inputs": sweep,
            "cross_check": cov.get("cross_check"),
            "samples": [s for s in cov["samples"]][:4] or [{"note": "O3 obligations are per pair of paths; see handlers_under_contract"}],
            "notes": run.notes,
        }
    )
