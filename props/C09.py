"""C09 — method catalogue and type registry agree with the metamodel."""
from __future__ import annotations

import ast
import os
import typing
from typing import Any, Dict, List

from lib.pylive import Live, REPO
from lib.report import Run
from lib.tables import literal_class_finder
from oracle.metamodel import MetaModel, method_to_constant
from oracle.pytypes import Unmappable, expected_annotation, has_forward_ref


def main(argv: List[str]) -> int:
    run = Run("C09", "proof", argv)
    live = Live()
    mm = MetaModel.load()
    T = live.types
    n = ok = 0
    samples = []
    litfind = literal_class_finder(live, mm)

    def ob(cond: bool, key: str, what: str, **detail):
        nonlocal n, ok
        n += 1
        if cond:
            ok += 1
        else:
            run.violation(key, what, detail, True)

    M2T = getattr(T, "METHOD_TO_TYPES", None)
    if not isinstance(M2T, dict):
        run.violation("table:METHOD_TO_TYPES:exists", "lsprotocol.types.METHOD_TO_TYPES is missing", {}, True)
        M2T = {}
    methods = {}
    for r in mm.requests:
        methods[r["method"]] = ("request", r)
    for x in mm.notifications:
        methods[x["method"]] = ("notification", x)

    def type_obj(m, field, suffix):
        t = m.get(field)
        if not t:
            return None
        tt = t
        if t["kind"] == "and":
            base = m.get("typeName") or None
            from oracle.metamodel import method_to_class_name

            name = (base or method_to_class_name(m["method"])) + suffix
            return getattr(T, name, f"<missing {name}>")
        if t["kind"] == "reference":
            return getattr(T, t["name"], f"<missing {t['name']}>")
        try:
            return expected_annotation(mm, T, t, False, litfind)
        except Unmappable as e:
            return f"<unmappable {e}>"

    for method, (kind, m) in methods.items():
        key = f"table:method:{method}"
        entry = M2T.get(method)
        ob(entry is not None, f"{key}:present", f"METHOD_TO_TYPES has no entry for {method}")
        if kind == "request":
            req_name = mm.class_name_of_message(m, "Request")
            resp_name = mm.class_name_of_message(m, "Response")
        else:
            req_name = mm.class_name_of_message(m, "Notification")
            resp_name = None
        req_cls = getattr(T, req_name, None)
        resp_cls = getattr(T, resp_name, None) if resp_name else None
        ob(req_cls is not None, f"{key}:class", f"{method}: class {req_name} missing")
        if resp_name:
            ob(resp_cls is not None, f"{key}:response-class", f"{method}: class {resp_name} missing")
        if entry is not None:
            ob(isinstance(entry, tuple) and len(entry) == 4, f"{key}:shape", f"{method}: entry is not a 4-tuple", entry=repr(entry))
            if isinstance(entry, tuple) and len(entry) == 4:
                ob(entry[0] is req_cls, f"{key}:message-class", f"{method}: mapped to {entry[0]!r}, metamodel says {req_name}", entry=repr(entry))
                ob(entry[1] is resp_cls, f"{key}:response", f"{method}: response class {entry[1]!r}, metamodel says {resp_name}", entry=repr(entry))
                want_p = type_obj(m, "params", "Params" if kind == "request" else "NotificationParams")
                got_p = entry[2]
                ob(got_p is want_p or _eq(got_p, want_p), f"{key}:params", f"{method}: params type {got_p!r}, metamodel says {want_p!r}")
                want_r = type_obj(m, "registrationOptions", "Options")
                ob(entry[3] is want_r or _eq(entry[3], want_r), f"{key}:registration_options", f"{method}: registration options {entry[3]!r}, metamodel says {want_r!r}")
        # default method of the message class
        if req_cls is not None and live.attrs.has(req_cls):
            f = live.fields(req_cls).get("method")
            ob(f is not None and f.default == method, f"{key}:default-method", f"{req_name}.method defaults to {getattr(f, 'default', None)!r}, not {method!r}")
        # exported constant
        const = method_to_constant(method)
        ob(getattr(T, const, None) == method, f"{key}:constant", f"constant {const} is {getattr(T, const, None)!r}, expected {method!r}")
        # direction
        try:
            dirn = T.message_direction(method)
        except Exception as e:  # noqa
            dirn = f"<raises {type(e).__name__}>"
        ob(dirn == m["messageDirection"], f"{key}:direction", f"message_direction({method!r}) = {dirn!r}, metamodel says {m['messageDirection']!r}")
        if len(samples) < 5:
            samples.append({"method": method, "entry": repr(entry)[:200], "direction": dirn})
    for k in M2T:
        ob(k in methods, f"table:method:{k}:extra", f"METHOD_TO_TYPES has an entry for {k!r}, which is not a method of the metamodel")
    md = getattr(T, "_MESSAGE_DIRECTION", {})
    for k in md:
        ob(k in methods, f"table:method:{k}:extra-direction", f"message direction table has {k!r}, not a metamodel method")

    # ---- registry: every protocol type defined by the package is present, before and after converter creation
    tree = ast.parse(open(os.path.join(REPO, "packages/python/lsprotocol/types.py"), encoding="utf-8").read())
    defined: List[str] = []
    for node in tree.body:
        if isinstance(node, ast.ClassDef):
            v = getattr(T, node.name, None)
            import attrs as _attrs
            import enum as _enum

            if node.name.startswith("_") and isinstance(v, type) and not _attrs.has(v) and not issubclass(v, _enum.Enum):
                continue  # a private helper class (mixin): not a protocol type
            defined.append(node.name)
        elif isinstance(node, ast.Assign) and len(node.targets) == 1 and isinstance(node.targets[0], ast.Name):
            nm = node.targets[0].id
            v = getattr(T, nm, None)
            if nm[:1].isupper() and not nm.isupper() and not nm.startswith("_") and (isinstance(v, type) or typing.get_origin(v) is not None or v is object):
                defined.append(nm)
    expected_names = set(defined) | set(mm.structures) | set(mm.enumerations) | set(mm.aliases)
    expected_names -= {"REQUESTS", "RESPONSES", "NOTIFICATIONS", "MESSAGE_TYPES", "Dict", "Union"}

    def check_registry(stage: str):
        reg = getattr(T, "ALL_TYPES_MAP", {})
        for nm in sorted(expected_names):
            ob(nm in reg and reg[nm] is getattr(T, nm, None), f"table:registry:{nm}", f"ALL_TYPES_MAP {'lacks' if nm not in reg else 'maps to a different object'} {nm} ({stage})", stage=stage)

    check_registry("after import")
    live.converters.get_converter()
    check_registry("after the first get_converter()")
    live.converters.get_converter()
    check_registry("after the second get_converter()")
    # every forward reference resolves
    for nm in sorted(expected_names):
        c = getattr(T, nm, None)
        if isinstance(c, type) and live.attrs.has(c):
            for f in live.attrs.fields(c):
                fr = has_forward_ref(f.type)
                ob(fr is None, f"table:registry:{nm}.{f.name}:forward-ref", f"{nm}.{f.name}: annotation still holds the unresolved reference {fr} after converter creation")
    if n == 0:
        run.crash("no obligation")
    run.assume("class names 'as the metamodel declares them' = typeName, else derived from the method string (independent derivation in oracle/metamodel.py)")
    return run.finish(
        {
            "obligations": n,
            "discharged": ok,
            "checker_cmd": "bin/check C09 (exhaustive table evaluation)",
            "trusted_base": ["oracle/metamodel.py", "typing equality"],
            "methods": len(methods),
            "registry_names": len(expected_names),
            "exhaustive": True,
            "samples": samples,
        }
    )


def _eq(a, b) -> bool:
    try:
        return a == b
    except Exception:
        return False
