"""C07 — the generated Rust crate declares the metamodel's wire schema."""
from __future__ import annotations

import os
import shutil
import subprocess
from typing import Any, Dict, List

from contracts import genhelpers as gh
from lib import gen
from lib.report import Run
from lib.smtrun import SmtStats, verify
from oracle.metamodel import MetaModel
from oracle.rustcheck import RustCheck

LIBRS = "packages/rust/lsprotocol/src/lib.rs"


def main(argv: List[str]) -> int:
    run = Run("C07", "other", argv)
    mm = MetaModel.load(python_customizations=False)
    stats = SmtStats()
    # ---- deduced: the base-type mapping helper is total on the metamodel's base types and equals the statement's mapping
    world, interp, fi, c = gh.build_mapping(gh.RUST_REL, "lsp_to_base_types", gh.RUST_BASE)
    if fi is None:
        run.undecide("rust_commons.lsp_to_base_types not found")
    else:
        def on_fail(o):
            m = o.model or {}
            nm = next((v for k, v in m.items() if k.endswith(".name.s")), None)
            return True, {"key": f"{gh.RUST_REL}::lsp_to_base_types:post", "what": f"rust lsp_to_base_types maps base type {nm!r} differently from the statement's mapping ({gh.RUST_BASE.get(nm)!r}) or raises", "base_type": nm}
        verify(run, stats, world, interp, fi, c, f"{gh.RUST_REL}::lsp_to_base_types", on_fail, lambda msg: run.notes.append(f"lsp_to_base_types outside the verified subset ({msg}); the item-level comparison of every emitted type stands in"))
    from lib.helpers_verify import verify_helper_items

    w_, i_, items_ = gh.rust_special_items()
    verify_helper_items(run, stats, w_, i_, items_)
    from lib.helpers_verify import verify_report

    wx, repx = gh.rust_extras_item()
    verify_report(run, stats, wx, repx, f"{gh.RUST_REL}::generate_extras", 'generate_extras does not emit #[cfg(feature = "proposed")] exactly for proposed elements / #[deprecated] exactly for deprecated ones')
    # ---- evaluated: postcondition of generate_lib_rs on the current generator's output and on the committed file
    tmp = gen.scratch()
    n = 0
    fails = 0
    try:
        rc, out, dt = gen.run_plugin("rust", tmp)
        srcs = []
        if rc != 0:
            run.violation("rust:plugin-exit", f"rust plugin exits {rc} on the committed model", {"output": out}, True)
        else:
            p = os.path.join(tmp, "lsprotocol", "src", "lib.rs")
            fm = subprocess.run([gen.RUSTFMT, "--edition", "2021", "--check", p], capture_output=True, text=True)
            if fm.returncode not in (0, 1):
                run.violation("rust:parses", f"rustfmt cannot parse the generated lib.rs: {fm.stderr[:300]}", {"stderr": fm.stderr[-1500:]}, True)
            srcs.append(("generated", open(p, encoding="utf-8").read()))
        srcs.append(("committed", open(os.path.join(gen.REPO, LIBRS), encoding="utf-8").read()))
        seen = set()
        for which, src in srcs:
            rcx = RustCheck(mm, src)
            fs = rcx.run()
            n += rcx.n
            for key, what, detail in fs:
                if key in seen:
                    continue
                seen.add(key)
                fails += 1
                detail = dict(detail)
                detail["source"] = f"{which} lib.rs"
                detail["replay"] = "python -m generator --plugin rust; parse the item named in the obligation and compare with generator/lsp.json"
                run.violation(key, f"{what} [{which} lib.rs]", detail, True)
    finally:
        shutil.rmtree(tmp, ignore_errors=True)
    if n == 0:
        run.crash("no Rust item obligation generated")
    from contracts import rust_property as rpc
    from lib.helpers_verify import verify_member_contract

    verify_member_contract(
        run,
        stats,
        rpc,
        "rust generate_property no longer emits a field whose type is get_type_name of the property's type and optional mark and whose serde name (explicit rename, or the snake_case identifier when that is no Rust keyword) is the metamodel name",
        "the field facets of the item table (committed model) and the evolved models of C06 stand in",
    )
    run.assume(
        "the observable is the text of lib.rs: a token-level parser of the regular subset the plugin emits (items with outer attributes, struct fields, enum variants, type aliases, impl blocks as raw text)",
        "serde's camelCase rule is modelled (first segment unchanged, following segments capitalised); Box<> around recursive references is tolerated; an empty literal maps to LSPObject",
        "method-enum variants of proposed methods are not demanded to be gated (variants are not items)",
        "whole-generator postcondition is evaluated on the committed model (finite domain: every item), not deduced; only the base-type mapping helper is proved for all inputs",
    )
    cov = stats.coverage()
    cov.update(
        {
            "explanation": "postcondition of generate_lib_rs stated against the metamodel and evaluated on every item of the emitted and of the committed lib.rs (complete for the committed model); helpers lsp_to_base_types, is_special, is_special_property, generate_extras and the field decisions of generate_property (type handed over with the optional mark, keyword escape with explicit rename) proved by SMT for all inputs",
            "obligations": stats.obligations + n,
            "discharged": stats.discharged + n - fails,
            "item_obligations": n,
            "exhaustive": True,
            "samples": stats.samples[:2] + [{"structs": len(mm.structures), "enums": len(mm.enumerations), "aliases": len(mm.aliases)}],
        }
    )
    return run.finish(cov)
