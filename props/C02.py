"""C02 — objects built with the public constructors serialise to the exact spec JSON."""
from __future__ import annotations

from typing import Any, Dict, List

from contracts import special as cs
from lib.pylive import Live
from lib.report import Run
from lib.smtrun import SmtStats, verify
from lib.sweeps import Builder, decl_type, norm_decl, root_inputs
from lib.tables import check_classes
from oracle.metamodel import MetaModel
from oracle.native import json_diff, json_equal
from oracle.pairing import all_class_decls
from props import _tables


def main(argv: List[str]) -> int:
    run = Run("C02", "proof", argv)
    live = Live()
    mm = MetaModel.load()
    stats = SmtStats()
    decls = all_class_decls(mm)
    # ---- deduced: the omit decision (shared with C10)
    world, interp, items, table = cs.build(live)
    for fi, contract, label in items:
        def on_fail(o, label=label, contract=contract):
            return False, {"key": f"{label}:post", "what": f"{label.split('::')[-1]} no longer computes '{contract.note}'"}
        verify(run, stats, world, interp, fi, contract, label, on_fail, lambda msg, label=label: run.notes.append(f"{label}: outside the verified subset ({msg}); the exhaustive per-attribute table and the toggle / constructor sweeps stand in (bounded in the surrounding value)"))
    # ---- evaluated exhaustively: wire name of every attribute (exercises _to_camel_case on every committed name), omit rule, pairing
    res = check_classes(live, mm, decls)
    n1, d1 = _tables.report(run, res, ["class-exists", "class-hook", "attr-for-prop", "no-extra-attr", "wire-name", "special", "default", "annotation"])
    # second converter, reversed class order: the unstructure function of a class must not depend on history
    live2 = Live()
    live2._conv = live2.converters.get_converter()
    res2 = check_classes(live2, mm, list(reversed(decls)))
    n2, d2 = _tables.report(run, res2, ["wire-name", "special"])
    # ---- constructor-path sweep on ONE long-lived converter, classes visited in two different orders
    builder = Builder(live, mm)
    sweep = 0
    for order, conv in (("forward", live.converter), ("reverse", live2.converter)):
        seq = decls if order == "forward" else list(reversed(decls))
        for d in seq:
            cls = getattr(live.types, d.pyname, None)
            if cls is None:
                continue
            for j in root_inputs(mm, d, cap=12 if run.tier == "quick" else 80):
                try:
                    obj = builder.build_props(cls, d.props, j)
                except Exception as e:  # noqa
                    run.violation(f"ctor:{d.pyname}:raises", f"{d.pyname}(**kwargs) with the values of a valid instance raises {type(e).__name__}: {str(e)[:200]}", {"input": j}, True)
                    break
                sweep += 1
                try:
                    out = conv.unstructure(obj)
                except Exception as e:  # noqa
                    run.violation(f"ctor:{d.pyname}:unstructure-raises", f"unstructuring a constructor-built {d.pyname} raises {type(e).__name__}: {str(e)[:200]}", {"input": j, "order": order}, True)
                    break
                want = norm_decl(mm, d, j)
                loss = json_diff(want, out)
                if loss:
                    run.violation(f"ctor:{d.pyname}:{loss.split(':')[0]}", f"constructor-built {d.pyname} does not serialise to the normal form ({order} class order): {loss}", {"input": j, "unstructured": out, "expected": want, "order": order}, True)
                    break
                try:
                    again = conv.unstructure(conv.structure(out, cls))
                    if not json_equal(again, out):
                        run.violation(f"ctor:{d.pyname}:restructure", f"re-structuring the output of a constructor-built {d.pyname} and serialising again changes it: {json_diff(out, again)}", {"input": j, "first": out, "second": again}, True)
                        break
                except Exception as e:  # noqa
                    run.violation(f"ctor:{d.pyname}:restructure-raises", f"the serialised form of a constructor-built {d.pyname} does not structure back: {type(e).__name__}: {str(e)[:200]}", {"input": j, "unstructured": out}, True)
                    break
    run.assume(
        "unstructure rows of DESIGN 2.4: per-class function writes rename:value for every field, skips a field iff omit_if_default and value == default, dispatches nested values on their run-time class, enums to .value (assumed; exercised by the sweep on every class)",
        "decimal values of j are passed to constructors as floats (the annotated type)",
        "the class of a union alternative is the alternative declaring the most properties among those the value is strictly valid for",
        "_to_camel_case (split/title) is outside the SMT fragment: decided by evaluating the effective rename of every committed attribute name (finite, complete for the committed model); unseen names are C06's bounded family",
    )
    cov = stats.coverage()
    cov.update(
        {
            "obligations": stats.obligations + n1 + n2,
            "discharged": stats.discharged + d1 + d2,
            "checker_cmd": "bin/check C02",
            "trusted_base": ["z3/cvc5", "pyvc", "cattrs unstructure rows", "oracle/metamodel.py (norm)"],
            "table_obligations": n1 + n2,
            "constructor_sweep_objects": sweep,
            "samples": stats.samples[:2] + res.samples[:4],
        }
    )
    return run.finish(cov)
