"""C10 — null-versus-omitted rule holds for every property of every class."""
from __future__ import annotations

import copy
from typing import Any, Dict, List

from contracts import special as cs
from lib.pylive import Live
from lib.report import Run
from lib.smtrun import SmtStats, verify
from lib.tables import check_classes, expected_special
from oracle.metamodel import MetaModel
from oracle.pairing import all_class_decls
from props import _tables


def replay_special(live: Live, mm: MetaModel, decls):
    by = {d.pyname: d for d in decls}

    def rp(f):
        # table:<Class>.<attr>:special  -> build a minimal instance with the attribute unset and show the keys written
        cname, attr = f.key.split(":")[1].split(".")
        d = by.get(cname)
        cls = getattr(live.types, cname)
        j = mm.witness_props([p for p in d.props if not p.get("_envelope")] if d.kind == "structure" else d.props, False, 0)
        conv = live.converter
        obj = conv.structure(j, cls)
        try:
            obj = live.attrs.evolve(obj, **{attr.lstrip("_"): None})
        except Exception:
            pass
        out = conv.unstructure(obj)
        return {"replay": f"unstructure of a minimal {cname} with {attr} unset", "keys_written": sorted(out), "unstructured": out}

    return rp


def main(argv: List[str]) -> int:
    run = Run("C10", "proof", argv)
    live = Live()
    mm = MetaModel.load()
    stats = SmtStats()
    # ---- deduced: _omit and is_special_property compute (non-)membership of the qualified name
    world, interp, items, table = cs.build(live)
    if len(items) < 2:
        # e.g. _omit inlined into its caller: the deduction has nothing to attach to; the exhaustive per-attribute table (every attribute
        # of every class toggled through the real converter) decides the property for the committed package on its own
        run.notes.append("is_special_property or _omit is not a separate function in the source: the contract part is skipped, the exhaustive per-attribute table and the toggle / constructor sweeps decide (complete for the committed package, not deduced)")
    for fi, contract, label in items:

        def on_fail(o, label=label, contract=contract):
            m = o.model or {}
            return False, {"key": f"{label}:post", "what": f"{label.split('::')[-1]} no longer computes '{contract.note}'", "model": {k: v for k, v in m.items() if not k.startswith('hasattr')}}

        verify(run, stats, world, interp, fi, contract, label, on_fail, lambda msg, label=label: run.notes.append(f"{label}: outside the verified subset ({msg}); the exhaustive per-attribute table and the toggle / constructor sweeps stand in (bounded in the surrounding value)"))
    from contracts import genhelpers as gh
    from lib.helpers_verify import verify_helper_items

    w_, i_, items_ = gh.python_special_items()
    verify_helper_items(run, stats, w_, i_, items_)
    # ---- evaluated: every attribute, both class orders (the rule must not depend on which class a converter saw first)
    decls = all_class_decls(mm)
    res = check_classes(live, mm, decls)
    n1, d1 = _tables.report(run, res, ["special", "default", "required", "attr-for-prop", "class-exists"], replay=replay_special(live, mm, decls))
    live2 = Live()
    live2._conv = live2.converters.get_converter()
    res2 = check_classes(live2, mm, list(reversed(decls)))
    n2, d2 = _tables.report(run, res2, ["special"], replay=replay_special(live2, mm, decls))
    # ---- behavioural sweep (bounded in the surrounding value, exhaustive in the attribute): toggle each attribute
    conv = live.converters.get_converter()
    toggles = 0
    for d in decls:
        cls = getattr(live.types, d.pyname, None)
        if cls is None:
            continue
        base = mm.witness_props(d.props, True, 1)
        # the other direction: a property that IS set is written, whatever its value compares equal to
        try:
            out_all = conv.unstructure(conv.structure(base, cls))
        except Exception:
            out_all = None  # other properties' business
        if isinstance(out_all, dict):
            toggles += 1
            for p in d.props:
                if p["name"] in base and base[p["name"]] is not None and p["name"] not in out_all:
                    a = next((a.name for a in live.attrs.fields(cls) if (live.wire_name(cls, a.name) or a.name) == p["name"]), p["name"])
                    run.violation(f"table:{d.pyname}.{a}:set-is-written", f"{d.pyname}.{a}: a property that is set (to {str(base[p['name']])[:60]}) is omitted from the output", {"input": base, "unstructured": out_all, "replay": f"structure then unstructure a {d.pyname} with every property set"}, True)
        for p in d.props:
            if expected_special(mm, d, p) or p.get("optional") or p.get("_absent"):
                j = dict(base)
                j.pop(p["name"], None)
                try:
                    obj = conv.structure(j, cls)
                    out = conv.unstructure(obj)
                except Exception:
                    continue  # other properties' business
                toggles += 1
                want_written = expected_special(mm, d, p)
                if (p["name"] in out) != want_written:
                    a = next((a.name for a in live.attrs.fields(cls) if (live.wire_name(cls, a.name) or a.name) == p["name"]), p["name"])
                    run.violation(
                        f"table:{d.pyname}.{a}:special",
                        f"{d.pyname}.{a}: unset property {'is omitted but must be written' if want_written else 'is written but must be omitted'}",
                        {"input": j, "unstructured": out, "replay": f"structure then unstructure a {d.pyname} without {p['name']}"},
                        True,
                    )
    if n1 == 0:
        run.crash("no table obligation generated")
    # ---- the rule is per class, also for a user subclass of a generated class (same name: tables keyed by class name or by identity)
    from lib.sweeps import subclass_probe

    sub_bad = 0
    for pr in subclass_probe(live, mm, decls):
        if pr["kind"] in ("serialisation", "raises"):
            sub_bad += 1
            if sub_bad <= 12:
                run.violation(f"subclass:{pr['class']}:{pr['kind']}", pr["detail"], {"input": pr["input"], "replay": f"Sub = type('{pr['class']}', (lsprotocol.types.{pr['class']},), {{}}); converter.unstructure(converter.structure(<input>, Sub))"}, True)
    run.assume(
        "cattrs make_dict_unstructure_fn skips a field iff its override has omit_if_default and the value equals the default (assumed row, exercised by the toggle sweep)",
        "membership in the module-level table _SPECIAL_PROPERTIES is an uninterpreted predicate in the VCs; its extension is checked attribute by attribute against the metamodel rule",
    )
    cov = stats.coverage()
    cov.update(
        {
            "obligations": stats.obligations + n1 + n2,
            "discharged": stats.discharged + d1 + d2,
            "checker_cmd": "bin/check C10",
            "trusted_base": ["z3/cvc5", "pyvc", "cattrs omit_if_default row", "oracle/metamodel.py"],
            "table_obligations": n1 + n2,
            "toggle_sweep_cases": toggles,
            "special_table_size": len(table or []),
            "samples": stats.samples[:3] + res.samples[:4],
        }
    )
    return run.finish(cov)
