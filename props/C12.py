"""C12 — LSP integer ranges are enforced exactly at construction and parse time."""
from __future__ import annotations

import importlib
import sys
from decimal import Decimal
from fractions import Fraction
from typing import Any, Dict, List, Tuple

from contracts import validators as cv
from lib.pylive import Live
from lib.report import Run
from lib.smtrun import SmtStats, verify
from oracle.metamodel import INT_MAX, INT_MIN, UINT_MAX, UINT_MIN, MetaModel
from oracle.pairing import all_class_decls

BOUNDARY = sorted(
    {INT_MIN - 1, INT_MIN, INT_MIN + 1, -1, 0, 1, INT_MAX - 1, INT_MAX, INT_MAX + 1, 2**32, -(2**32), 2**63, -(2**63), 7, 41713, -52391, 2**1024, -(2**1024), 10**400, -(10**400)}
)


def fresh_validators(live):
    """A private, freshly executed copy of validators.py (module state reset; the package's own module object is untouched)."""
    import importlib.util

    spec = importlib.util.spec_from_file_location("_verif_validators_copy", live.validators.__file__)
    mod = importlib.util.module_from_spec(spec)
    spec.loader.exec_module(mod)
    return mod


class _Attr:
    def __init__(self, name):
        self.name = name


class _Inst:
    pass


def native_grid(live: Live, fname: str, orders: int = 2):
    """Bounded stand-in / replay search: run the real validator over a grid, in two histories
    (ints before equal floats, and floats before equal ints) on a freshly reloaded module."""
    bad = []
    n = 0
    for order in range(orders):
        mod = fresh_validators(live)
        fn = getattr(mod, fname, None)
        if fn is None:
            return 0, []
        nums: List[Any] = []
        for b in BOUNDARY:
            pair = [b, float(b)] if abs(b) < 2**53 else [b]
            if order == 1:
                pair = pair[::-1]
            nums.extend(pair)
            nums.append(Decimal(b) if order == 0 else Fraction(b))
        values = nums + [True, False, None, "5", "", 0.5, -0.5, [1], (1,), {"a": 1}, object(), b"1", float("inf"), float("nan")] + nums
        for attribute in (_Attr("line"), "plain", 17):
            for instance in (_Inst(), None, 3):
                for v in values:
                    n += 1
                    verdict, detail = cv.native_run(fn, instance, attribute, v)
                    if verdict != "ok":
                        bad.append({"function": fname, "history_order": order, "value": repr(v), "attribute": repr(getattr(attribute, "name", attribute)), "instance": type(instance).__name__, "observed": detail})
                        if len(bad) > 5:
                            return n, bad
    return n, bad


def main(argv: List[str]) -> int:
    run = Run("C12", "proof", argv)
    live = Live()
    mm = MetaModel.load()
    stats = SmtStats()
    table_obl = 0
    table_ok = 0
    bounded_evals = 0
    diff_n = 0

    # ------------------------------------------------------------------ 1. deductive: the two validators, all arguments
    world, interp = cv.build_world()
    for fname in ("integer_validator", "uinteger_validator"):
        label = f"{cv.REL}::{fname}"
        fi = world.functions.get(label)
        if fi is None:
            run.violation(f"{label}:exists", f"{fname} is not defined in validators.py", {}, True)
            continue
        contract = cv.make_contract(interp, fname)

        def on_fail(o, fname=fname):
            inst, attr, val = cv.concretize(o.model or {})
            fn = getattr(fresh_validators(live), fname)
            verdict, detail = cv.native_run(fn, inst if inst is not None else _Inst(), attr, val)
            base = {"key": f"{cv.REL}::{fname}:post", "function": fname, "contract": contract.note}
            if verdict == "bad":
                return True, {**base, "what": f"{fname}: {detail}", "input": {"value": repr(val), "attribute": repr(getattr(attr, 'name', attr)), "instance": type(inst).__name__}, "observed": detail,
                              "replay": f"lsprotocol.validators.{fname}(<{type(inst).__name__}>, <attribute>, {val!r})"}
            n, bad = native_grid(live, fname)
            if bad:
                return True, {**base, "what": f"{fname}: {bad[0]['observed']}", "input": bad[0], "observed": bad[0]["observed"], "grid_size": n}
            return False, {**base, "what": f"{fname}: postcondition not provable; solver model {val!r} did not reproduce natively", "model_value": repr(val)}

        def on_unsupported(msg, fname=fname, label=label):
            nonlocal bounded_evals
            # bounded stand-in (never counted as proved)
            n, bad = native_grid(live, fname)
            bounded_evals += n
            run.notes.append(f"{label}: outside verified subset ({msg}); bounded native grid of {n} calls stands in")
            for b in bad[:1]:
                run.violation(f"{label}:post", f"{fname}: {b['observed']}", {"input": b, "bounded": True, "note": f"function left the verified subset: {msg}"}, True)

        rep = verify(run, stats, world, interp, fi, contract, label, on_fail, on_unsupported)
        # encoder-vs-CPython differential on the boundary grid: predicted outcome of the symbolic paths == real outcome
        if rep is not None and not rep.unsupported and rep.paths_full:
            from lib import scalardiff

            real = getattr(fresh_validators(live), fname)
            for v in BOUNDARY + [True, False, None, "5", 0.5, 2.0**31]:
                for attribute in (_Attr("line"), "plain"):
                    env: Dict[str, Any] = {}
                    scalardiff.dyn_env("value", v, env)
                    scalardiff.dyn_env("instance", None, env)
                    if isinstance(attribute, str):
                        scalardiff.dyn_env("attribute", attribute, env)
                    else:
                        env["attribute.tag"] = int(world.class_id("AttrsAttribute"))
                        env["attribute.oid"] = 7
                        env["attribute.oid.name.s"] = attribute.name
                    preds = [p for p in scalardiff.predicted(rep.paths_full, env) if p[0] != "unknown"]
                    try:
                        r = real(None, attribute, v)
                        nat = ("return", r)
                    except Exception as e:  # noqa
                        nat = ("raise", type(e).__name__)
                    diff_n += 1
                    if len({p[:2] for p in preds}) != 1 or preds[0][:2] != nat[:2]:
                        run.crash(f"encoder disagrees with CPython for {fname}({v!r}): predicted {preds}, real {nat}")

    # history independence is part of "for any argument ... the same verdict": always run the small native grid too
    for fname in ("integer_validator", "uinteger_validator"):
        if hasattr(live.validators, fname):
            n, bad = native_grid(live, fname)
            bounded_evals += n
            for b in bad[:1]:
                run.violation(f"{cv.REL}::{fname}:post", f"{fname}: {b['observed']}", {"input": b, "bounded": True}, True)

    # ------------------------------------------------------------------ 2. attachment table (finite, exhaustive)
    decls = all_class_decls(mm)
    sites: List[Tuple[Any, str, str, bool]] = []
    for d in decls:
        cls = getattr(live.types, d.pyname, None)
        if cls is None or not live.attrs.has(cls):
            continue  # existence is C04's obligation
        by_wire = {}
        for a in live.attrs.fields(cls):
            by_wire[live.wire_name(cls, a.name) or a.name] = a
        for p in d.props:
            a = by_wire.get(p["name"])
            if a is None:
                continue
            t = p["type"]
            want = None
            if t["kind"] == "base" and t["name"] in ("integer", "uinteger"):
                want = t["name"]
            inner, opt, leaves = live.unwrap_validator(a.validator)
            has_int = any(l is live.validators.integer_validator for l in leaves)
            has_uint = any(l is live.validators.uinteger_validator for l in leaves)
            table_obl += 1
            key = f"table:{d.pyname}.{a.name}:validator"
            if want == "integer" and not (has_int and not has_uint):
                run.violation(key, f"{d.pyname}.{a.name} is declared integer but carries {a.validator!r}", _site_replay(live, mm, d, p, cls, a), True)
            elif want == "uinteger" and not (has_uint and not has_int):
                run.violation(key, f"{d.pyname}.{a.name} is declared uinteger but carries {a.validator!r}", _site_replay(live, mm, d, p, cls, a), True)
            elif want is None and (has_int or has_uint):
                run.violation(key, f"{d.pyname}.{a.name} is not integer-typed ({t}) but carries a range validator", {"class": d.pyname, "attribute": a.name, "metamodel_type": t}, True)
            else:
                table_ok += 1
            if want:
                sites.append((cls, a.name, want, bool(p.get("optional")) or mm.null_admitting(t), d, p))
    if not sites:
        run.crash("no integer-typed property found: pairing with the metamodel is broken")

    # ------------------------------------------------------------------ 3. both entry points agree with the range (bounded probe of the assumed cattrs row)
    entry_evals = 0
    conv = live.converter
    for cls, aname, want, optional, d, p in sites:
        lo, hi = (INT_MIN, INT_MAX) if want == "integer" else (UINT_MIN, UINT_MAX)
        base_json = mm.witness_props(d.props, False, 0)
        try:
            base_obj = conv.structure(base_json, cls)
        except Exception as e:  # other properties' business; skip this site's entry probe
            run.notes.append(f"entry probe skipped for {cls.__name__}.{aname}: witness rejected: {e}")
            continue
        for v in BOUNDARY:
            expect = lo <= v <= hi
            entry_evals += 1
            try:
                live.attrs.evolve(base_obj, **{aname.lstrip("_"): v})
                ctor = True
            except Exception:
                ctor = False
            j = dict(base_json)
            j[p["name"]] = v
            try:
                conv.structure(j, cls)
                parse = True
            except Exception:
                parse = False
            if ctor != expect or parse != expect:
                run.violation(
                    f"entry:{cls.__name__}.{aname}",
                    f"{cls.__name__}.{aname} ({want}) value {v}: constructor {'accepts' if ctor else 'rejects'}, converter {'accepts' if parse else 'rejects'}, range says {'accept' if expect else 'reject'}",
                    {"class": cls.__name__, "attribute": aname, "value": v, "json": j, "constructor_accepts": ctor, "converter_accepts": parse, "expected_accept": expect},
                    True,
                )
                break

    # ------------------------------------------------------------------ 3b. ints that are not plain ints (bool, IntEnum member, int subclass): still ints, same verdict at both entry points
    import enum as _enum

    class _LineNo(int):
        pass

    _E = _enum.IntEnum("_E", {"A": 1})
    odd_ints = [("True", True), ("False", False), ("IntEnum member 1", _E.A), ("int subclass 5", _LineNo(5))]
    for cls, aname, want, optional, d, p in sites:
        base_json = mm.witness_props(d.props, False, 0)
        try:
            base_obj = conv.structure(base_json, cls)
        except Exception:
            continue
        for label, v in odd_ints:
            entry_evals += 1
            try:
                live.attrs.evolve(base_obj, **{aname.lstrip("_"): v})
                ctor = True
            except Exception:
                ctor = False
            j = dict(base_json)
            j[p["name"]] = v
            try:
                conv.structure(j, cls)
                parse = True
            except Exception:
                parse = False
            if not (ctor and parse):
                run.violation(f"entry:{cls.__name__}.{aname}:int-subtype", f"{cls.__name__}.{aname} ({want}) value {label} (an int in range): constructor {'accepts' if ctor else 'rejects'}, converter {'accepts' if parse else 'rejects'}", {"class": cls.__name__, "attribute": aname, "value": label, "constructor_accepts": ctor, "converter_accepts": parse, "expected_accept": True}, True)
                break
    # ------------------------------------------------------------------ 3c. the same range at integer properties of objects that are reached through a union-typed property
    from lib.sweeps import union_nested_sites
    from oracle.pairing import all_class_decls as _acd

    nested_evals = 0
    nested_bad = 0
    for d in _acd(mm):
        cls = getattr(live.types, d.pyname, None)
        if cls is None or nested_bad >= 5:
            continue
        host = mm.witness_props(d.props, False, 0)
        for p in d.props:
            for alt, nprops, place in union_nested_sites(mm, p["type"]):
                for q in nprops:
                    qt = q["type"]
                    if not (qt["kind"] == "base" and qt["name"] in ("integer", "uinteger")):
                        continue
                    lo, hi = (INT_MIN, INT_MAX) if qt["name"] == "integer" else (UINT_MIN, UINT_MAX)
                    nested = mm.witness_props(nprops, False, 0)
                    for v in (lo - 1, hi + 1, lo, hi):
                        nested_evals += 1
                        nj = dict(nested)
                        nj[q["name"]] = v
                        j = dict(host)
                        j[p["name"]] = place(nj)
                        try:
                            conv.structure(j, cls)
                            accepted = True
                        except Exception:
                            accepted = False
                        if accepted != (lo <= v <= hi):
                            nested_bad += 1
                            run.violation(f"entry:{d.pyname}.{p['name']}:nested:{q['name']}", f"{d.pyname}.{p['name']} holds (through a union) an object whose {qt['name']} property {q['name']} is {v}: the converter {'accepts' if accepted else 'rejects'} it", {"class": d.pyname, "property": p["name"], "nested_property": q["name"], "value": v, "json": j, "converter_accepts": accepted}, True)
                            break
    run.assume(
        "Python ints are unbounded: integer arithmetic in the VCs is mathematical and exact",
        "bool is a subtype of int (encoded); instances of other int subclasses behave as ints",
        "str()/format() of the arguments does not raise (f-string formatting is total)",
        "cattrs structures an int-annotated field with int(v) (identity on ints) and then calls the attrs constructor, which runs the field validators (probed on every integer site with the boundary set, not proved)",
        "attrs validators are not globally disabled (attrs.validators.set_disabled)",
    )
    cov = stats.coverage()
    cov.update(
        {
            "obligations": stats.obligations + table_obl,
            "discharged": stats.discharged + table_ok,
            "checker_cmd": "bin/check C12  (pyvc: ast -> symbolic execution -> SMT-LIB -> /usr/bin/z3, cvc5 fallback; table obligations evaluated exhaustively)",
            "trusted_base": ["z3 4.8.12 / cvc5 1.0.3", "pyvc symbolic executor (DESIGN 2.2-2.3)", "CPython data model for int/bool/isinstance", "attrs/cattrs constructor+int() row (probed)"],
            "table_obligations": table_obl,
            "table_discharged": table_ok,
            "integer_sites": len(sites),
            "encoder_vs_cpython_inputs": diff_n,
            "bounded_native_validator_calls": bounded_evals,
            "bounded_entry_point_probes": entry_evals,
            "nested_through_union_probes": nested_evals,
            "samples": stats.samples[:6] + [{"site": f"{c.__name__}.{a}", "type": w} for c, a, w, *_ in sites[:5]],
            "notes": run.notes,
        }
    )
    return run.finish(cov)


def _site_replay(live, mm, d, p, cls, a) -> Dict[str, Any]:
    t = p["type"]
    lo, hi = (INT_MIN, INT_MAX) if t["name"] == "integer" else (UINT_MIN, UINT_MAX)
    base_json = mm.witness_props(d.props, False, 0)
    obs = []
    for v in (lo, hi, lo - 1, hi + 1, -1):
        j = dict(base_json)
        j[p["name"]] = v
        try:
            live.converter.structure(j, cls)
            obs.append((v, "accepted", lo <= v <= hi))
        except Exception as e:
            obs.append((v, "rejected", lo <= v <= hi))
    return {"class": d.pyname, "attribute": a.name, "metamodel_type": t, "observations(value, converter, should_accept)": obs, "json_base": base_json}
