"""C14 — every union in the protocol can be parsed in each of its alternatives."""
from __future__ import annotations

from typing import List

from lib.pylive import Live
from lib.report import Run
from lib.unions import UnionAnalysis
from oracle.metamodel import MetaModel
from props import _unions as U


def main(argv: List[str]) -> int:
    run = Run("C14", "proof", argv)
    live = Live()
    mm = MetaModel.load()
    ua = UnionAnalysis(live, mm)
    what = {
        "O0": "a value valid for the union makes the handler raise (unsupported / cannot disambiguate)",
        "O1": "a value valid for the union is parsed into an alternative for which it is not valid",
    }
    cov = U.report_unions(run, live, mm, ua, {"missing", "O0", "O1", "cover"}, what)
    if not ua.sites:
        run.crash("no union position discovered")
    run.assume(*U.ASSUMPTIONS)
    occurrences = sum(len(s.where) for s in ua.sites)
    return run.finish(
        {
            "obligations": cov["n_ob"],
            "discharged": cov["n_dis"],
            "checker_cmd": "bin/check C14  (pyvc: every effective union handler executed symbolically on a probe tree; dispatch table evaluated on a live converter)",
            "trusted_base": ["z3 4.8.12 / cvc5 1.0.3", "pyvc + jsonsym encoder (DESIGN 2.2-2.4)", "cattrs dispatch (evaluated on the live converter)", "cattrs make_dict_structure_fn row (assumed, probed)"],
            "smt_by_backend": cov["backends"],
            "smt_solver_s": round(ua.solver_s, 2),
            "symbolic_execution_s": round(ua.symex_s, 2),
            "union_positions": occurrences,
            "distinct_handler_type_sites": len(ua.sites),
            "handlers_under_contract": cov["functions"],
            "outside_subset": cov["outside"],
            "cross_check": cov.get("cross_check"),
            "samples": cov["samples"],
            "notes": run.notes,
        }
    )
