"""C14 — every union in the protocol can be parsed in each of its alternatives."""
from __future__ import annotations

import os
from typing import List

from lib.pylive import Live
from lib.report import Run
from lib.unions import UnionAnalysis
from oracle.metamodel import MetaModel
from props import _unions as U


def main(argv: List[str]) -> int:
    run = Run("C14", "proof", argv)
    live = Live()
    mm = MetaModel.load()
    ua = UnionAnalysis(live, mm)
    what = {
        "O0": "a value valid for the union makes the handler raise (unsupported / cannot disambiguate)",
        "O1": "a value valid for the union is parsed into an alternative for which it is not valid",
    }
    cov = U.report_unions(run, live, mm, ua, {"missing", "O0", "O1", "cover"}, what)
    if not ua.sites:
        run.crash("no union position discovered")
    # encoder-vs-CPython differential (guard against an unsound encoding): the path the probe-tree encoding predicts for a
    # concrete input must be the path the real handler takes.  A disagreement is a checker error (exit 3), not a violation.
    from lib.unions import differential, site_inputs

    diff_n = 0
    diff_bad = []
    for r in ua.results:
        if r.unsupported:
            continue
        fam = site_inputs(mm, r.site.tau, cap=60 if run.tier == "quick" else 400)
        extra = [None, True, 5, "x", 1.5, [], {}, {"id": "1"}, [{"x": 1}], {"kind": "zzz"}]
        k, bad = differential(live, mm, r, fam + extra)
        diff_n += k
        diff_bad += bad
    for b in diff_bad[:5]:
        run.crash(f"encoder disagrees with CPython for {b['handler']} on {str(b['input'])[:160]}: predicted {b['predicted']}, real handler gives {b['native']}")
    # parse-only probe with an unusual but valid shape: an LSPAny / LSPObject / LSPArray alternative whose payload is nested 600 levels deep
    # (a handler that copies or walks its input recursively runs out of stack; json.loads accepts such a document)
    from lib.sweeps import deep_parse_inputs
    from oracle.pairing import all_class_decls

    deep_n = 0
    for d in all_class_decls(mm):
        cls = getattr(live.types, d.pyname, None)
        if cls is None:
            continue
        for j in deep_parse_inputs(mm, d):
            deep_n += 1
            try:
                live.converter.structure(j, cls)
            except Exception as e:  # noqa
                which = next((k for k, v in j.items() if isinstance(v, (dict, list)) and len(str(type(v))) and k), "?")
                run.violation(f"deep:{d.pyname}", f"a valid {d.pyname} whose untyped (LSPAny) payload is nested 600 levels deep is not structured: {type(e).__name__}: {str(e)[:120]}", {"class": d.pyname, "depth": 600, "replay": "lib.sweeps.deep_parse_inputs(mm, <decl>) -> converter.structure(<input>, <class>)"}, True)
                break
    # thorough: cattrs picks the discriminating attribute of its default disambiguator by iterating a set; re-verify the
    # decision lists produced under other hash seeds (the whole check is re-run in a subprocess per seed)
    seeds_checked = []
    if run.tier == "thorough" and os.environ.get("VERIF_C14_INNER") != "1":
        import subprocess
        import tempfile

        for sd in ("1", "2", "3", "11"):
            scr = tempfile.mkdtemp(prefix="verif-c14-seed-")
            env = dict(os.environ, PYTHONHASHSEED=sd, VERIF_C14_INNER="1", VERIF_EVIDENCE_DIR=os.path.join(scr, "ev"), VERIF_REPLAY_DIR=os.path.join(scr, "rp"), VERIF_TIER="quick")
            p = subprocess.run([os.path.join(os.path.dirname(os.path.dirname(os.path.abspath(__file__))), "bin", "check"), "C14", "--tier", "quick"], capture_output=True, text=True, env=env)
            seeds_checked.append({"PYTHONHASHSEED": sd, "exit": p.returncode})
            if p.returncode == 1:
                for ln in [l for l in p.stdout.splitlines() if l.startswith("  obligation: ")][:3]:
                    run.violation(f"hashseed{sd}:" + ln.split("obligation: ", 1)[1], f"under PYTHONHASHSEED={sd} the union handlers (cattrs default disambiguator choice) violate: {ln.strip()}", {"hashseed": sd, "output": p.stdout[-1500:]}, True)
            elif p.returncode != 0:
                run.crash(f"C14 under PYTHONHASHSEED={sd} exits {p.returncode}: {p.stdout[-300:]}")
            import shutil

            shutil.rmtree(scr, ignore_errors=True)
    run.assume(*U.ASSUMPTIONS)
    occurrences = sum(len(s.where) for s in ua.sites)
    return run.finish(
        {
            "obligations": cov["n_ob"],
            "discharged": cov["n_dis"],
            "checker_cmd": "bin/check C14  (pyvc: every effective union handler executed symbolically on a probe tree; dispatch table evaluated on a live converter)",
            "trusted_base": ["z3 4.8.12 / cvc5 1.0.3", "pyvc + jsonsym encoder (DESIGN 2.2-2.4)", "cattrs dispatch (evaluated on the live converter)", "cattrs make_dict_structure_fn row (assumed, probed)"],
            "smt_by_backend": cov["backends"],
            "smt_solver_s": round(ua.solver_s, 2),
            "symbolic_execution_s": round(ua.symex_s, 2),
            "union_positions": occurrences,
            "distinct_handler_type_sites": len(ua.sites),
            "handlers_under_contract": cov["functions"],
            "hash_seeds_reverified": seeds_checked,
            "encoder_vs_cpython_inputs": diff_n,
            "encoder_vs_cpython_disagreements": len(diff_bad),
            "outside_subset": cov["outside"],
            "cross_check": cov.get("cross_check"),
            "samples": cov["samples"],
            "notes": run.notes,
        }
    )
