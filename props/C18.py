"""C18 — model loading is lossless, merge is concatenation, equality is structural, invalid models write nothing."""
from __future__ import annotations

import ast
import copy
import importlib
import json
import os
import shutil
import subprocess
import sys
from typing import Any, Dict, Iterable, List, Optional, Tuple

from lib import gen
from lib.pylive import setup_path
from lib.report import Run
from lib.smtrun import SmtStats, verify
from oracle.metamodel import ANNOT_KEYS, strip_doc

REPO = gen.REPO
MODEL_REL = "generator/model.py"
MAIN_REL = "generator/__main__.py"


# ---------------------------------------------------------------------------------------------
# document walking: which model class stands for which JSON node
# ---------------------------------------------------------------------------------------------

KIND_CLASS = {"base": "BaseType", "reference": "ReferenceType", "array": "ArrayType", "or": "OrType", "and": "AndType", "literal": "LiteralType", "map": "MapType", "stringLiteral": "StringLiteralType", "tuple": "TupleType"}


def walk_doc(doc: Dict) -> Iterable[Tuple[Tuple, Dict, str]]:
    yield (), doc, "LSPModel"
    yield ("metaData",), doc["metaData"], "MetaData"

    def wtype(path, t):
        k = t.get("kind")
        yield path, t, KIND_CLASS.get(k, f"<{k}>")
        if k in ("or", "and", "tuple"):
            for i, it in enumerate(t["items"]):
                yield from wtype(path + ("items", i), it)
        elif k == "array":
            yield from wtype(path + ("element",), t["element"])
        elif k == "map":
            yield path + ("key",), t["key"], "BaseMapKeyType" if t["key"]["kind"] == "base" else "ReferenceMapKeyType"
            yield from wtype(path + ("value",), t["value"])
        elif k == "literal":
            yield path + ("value",), t["value"], "LiteralValue"
            for i, p in enumerate(t["value"]["properties"]):
                yield path + ("value", "properties", i), p, "Property"
                yield from wtype(path + ("value", "properties", i, "type"), p["type"])

    for i, r in enumerate(doc["requests"]):
        yield ("requests", i), r, "Request"
        for f in ("params", "result", "partialResult", "errorData", "registrationOptions"):
            if isinstance(r.get(f), dict):
                yield from wtype(("requests", i, f), r[f])
    for i, r in enumerate(doc["notifications"]):
        yield ("notifications", i), r, "Notification"
        for f in ("params", "registrationOptions"):
            if isinstance(r.get(f), dict):
                yield from wtype(("notifications", i, f), r[f])
    for i, s in enumerate(doc["structures"]):
        yield ("structures", i), s, "Structure"
        for j, p in enumerate(s["properties"]):
            yield ("structures", i, "properties", j), p, "Property"
            yield from wtype(("structures", i, "properties", j, "type"), p["type"])
        for f in ("extends", "mixins"):
            for j, t in enumerate(s.get(f) or []):
                yield from wtype(("structures", i, f, j), t)
    for i, e in enumerate(doc["enumerations"]):
        yield ("enumerations", i), e, "Enum"
        yield ("enumerations", i, "type"), e["type"], "EnumValueType"
        for j, v in enumerate(e["values"]):
            yield ("enumerations", i, "values", j), v, "EnumItem"
    for i, a in enumerate(doc["typeAliases"]):
        yield ("typeAliases", i), a, "TypeAlias"
        yield from wtype(("typeAliases", i, "type"), a["type"])


def at(doc, path):
    cur = doc
    for p in path:
        cur = cur[p]
    return cur


def edit_value(v):
    if isinstance(v, bool):
        return not v
    if isinstance(v, str):
        return v + "X"
    if isinstance(v, int):
        return v + 1
    if isinstance(v, list):
        return v[:-1] if v else [{"kind": "base", "name": "string"}]
    if isinstance(v, dict):
        if v.get("kind"):
            return {"kind": "base", "name": "string"} if v != {"kind": "base", "name": "string"} else {"kind": "base", "name": "integer"}
        return None
    return None


ADDABLE = {
    "optional": True,
    "supportsCustomValues": True,
    "typeName": "SomeTypeName",
    "registrationMethod": "x/registration",
    "params": {"kind": "base", "name": "string"},
    "result": {"kind": "base", "name": "string"},
    "partialResult": {"kind": "base", "name": "string"},
    "errorData": {"kind": "base", "name": "string"},
    "registrationOptions": {"kind": "base", "name": "string"},
    "extends": [{"kind": "reference", "name": "Position"}],
    "mixins": [{"kind": "reference", "name": "Position"}],
    "name": "SomeLiteralName",
}


def read_back(obj) -> Any:
    """Content of a loaded model as JSON (attrs fields, minus id_, minus unset optionals)."""
    import attrs

    if attrs.has(type(obj)):
        out = {}
        for a in attrs.fields(type(obj)):
            if a.name == "id_":
                continue
            v = getattr(obj, a.name)
            if v is None:
                continue
            out[a.name] = read_back(v)
        return out
    if isinstance(obj, (list, tuple)):
        return [read_back(x) for x in obj]
    return obj


def drop_empty_defaults(doc: Any) -> Any:
    """Structure.extends / mixins default to [] in the model; an absent key and [] are the same content."""
    if isinstance(doc, dict):
        return {k: drop_empty_defaults(v) for k, v in doc.items() if not (k in ("extends", "mixins") and v == [])}
    if isinstance(doc, list):
        return [drop_empty_defaults(x) for x in doc]
    return doc


# ---------------------------------------------------------------------------------------------
# gate: structural obligations on main()
# ---------------------------------------------------------------------------------------------


def gate_obligations(run: Run, stats) -> Tuple[int, int, Dict[str, Any]]:
    """The gate as a contract on main() (contracts/gate.py): on every path, every plugin run / write happens after every model file has
    been validated, and create_lsp_model receives all documents in order.  Returns (#obligations, #discharged, info)."""
    from contracts import gate as gate_c

    info: Dict[str, Any] = {}
    # the expression main() hands to validate as the schema (evaluated natively by the caller)
    try:
        tree = ast.parse(open(os.path.join(REPO, MAIN_REL), encoding="utf-8").read())
        vcalls = [x for x in ast.walk(tree) if isinstance(x, ast.Call) and ast.unparse(x.func).split(".")[-1] == "validate"]
        if vcalls and len(vcalls[0].args) > 1:
            info["schema_arg"] = ast.unparse(vcalls[0].args[1])
    except (OSError, SyntaxError):
        pass
    res = gate_c.analyse()
    info["mode"] = "proof"
    if res.unsupported:
        info["mode"] = f"bounded stand-in: native gate runs only (outside the verified subset: {res.unsupported})"
        stats.unsupported.append(f"{gate_c.REL}::main: {res.unsupported}")
        run.notes.append(f"main() is outside the verified subset ({res.unsupported}); the native gate runs (schema-violating files in first / second / both positions x plugins) stand in (bounded, not counted as proved)")
        return 0, 0, info
    stats.functions.append(f"{gate_c.REL}::main")
    stats.solver_s += res.solver_s
    posts = [o for o in res.obligations if o.expect == "unsat"]
    reach = [o for o in res.obligations if o.kind == "reach"]
    stats.reach_total += len(reach)
    stats.reach_sat += len([o for o in reach if o.answer == "sat"])
    info.update({"loop_invariants": {str(k): v for k, v in res.invariants.items()}, "houdini_rounds": res.rounds, "events": res.events, "paths": res.paths})
    if "plugin-run" not in res.events:
        run.crash("main(): no plugin run (a call of <module>.generate) is reachable: the gate obligations would be vacuous")
    if not any(o.answer == "sat" and "return" in str(o.meta.get("impl")) for o in reach):
        run.crash("main(): no normally returning path is reachable under n >= 1 (vacuous)")
    n = ok = 0
    seen = set()
    for o in posts:
        if o.kind == "loop":
            # loop obligations of the surviving candidates are all discharged by construction of the fixpoint; count them
            n += 1
            ok += 1 if o.answer == "unsat" else 0
            if o.answer == "unsat":
                stats.by_backend[o.backend] += 1
            continue
        n += 1
        if o.answer == "unsat":
            ok += 1
            stats.by_backend[o.backend] += 1
            continue
        if o.answer != "sat":
            run.undecide(f"{o.name}: {o.answer}")
            continue
        lab = o.meta["label"]
        if lab in seen:
            continue
        seen.add(lab)
        stats.failed.append(o.name)
        w = gate_c.witness(res.world, o)
        what = {
            "validated": "a plugin run / write is reachable on a path on which not every model file has been validated (a schema-violating file does not make the command fail before the plugin runs)",
            "all-files-in-order": "create_lsp_model / the plugin does not receive exactly the documents of all model files, in command-line order",
            "model-argument": "a plugin is run without the merged model",
        }[lab.split(":")[-1]]
        detail = {"obligation": o.name, "path": o.meta, "smt_witness": {k: v for k, v in w.items() if k != "solver_output"}, "solver_output": w.get("solver_output", o.solver_output)[-1500:], "loop_invariants_found": info["loop_invariants"]}
        found = False
        if lab.endswith(":validated"):
            # replay natively: the solver's witness first (if small), then the small validity vectors
            cands: List[List[bool]] = []
            if "n" in w and 1 <= int(w["n"]) <= 4 and not all(w.get("valid", [True])[: int(w["n"])]):
                cands.append([bool(v) for v in w["valid"][: int(w["n"])]])
            cands += [[False], [True, False], [False, True], [True, False, True]]
            tried = []
            for validity in cands:
                nat = native_gate_case(validity, fresh_out=":write:" in lab)
                tried.append(nat)
                if nat and (nat["exit"] == 0 or nat["files_written"]):
                    found = True
                    detail["native_replay"] = nat
                    what += f"; e.g. model files {nat['models']}: `python -m generator --plugin {nat['plugin']}` exits {nat['exit']} with {len(nat['files_written'])} files written"
                    break
            if not found:
                detail["native_replays_tried"] = tried
        run.violation(f"main:{lab}", what, detail, found)
    stats.obligations += n
    stats.discharged += ok
    return n, ok, info


def native_gate_case(validity: List[bool], fresh_out: bool = False, same_basename: bool = False, plugins=("python", "rust", "dotnet"), optimise: bool = False) -> Optional[Dict[str, Any]]:
    """Run the real command on model files that are valid / schema-violating as given; report exit status and files written.
    The schema-violating edits are ones the model classes load (only the gate can stop them); edits x plugins are tried until one run
    ends with exit 0 or files written."""
    doc = json.load(open(os.path.join(REPO, "generator", "lsp.json"), "rb"))
    k = len(validity)
    edits = [
        ("messageDirection misspelt", lambda p_: (p_["requests"] or p_["notifications"])[0].__setitem__("messageDirection", "sideways")),
        ("sinceTags holds integers", lambda p_: p_["structures"][0].__setitem__("sinceTags", [1, 2])),
    ]
    last = None
    for ename, edit in edits:
        for plugin in plugins:
            tmp = gen.scratch()
            try:
                models = []
                for i, v in enumerate(validity):
                    # consecutive parts of the committed model (their merge is the committed model)
                    part = {"metaData": doc["metaData"]}
                    for sec in ("requests", "notifications", "structures", "enumerations", "typeAliases"):
                        m = len(doc[sec])
                        part[sec] = copy.deepcopy(doc[sec][m * i // k : m * (i + 1) // k])
                    if not v:
                        edit(part)
                    d = os.path.join(tmp, f"m{i}")
                    os.makedirs(d)
                    pth = os.path.join(d, "lsp.json" if same_basename else f"model{i}.json")
                    json.dump(part, open(pth, "w"))
                    models.append(pth)
                out = os.path.join(tmp, "out")
                td = os.path.join(tmp, "tests-out")
                if not fresh_out:
                    os.makedirs(out)
                rc, log, dt = gen.run_plugin(plugin, out, models=models, test_dir=td if fresh_out else None, optimise=optimise)
                written = sorted(gen.tree_digest(out))[:5] if os.path.isdir(out) else []
                if fresh_out and os.path.isdir(out) and not written:
                    written = ["<the output directory itself was created>"]
                last = {"models": ["valid" if v else f"schema-violating ({ename})" for v in validity], "plugin": plugin, "exit": rc, "files_written": written, "log_tail": log[-300:]}
                if rc == 0 or last["files_written"]:
                    return last
            except Exception:  # noqa
                pass
            finally:
                shutil.rmtree(tmp, ignore_errors=True)
    return last


def run_gate_native(run: Run, plugins: List[str], tmp: str) -> int:
    """Schema-violating single edits x plugins: the command must fail and write nothing (replay of the gate)."""
    import jsonschema

    doc = json.load(open(os.path.join(REPO, "generator", "lsp.json"), "rb"))
    schema = json.load(open(os.path.join(REPO, "generator", "lsp.schema.json"), "rb"))
    rooted = {**schema, "$ref": "#/definitions/MetaModel"}
    edits = []

    def mk(name, f):
        d = copy.deepcopy(doc)
        f(d)
        try:
            jsonschema.validate(d, rooted)
            return
        except jsonschema.ValidationError:
            edits.append((name, d))

    mk("sinceTags holds integers", lambda d: d["structures"][0].__setitem__("sinceTags", [1, 2]))
    mk("unknown top-level key", lambda d: d.__setitem__("garbage", 1))
    mk("top-level $schema key", lambda d: d.__setitem__("$schema", "./lsp.schema.json"))
    mk("top-level $comment key", lambda d: d.__setitem__("$comment", "edited by hand"))
    mk("map key of a non-key base type", lambda d: [t for _, t, c in walk_doc(d) if c == "BaseMapKeyType"][0].__setitem__("name", "boolean"))
    mk("enumeration value entry without name", lambda d: d["enumerations"][0]["values"][0].pop("name"))
    mk("messageDirection misspelt", lambda d: d["notifications"][0].__setitem__("messageDirection", "sideways"))
    mk("property with an unknown annotation key", lambda d: d["structures"][1]["properties"][0].__setitem__("commentary", "x"))
    n_hand = len(edits)
    # systematic: every section (and a few nested positions) holding a JSON value of another type, or missing.  Empty containers of the
    # wrong kind ({} / "" where an array is required) are the interesting ones: code that only iterates them sees "no entries".
    wrong = [("an empty object", {}), ("an empty string", ""), ("null", None), ("the number 0", 0), ("false", False), ("an object", {"a": 1}), ("a string", "x")]
    cands = []
    for sec in ("enumerations", "notifications", "requests", "structures", "typeAliases", "metaData"):
        for label, val in wrong:
            cands.append((f"section {sec} is {label}", lambda d, sec=sec, val=val: d.__setitem__(sec, val)))
        cands.append((f"section {sec} is missing", lambda d, sec=sec: d.pop(sec)))
    for label, val in wrong + [("an empty array", [])]:
        cands.append((f"properties of a structure is {label}", lambda d, val=val: d["structures"][0].__setitem__("properties", val)))
        cands.append((f"type of a property is {label}", lambda d, val=val: next(s for s in d["structures"] if s["properties"])["properties"][0].__setitem__("type", val)))
        cands.append((f"values of an enumeration is {label}", lambda d, val=val: d["enumerations"][0].__setitem__("values", val)))
        cands.append((f"name of a structure is {label}", lambda d, val=val: d["structures"][0].__setitem__("name", val)))
        cands.append((f"method of a request is {label}", lambda d, val=val: d["requests"][0].__setitem__("method", val)))
        cands.append((f"items of an or type is {label}", lambda d, val=val: [t for _, t, c in walk_doc(d) if c == "OrType"][0].__setitem__("items", val)))
    if run.tier != "thorough":
        import random as _random

        # quick tier: the empty-container cases for every section plus a sample of the rest (VERIF_SEED); thorough: all
        keep = [c for c in cands if " is an empty " in c[0] and c[0].startswith("section ")]
        rest = [c for c in cands if c not in keep]
        _random.Random(run.seed).shuffle(rest)
        cands = keep + rest[:18]
    for name, f in cands:
        mk(name, f)
    import concurrent.futures as cf

    jobs = []
    # the same violation in a file that is not plain JSON (comments, a trailing comma, a NaN literal): whatever a lenient reader makes of
    # such a file, a document that violates the schema must not reach a plugin
    if edits:
        vname, vdoc = edits[0]
        text = json.dumps(vdoc, indent=1)
        dressed = {
            "with a // comment line": "// edited by hand\n" + text,
            "with a /* */ comment": text.replace("{", "{ /* generated */", 1),
            "with a trailing comma": text.rstrip()[:-1].rstrip() + ",\n}",
            "with a NaN literal": text.replace('"metaData": {', '"metaData": {"verifNaN": NaN, ', 1),
        }
        for di, (dname, dtext) in enumerate(dressed.items()):
            badp = os.path.join(tmp, f"dressed{di}.json")
            open(badp, "w", encoding="utf-8").write(dtext)
            for plugin in plugins[:2]:
                jobs.append((f"{vname}, {dname}", plugin, [badp], "first"))
    for ei, (name, d) in enumerate(edits):
        bad = os.path.join(tmp, f"bad{ei}.json")
        json.dump(d, open(bad, "w"))
        for plugin in plugins if (ei < n_hand or run.tier == "thorough") else plugins[:1]:
            jobs.append((name, plugin, [bad], "first"))
    def one(job):
        name, plugin, models, pos = job
        out = os.path.join(tmp, f"out-{abs(hash((name, plugin, pos)))}")
        os.makedirs(out, exist_ok=True)
        rc, log, dt = gen.run_plugin(plugin, out, models=models)
        written = [f for f in gen.tree_digest(out)]
        shutil.rmtree(out, ignore_errors=True)
        return job, rc, written

    with cf.ThreadPoolExecutor(max_workers=12) as ex:
        results = list(ex.map(one, jobs))
    seen = set()
    for (name, plugin, models, pos), rc, written in results:
        if (rc == 0 or written) and (name, pos) not in seen:
            seen.add((name, pos))
            run.violation(
                f"gate:native:{pos}:{name}",
                f"a schema-violating model ({name}) makes `python -m generator --plugin {plugin}` exit {rc} with {len(written)} files written",
                {"edit": name, "plugin": plugin, "exit": rc, "files_written": written[:5], "replay": "python -m generator --model <edited lsp.json> --plugin <p> --output-dir <empty dir>"},
                True,
            )
    # positions: the committed model cut into consecutive files, one of them schema-violating (but loadable), with distinct and with
    # equal base names; the command must fail and write nothing whatever the position
    cases = [(v, same, False) for v in ([True, False], [False, True], [True, False, True]) for same in (False, True)]
    # the same gate with assertions compiled away (python -O / PYTHONOPTIMIZE=1)
    cases += [([False], False, True), ([True, False], False, True)]
    with cf.ThreadPoolExecutor(max_workers=6) as ex:
        pres = list(ex.map(lambda c: (c, native_gate_case(c[0], same_basename=c[1], plugins=("python", "rust"), optimise=c[2])), cases))
    for (validity, same, opt), nat in pres:
        if nat and (nat["exit"] == 0 or nat["files_written"]):
            pos = "".join("v" if v else "X" for v in validity) + ("-same-basename" if same else "") + ("-python-O" if opt else "")
            run.violation(
                f"gate:native:position:{pos}",
                f"model files {nat['models']}" + (" (all named lsp.json, in different directories)" if same else "") + (" under PYTHONOPTIMIZE=1" if opt else "") + f": `python -m generator --plugin {nat['plugin']}` exits {nat['exit']} with {len(nat['files_written'])} files written",
                {**nat, "replay": "python -m generator --model <consecutive parts of lsp.json, the marked one edited> --plugin <p> --output-dir <empty dir>"},
                True,
            )
    return len(jobs) + 4 * len(cases)


# ---------------------------------------------------------------------------------------------


def main(argv: List[str]) -> int:
    run = Run("C18", "proof", argv)
    setup_path()
    model = importlib.import_module("generator.model")
    assert model.__file__.startswith(REPO + os.sep)
    import attrs

    stats = SmtStats()
    doc = json.load(open(os.path.join(REPO, "generator", "lsp.json"), "rb"))
    schema = json.load(open(os.path.join(REPO, "generator", "lsp.schema.json"), "rb"))
    n_tab = d_tab = 0

    def tab(cond, key, what, found=True, **detail):
        nonlocal n_tab, d_tab
        n_tab += 1
        if cond:
            d_tab += 1
        else:
            run.violation(key, what, detail, found)

    # ---- 1. equality: 22 __eq__ methods, deduced
    from contracts import model_eq

    world, interp, items = model_eq.build(model)
    if not items:
        run.crash("no __eq__ method found in generator/model.py")
    nodes_by_class: Dict[str, List[Tuple]] = {}
    for path, node, cname in walk_doc(doc):
        nodes_by_class.setdefault(cname, []).append(path)

    def native_eq_replay(cname: str, structural: List[str]) -> Optional[Dict[str, Any]]:
        """Two documents that differ in one structural field of a node of class cname must load to unequal models; comparing never raises."""
        paths = nodes_by_class.get(cname, [])
        try:
            a = model.LSPModel(**copy.deepcopy(doc))
            b = model.LSPModel(**copy.deepcopy(doc))
            if not (a == b):
                return {"observed": "two loads of the same document compare unequal", "documents": "generator/lsp.json twice"}
        except Exception as e:  # noqa
            return {"observed": f"comparing two loads of the same document raises {type(e).__name__}: {e}", "documents": "generator/lsp.json twice"}
        for f in structural:
            for path in paths[:40]:
                node = at(doc, path)
                d2 = copy.deepcopy(doc)
                n2 = at(d2, path)
                if f in node:
                    nv = edit_value(node[f])
                    if nv is None:
                        continue
                    n2[f] = nv
                elif f in ADDABLE:
                    n2[f] = copy.deepcopy(ADDABLE[f])
                else:
                    continue
                try:
                    m2 = model.LSPModel(**d2)
                except Exception:
                    continue
                if strip_doc(d2) == strip_doc(doc):
                    continue
                try:
                    eq = model.LSPModel(**copy.deepcopy(doc)) == m2
                except Exception as e:  # noqa
                    return {"observed": f"comparison raises {type(e).__name__}: {e}", "edited_path": list(path), "field": f}
                if eq:
                    return {"observed": f"documents differing in {'.'.join(map(str, path))}.{f} load to models that compare equal", "edited_path": list(path), "field": f, "old": node.get(f), "new": n2.get(f)}
                break
        # the ORDER of a list is part of the structure ("every declaration, property, type expression ... in order"): the same entries in
        # reversed order are a structurally different document (added after seed C18-16: order-insensitive `or` / `and` equality)
        for f in structural:
            done = 0
            for path in paths[:400]:
                node = at(doc, path)
                v = node.get(f)
                if not (isinstance(v, list) and len(v) >= 2 and strip_doc({"x": v}) != strip_doc({"x": v[::-1]})):
                    continue
                d2 = copy.deepcopy(doc)
                at(d2, path)[f] = copy.deepcopy(v[::-1])
                try:
                    m2 = model.LSPModel(**d2)
                    eq = model.LSPModel(**copy.deepcopy(doc)) == m2
                except Exception as e:  # noqa
                    return {"observed": f"loading / comparing a document with reversed {f} raises {type(e).__name__}: {e}", "edited_path": list(path), "field": f}
                if eq:
                    return {"observed": f"documents that differ only in the order of {'.'.join(map(str, path))}.{f} load to models that compare equal", "edited_path": list(path), "field": f, "old": v, "new": v[::-1]}
                done += 1
                if done >= 3:
                    break
        # the same value under two different optional fields (everything else equal): which field carries it is part of the structure
        addable = [f for f in structural if f in ADDABLE]
        for f in addable:
            for g in addable:
                if f == g or type(ADDABLE[f]) is not type(ADDABLE[g]):
                    continue
                path = next((p_ for p_ in paths[:200] if f not in at(doc, p_) and g not in at(doc, p_)), None)
                if path is None:
                    continue
                da, db = copy.deepcopy(doc), copy.deepcopy(doc)
                at(da, path)[f] = copy.deepcopy(ADDABLE[f])
                at(db, path)[g] = copy.deepcopy(ADDABLE[f])
                try:
                    ma, mb = model.LSPModel(**da), model.LSPModel(**db)
                except Exception:
                    continue
                try:
                    eq = ma == mb
                except Exception as e:  # noqa
                    return {"observed": f"comparison raises {type(e).__name__}: {e}", "edited_path": list(path), "field": f"{f} vs {g}"}
                if eq:
                    return {"observed": f"a document with {'.'.join(map(str, path))}.{f} = {ADDABLE[f]!r} and one with the same value under .{g} instead load to models that compare equal", "edited_path": list(path), "field": f"{f} vs {g}"}
        return None

    for fi, contract, label, meta in items:
        if fi is None:
            run.notes.append(f"{label}: {meta['origin']}; the native (class, structural field) comparison below decides (bounded)")
            continue

        def on_fail(o, label=label, contract=contract, meta=meta):
            w = native_eq_replay(meta["class"], meta["structural"])
            base = {"key": f"{label}:spec", "contract": contract.note, "class": meta["class"]}
            if w:
                return True, {**base, "what": f"{meta['class']}.__eq__ is not structural equality: {w['observed']}", **w}
            return False, {**base, "what": f"{meta['class']}.__eq__ is not provably '{contract.note}'"}

        verify(run, stats, world, interp, fi, contract, label, on_fail, lambda msg, label=label: run.notes.append(f"{label}: outside the verified subset ({msg}); the native (class, structural field) comparison below stands in (bounded)"))
    # every model class that can occur in a loaded model has a hand-written __eq__ under contract
    under = {m["class"] for _, _, _, m in items if not m["origin"].startswith("not defined")}
    for cname in sorted(set(KIND_CLASS.values()) | {"LSPModel", "MetaData", "Request", "Notification", "Structure", "Enum", "EnumItem", "EnumValueType", "TypeAlias", "Property", "LiteralValue", "BaseMapKeyType", "ReferenceMapKeyType"}):
        tab(cname in under, f"{MODEL_REL}::{cname}.__eq__:exists", f"model class {cname} has no hand-written __eq__ (attrs' generated one would compare the random id_)", found=False)

    # ---- 2. lossless: schema definitions <-> model classes (induction over the schema), plus read-back on the committed model
    defs = schema["definitions"]
    pairs = {
        "MetaModel": "LSPModel", "MetaData": "MetaData", "Request": "Request", "Notification": "Notification", "Structure": "Structure", "Enumeration": "Enum",
        "EnumerationEntry": "EnumItem", "EnumerationType": "EnumValueType", "TypeAlias": "TypeAlias", "Property": "Property", "StructureLiteral": "LiteralValue",
        "BaseType": "BaseType", "ReferenceType": "ReferenceType", "ArrayType": "ArrayType", "MapType": "MapType", "AndType": "AndType", "OrType": "OrType",
        "TupleType": "TupleType", "StructureLiteralType": "LiteralType", "StringLiteralType": "StringLiteralType",
    }
    for sname, cname in pairs.items():
        sd = defs.get(sname)
        cls = getattr(model, cname, None)
        tab(sd is not None and cls is not None, f"schema:{sname}:class", f"schema definition {sname} has no model class {cname}", found=False)
        if sd is None or cls is None:
            continue
        have = {a.name for a in attrs.fields(cls)} - {"id_"}
        want = set(sd.get("properties", {}))
        for k in sorted(want - have):
            tab(False, f"schema:{sname}.{k}:attribute", f"schema property {sname}.{k} has no attribute on model class {cname}: a schema-valid document carrying it cannot be loaded")
        for k in sorted(want & have):
            tab(True, "", "")
    # kinds admitted by the schema's Type vs convert_to_lsp_type's table
    type_defs = [r["$ref"].split("/")[-1] for r in defs["Type"]["anyOf"]]
    for td in type_defs:
        kinds = defs[td]["properties"]["kind"].get("const") or (defs[td]["properties"]["kind"].get("enum") or [None])[0]
        sample = {"kind": kinds}
        for req in defs[td].get("required", []):
            if req == "kind":
                continue
            ps = defs[td]["properties"][req]
            sample[req] = "string" if req == "name" and "BaseTypes" in json.dumps(ps) else "x" if ps.get("type") == "string" else 1 if ps.get("type") in ("number", "integer") else True if ps.get("type") == "boolean" else {"kind": "base", "name": "string"} if "$ref" in ps and "Type" in ps["$ref"] else [] if ps.get("type") == "array" else {"properties": []} if "StructureLiteral" in json.dumps(ps) else "string" if "BaseTypes" in json.dumps(ps) else "x"
        try:
            model.convert_to_lsp_type(**sample)
            okk = True
            err = ""
        except Exception as e:  # noqa
            okk = False
            err = f"{type(e).__name__}: {e}"
        tab(okk, f"schema:Type:{kinds}", f"type kind {kinds!r} is schema-valid but the model rejects it: {err}", sample=sample)
    # read-back of the committed model
    try:
        m = model.LSPModel(**copy.deepcopy(doc))
        rb = read_back(m)
        tab(drop_empty_defaults(rb) == drop_empty_defaults(doc), "load:read-back:lsp.json", "reading back the loaded committed model does not give the document", first_difference=_first_diff(drop_empty_defaults(doc), drop_empty_defaults(rb)))
    except Exception as e:  # noqa
        tab(False, "load:lsp.json", f"the committed model does not load: {type(e).__name__}: {e}")
    # read-back of documents whose TEXT fields carry unusual but schema-valid strings (line endings, surrounding blanks, tabs, non-ASCII, empty):
    # loading must not normalise them
    texts = ["line one\r\nline two", "trailing blank ", "  leading blanks", "tab\there", "carriage\rreturn only", "na\u00efve \U0001F44D", "", "ends with newline\n"]

    def with_texts(d0: Dict) -> Dict:
        d1 = copy.deepcopy(d0)
        k = 0
        for sec in ("structures", "enumerations", "typeAliases", "requests", "notifications"):
            for item in d1[sec][:12]:
                item["documentation"] = texts[k % len(texts)]
                k += 1
                if k % 3 == 0:
                    item["since"] = texts[(k + 1) % len(texts)]
                if k % 4 == 0:
                    item["sinceTags"] = [texts[(k + 2) % len(texts)], "3.17.0"]
                if k % 5 == 0:
                    item["deprecated"] = texts[(k + 3) % len(texts)]
                for pr in (item.get("properties") or [])[:2]:
                    pr["documentation"] = texts[(k + 4) % len(texts)]
                for vv in (item.get("values") or [])[:2]:
                    vv["documentation"] = texts[(k + 5) % len(texts)]
        return d1

    try:
        dt = with_texts(doc)
        import jsonschema as _js

        _js.validate(dt, {**schema, "$ref": "#/definitions/MetaModel"})
        rbt = read_back(model.LSPModel(**copy.deepcopy(dt)))
        tab(drop_empty_defaults(rbt) == drop_empty_defaults(dt), "load:read-back:text-fields", "reading back a model whose documentation / since / deprecated texts contain CR LF, blanks, tabs, non-ASCII or are empty does not give the document (a text was normalised)", first_difference=_first_diff(drop_empty_defaults(dt), drop_empty_defaults(rbt)))
    except Exception as e:  # noqa
        tab(False, "load:read-back:text-fields", f"a schema-valid model with unusual text fields does not load: {type(e).__name__}: {str(e)[:200]}")
    # ---- 2b. random schema-valid documents (the committed model uses only part of what the schema admits): each loads, reads back as
    #          itself, equals a second load of itself; and the five forms of `params` (absent, [], [T], T, [T, T']) are pairwise different
    from oracle.schemagen import SchemaGen
    import random as _random

    sg = SchemaGen(schema, exclude_defs={"IntegerLiteralType", "BooleanLiteralType"}, drop_props={"StructureLiteral": {"deprecated", "documentation", "proposed", "since", "sinceTags"}})
    rooted_schema = {**schema, "$ref": "#/definitions/MetaModel"}
    rnd = _random.Random(run.seed * 7919 + 5)
    n_random = 40 if run.tier == "quick" else 600
    random_docs = 0
    for k in range(n_random):
        dk = sg.document(rnd)
        for en in dk.get("enumerations", []):
            # the schema cannot say that an entry's value has the enumeration's base type; the loader checks it (obligation
            # schema:Enumeration.values:value-type below covers the mismatch on its own): keep the random documents consistent
            for ent in en.get("values", []):
                ent["value"] = str(ent["value"]) if en["type"]["name"] == "string" else (ent["value"] if isinstance(ent["value"], int) and not isinstance(ent["value"], bool) else len(str(ent["value"])))
        try:
            _js.validate(dk, rooted_schema)
        except _js.ValidationError as e:
            run.crash(f"schema-driven generator produced an invalid document: {str(e)[:200]}")
            break
        random_docs += 1
        try:
            m1, m2 = model.LSPModel(**copy.deepcopy(dk)), model.LSPModel(**copy.deepcopy(dk))
        except Exception as e:  # noqa
            if not tab(False, "load:random-schema-document", f"a schema-valid document does not load: {type(e).__name__}: {str(e)[:200]}", document=dk, generator_seed=run.seed, index=k):
                pass
            break
        rb = read_back(m1)
        if drop_empty_defaults(rb) != drop_empty_defaults(dk):
            tab(False, "load:read-back:random-schema-document", "reading back a schema-valid document does not give the document", first_difference=_first_diff(drop_empty_defaults(dk), drop_empty_defaults(rb)), document=dk, generator_seed=run.seed, index=k)
            break
        if not (m1 == m2):
            tab(False, "eq:random-schema-document:reflexive", "two loads of the same schema-valid document compare unequal", document=dk, generator_seed=run.seed, index=k)
            break
    else:
        tab(True, "load:random-schema-document", "")
        tab(True, "load:read-back:random-schema-document", "")
        tab(True, "eq:random-schema-document:reflexive", "")
    mism = {"metaData": {"version": "0"}, "requests": [], "notifications": [], "structures": [], "typeAliases": [], "enumerations": [{"name": "E", "type": {"kind": "base", "name": "integer"}, "values": [{"name": "A", "value": "a"}]}]}
    try:
        _js.validate(mism, rooted_schema)
        try:
            model.LSPModel(**copy.deepcopy(mism))
            tab(True, "schema:Enumeration.values:value-type", "")
        except Exception as e:  # noqa
            tab(False, "schema:Enumeration.values:value-type", f"an enumeration of base type integer with a string-valued entry is schema-valid but the loader rejects it: {type(e).__name__}: {str(e)[:120]}", document=mism)
    except _js.ValidationError:
        tab(True, "schema:Enumeration.values:value-type", "")  # the schema excludes it: nothing to load
    # repeated entries: a list in the document is a list in the model - same length, same order, also when two entries are equal or
    # differ only in their documentation
    R = {"kind": "reference", "name": "A"}
    L1 = {"kind": "literal", "value": {"properties": [{"name": "p", "type": {"kind": "base", "name": "string"}, "documentation": "first"}]}}
    L2 = {"kind": "literal", "value": {"properties": [{"name": "p", "type": {"kind": "base", "name": "string"}, "documentation": "second"}]}}
    rep = {
        "metaData": {"version": "0"}, "requests": [], "notifications": [], "enumerations": [],
        "structures": [
            {"name": "A", "properties": []},
            {"name": "B", "properties": [{"name": "u", "type": {"kind": "or", "items": [R, R]}}, {"name": "v", "type": {"kind": "or", "items": [L1, L2]}}, {"name": "w", "type": {"kind": "and", "items": [R, R]}}, {"name": "t", "type": {"kind": "tuple", "items": [R, R]}}], "extends": [R, R], "mixins": [R, dict(R)]},
            {"name": "A", "properties": [], "documentation": "declared twice"},
        ],
        "typeAliases": [{"name": "T", "type": {"kind": "or", "items": [R, R, R]}}, {"name": "T", "type": {"kind": "or", "items": [R, R, R]}}],
    }
    try:
        _js.validate(rep, rooted_schema)
        rbr = read_back(model.LSPModel(**copy.deepcopy(rep)))
        try:
            same = model.LSPModel(**copy.deepcopy(rep)) == model.LSPModel(**copy.deepcopy(rep))
            tab(same, "eq:repeated-entries:reflexive", "two loads of a schema-valid document with repeated / anonymous-literal members in or / and / tuple items compare unequal", document=rep)
        except Exception as e:  # noqa
            tab(False, "eq:repeated-entries:reflexive", f"comparing two loads of a schema-valid document whose or / and / tuple items hold anonymous literals and repeated members raises {type(e).__name__}: {str(e)[:160]}", document=rep)
        tab(drop_empty_defaults(rbr) == drop_empty_defaults(rep), "load:read-back:repeated-entries", "a document with repeated (equal, or equal up to documentation) entries in or / and / tuple items, extends, mixins or a section does not read back as written", first_difference=_first_diff(drop_empty_defaults(rep), drop_empty_defaults(rbr)), document=rep)
    except _js.ValidationError as e:
        run.crash(f"repeated-entries document is not schema-valid: {str(e)[:200]}")
    except Exception as e:  # noqa
        tab(False, "load:read-back:repeated-entries", f"a schema-valid document with repeated entries does not load: {type(e).__name__}: {str(e)[:200]}", document=rep)
    T1, T2 = {"kind": "base", "name": "string"}, {"kind": "reference", "name": "Position"}
    forms = {"absent": None, "empty-list": [], "one-in-list": [T1], "single": T1, "two-in-list": [T1, T2]}

    def with_params(kind: str, form) -> Dict:
        dd = {"metaData": {"version": "0"}, "requests": [], "notifications": [], "structures": [], "enumerations": [], "typeAliases": []}
        msg = {"method": "verif/x", "messageDirection": "both"}
        if kind == "requests":
            msg["result"] = {"kind": "base", "name": "null"}
        if form is not None:
            msg["params"] = copy.deepcopy(form)
        dd[kind] = [msg]
        return dd

    for kind in ("requests", "notifications"):
        loaded = {}
        okp = True
        for fname, form in forms.items():
            dd = with_params(kind, form)
            try:
                _js.validate(dd, rooted_schema)
                loaded[fname] = model.LSPModel(**copy.deepcopy(dd))
                if drop_empty_defaults(read_back(loaded[fname])) != drop_empty_defaults(dd):
                    okp = False
                    tab(False, f"load:read-back:params-forms:{kind}", f"a {kind[:-1]} whose params is {fname} does not read back as written", first_difference=_first_diff(drop_empty_defaults(dd), drop_empty_defaults(read_back(loaded[fname]))), document=dd)
                    break
            except Exception as e:  # noqa
                okp = False
                tab(False, f"load:read-back:params-forms:{kind}", f"a schema-valid {kind[:-1]} whose params is {fname} does not load: {type(e).__name__}: {str(e)[:160]}", document=dd)
                break
        if okp:
            tab(True, f"load:read-back:params-forms:{kind}", "")
            same = [(a, b) for a in loaded for b in loaded if a < b and loaded[a] == loaded[b]]
            tab(not same, f"eq:params-forms:{kind}", f"{kind[:-1]} documents that differ in the form of params compare equal after loading: {same[:2]}", pairs=same)
    # ---- 3. equality natively over every (class, structural field) - replay oracle and bounded stand-in
    for fi, contract, label, meta in items:
        w = native_eq_replay(meta["class"], meta["structural"])
        tab(w is None, f"{label}:spec", f"{meta['class']}.__eq__ is not structural equality: {(w or {}).get('observed')}", **(w or {}))
    # ---- 4. merge = concatenation (bounded: committed model split in two / three, and tiny synthetic documents)
    def part(keys_from: Dict, lo: float, hi: float) -> Dict:
        out = {"metaData": keys_from["metaData"]}
        for k in ("requests", "notifications", "structures", "enumerations", "typeAliases"):
            n = len(keys_from[k])
            out[k] = keys_from[k][int(n * lo) : int(n * hi)]
        return out

    def expected_whole(parts: List[Dict]) -> Dict:
        whole = {"metaData": parts[0]["metaData"]}
        for k in ("requests", "notifications", "structures", "enumerations", "typeAliases"):
            whole[k] = [x for p_ in parts for x in p_[k]]
        return whole

    def concat_case(parts: List[Dict], key: str, what: str, **d):
        try:
            merged = model.create_lsp_model(copy.deepcopy(parts))
            whole = expected_whole(parts)
            got = drop_empty_defaults(read_back(merged))
            tab(got == drop_empty_defaults(whole), key, what, first_difference=_first_diff(drop_empty_defaults(whole), got), **d)
        except Exception as e:  # noqa
            tab(False, key, f"{what}: raises {type(e).__name__}: {e}", **d)

    for cuts in ([0, 0.5, 1], [0, 0.3, 0.6, 1], [0, 1, 1], [0, 0, 1], [0, 0.2, 0.4, 0.6, 0.8, 1]):
        parts = [part(doc, cuts[i], cuts[i + 1]) for i in range(len(cuts) - 1)]
        concat_case(parts, f"merge:concat:{len(parts)}", f"create_lsp_model of {len(parts)} documents is not the first extended in order by the others", cuts=cuts)
    # documents that differ in their metaData, and documents that repeat a declaration of an earlier one: still plain concatenation
    parts = [part(doc, 0, 0.5), part(doc, 0.5, 1)]
    parts[1]["metaData"] = {"version": "0.0.0-verif"}
    concat_case(parts, "merge:concat:other-metadata", "create_lsp_model of two documents with different metaData is not the first extended in order by the second")
    parts = [part(doc, 0, 0.5), part(doc, 0.4, 1)]
    concat_case(parts, "merge:concat:repeated-declarations", "create_lsp_model of two documents that repeat declarations is not the first extended in order by the second (declarations dropped, reordered or de-duplicated)")
    parts = [part(doc, 0, 1)]
    concat_case(parts, "merge:concat:1", "create_lsp_model of a single document is not that document")
    # merge as a loop-invariant proof over the real create_lsp_model; the structural (pattern) obligations are only the
    # stand-in when the function leaves the verified subset
    from contracts import merge as merge_c
    from pyvc import vc as _vc

    mworld, mrep = merge_c.report()
    merge_mode = "proof"
    if mrep is None:
        run.violation("merge:create_lsp_model:exists", "create_lsp_model missing", {}, False)
    elif mrep.unsupported:
        merge_mode = f"bounded stand-in: evaluation on splits and histories only (outside the verified subset: {mrep.unsupported})"
        stats.unsupported.append(f"{merge_c.REL}::create_lsp_model: {mrep.unsupported}")
        run.notes.append(f"create_lsp_model is outside the verified subset ({mrep.unsupported}); the evaluation on splits / tiny documents / histories stands in (bounded, not counted as proved)")
    else:
        stats.functions.append(f"{merge_c.REL}::create_lsp_model")
        stats.solver_s += _vc.solve(mworld, mrep.obligations)
        posts = [o for o in mrep.obligations if o.expect == "unsat"]
        reach = [o for o in mrep.obligations if o.kind == "reach"]
        if not posts or not any(o.answer == "sat" for o in reach):
            run.crash("create_lsp_model: no obligation / no reachable path under n >= 1 (vacuous)")
        if not any(o.kind == "loop" for o in posts):
            run.notes.append("create_lsp_model contains no loop over the documents: only the postcondition is generated")
        stats.obligations += len(posts)
        stats.reach_total += len(reach)
        stats.reach_sat += len([o for o in reach if o.answer == "sat"])
        seen_kinds = set()
        for o in posts:
            if o.answer == "unsat":
                stats.discharged += 1
                stats.by_backend[o.backend] += 1
            elif o.answer == "sat":
                kind = "loop-init" if ":loop-init#" in o.name else "loop-preserve" if ":loop-preserve#" in o.name else "post"
                if kind in seen_kinds:
                    continue
                seen_kinds.add(kind)
                stats.failed.append(o.name)
                nmod = (o.model or {}).get("n_models")
                witness = None
                for nparts in sorted({min(max(int(nmod), 1), 5) if isinstance(nmod, int) else 2, 1, 2, 3}):
                    cuts = [i / nparts for i in range(nparts + 1)]
                    parts = [part(doc, cuts[i], cuts[i + 1]) for i in range(nparts)]
                    whole = {"metaData": parts[0]["metaData"]}
                    for k in ("requests", "notifications", "structures", "enumerations", "typeAliases"):
                        whole[k] = [x for p_ in parts for x in p_[k]]
                    try:
                        got = drop_empty_defaults(read_back(model.create_lsp_model(copy.deepcopy(parts))))
                        if got != drop_empty_defaults(whole):
                            witness = {"documents": f"generator/lsp.json cut into {nparts} consecutive parts", "first_difference": _first_diff(drop_empty_defaults(whole), got)}
                    except Exception as e:  # noqa
                        witness = {"documents": f"generator/lsp.json cut into {nparts} consecutive parts", "observed": f"raises {type(e).__name__}: {e}"}
                    if witness:
                        break
                what = {
                    "loop-init": "on entry to the merge loop the accumulated model is not the first document's declarations (the invariant 'lists == concatenation of documents 0..i-1' does not hold initially)",
                    "loop-preserve": "one iteration of the merge loop does not extend each of the five declaration lists by exactly the next document's list, in order",
                    "post": "create_lsp_model does not return the first document's model with the five lists extended in order by all further documents",
                }[kind]
                run.violation(
                    f"merge:create_lsp_model:{kind}",
                    what + (f"; e.g. {witness['documents']}: {witness.get('first_difference') or witness.get('observed')}" if witness else ""),
                    {"obligation": o.name, "path": o.meta, "smt_model": {k: v for k, v in (o.model or {}).items() if not str(k).startswith("h_")}, "solver_output": o.solver_output[-1500:], **(witness or {})},
                    bool(witness),
                )
            else:
                run.undecide(f"{o.name}: {o.answer}")
        if run.tier == "thorough":
            agree, dis, dtc = _vc.cross_check(mworld, mrep.obligations, "cvc5")
            stats.solver_s += dtc
            c = stats.cross.setdefault("cvc5", {"agree": 0, "disagree": []})
            c["agree"] += agree
            c["disagree"].extend(dis)
            for d_ in dis:
                run.crash(f"solver disagreement: {d_}")
    # merging is a function of the documents: the same parsed documents merged twice give equal models and are not mutated
    try:
        parts = [part(doc, 0, 0.5), part(doc, 0.5, 1)]
        before = copy.deepcopy(parts)
        m1 = model.create_lsp_model(parts)
        m2 = model.create_lsp_model(parts)
        tab(parts == before, "merge:history:documents-mutated", "create_lsp_model mutates the documents it is given (a second load of the same parsed documents sees different input)")
        tab(drop_empty_defaults(read_back(m1)) == drop_empty_defaults(read_back(m2)), "merge:history:repeat", "merging the same parsed documents twice gives different models")
        single = model.create_lsp_model([parts[0]])
        tab(drop_empty_defaults(read_back(single)) == drop_empty_defaults(before[0]), "merge:history:single-after-merge", "loading the first document alone after a merge does not give that document")
    except Exception as e:  # noqa
        tab(False, "merge:history:raises", f"repeated merge raises {type(e).__name__}: {e}")
    # ---- 5. gate
    ng, okg, ginfo = gate_obligations(run, stats)
    # whether the schema object main() validates against constrains the document root is decided by running the command on a
    # document whose only violation is at the root (edit 'unknown top-level key' of the native gate runs below)
    tmp = gen.scratch()
    try:
        plugins = ["python", "rust", "dotnet"] + (["testdata"] if run.tier == "thorough" else [])
        gate_runs = run_gate_native(run, plugins, tmp)
        # end to end: the command given the committed model cut into consecutive files writes what it writes for the single file
        def cmd_output(models, tag):
            out = os.path.join(tmp, f"e2e-{tag}")
            os.makedirs(out)
            rc, log, dt = gen.run_plugin("python", out, models=models)
            return rc, gen.tree_digest(out), log

        rc1, one_file, _ = cmd_output([os.path.join(REPO, "generator", "lsp.json")], "one")
        # the same document in the other encodings a JSON text may have (RFC 8259 readers detect them; editors on Windows write them)
        raw = open(os.path.join(REPO, "generator", "lsp.json"), "rb").read().decode("utf-8")
        for enc, label in (("utf-8-sig", "UTF-8 with a byte-order mark"), ("utf-16", "UTF-16")):
            pth = os.path.join(tmp, f"lsp-{enc}.json")
            open(pth, "wb").write(raw.encode(enc))
            rce, outs_e, loge = cmd_output([pth], enc)
            tab(rce == 0 and outs_e == one_file, f"load:encoding:{enc}", f"the committed model saved as {label} is not processed like the plain UTF-8 file (exit {rce})" + ("" if rce == 0 else f": {loge[-160:]}"), encoding=enc)
            gate_runs += 1
        for nparts in (2, 3):
            paths = []
            for i in range(nparts):
                pth = os.path.join(tmp, f"e2e-part{nparts}-{i}.json")
                json.dump(part(doc, i / nparts, (i + 1) / nparts), open(pth, "w"))
                paths.append(pth)
            rcn, many, logn = cmd_output(paths, f"{nparts}")
            tab(rc1 == 0 and rcn == 0 and many == one_file, f"merge:main:{nparts}-files", f"`python -m generator --plugin python --model <{nparts} consecutive parts of lsp.json>` (exit {rcn}) does not write what the single-file run writes" + ("" if rcn == 0 else f": {logn[-200:]}"), parts=nparts)
            gate_runs += 1
    finally:
        shutil.rmtree(tmp, ignore_errors=True)
    run.assume(
        "field values of model objects are opaque in the VCs: `a.f == b.f` is an uninterpreted Boolean per field and pair of owners (equality of lists / nested nodes is Python's and the nested class's own contract)",
        "jsonschema.validate raises iff the document is invalid for the schema object it is given",
        "the gate: main() and the helpers it calls are executed symbolically over an abstract command line (n >= 1 model files or the packaged one); jsonschema.validate(doc_i, schema) returns iff valid(i) (uninterpreted) and raises otherwise; lists of documents are Seq-valued cells; the loop invariant over the model files is found by Houdini from {cell == documents 0..k-1, cell unchanged, allvalid(k)}; every plugin run / write event carries the obligations 'all files validated on this path' and 'create_lsp_model got all documents in order'. External calls other than the listed pure helpers make the function leave the subset (then only the native gate runs decide, labelled bounded)",
        "merge = concatenation: create_lsp_model is executed symbolically for a list of n >= 1 opaque documents with the Hoare loop rule; invariant: the lists of the object loaded from document 0 equal L_f(0) ++ ... ++ L_f(i-1); obligations loop-init, loop-preserve (arbitrary iteration) and the postcondition at exit. Assumed: LSPModel(**doc) allocates a fresh object whose five lists depend only on doc (L_f uninterpreted, sort Seq Int: one integer per declaration), list.extend / += append in place, + builds a new list, attribute cells never alias, documents are not mutated (checked natively: merge:history:documents-mutated). If the function leaves the subset the structural obligations stand in and the evidence says so",
        "lossless loading rests on the finite schema <-> model-class comparison plus attrs constructor semantics (assumed); read-back is evaluated on the committed model",
    )
    cov = stats.coverage()
    cov.update(
        {
            "obligations": stats.obligations + n_tab,
            "discharged": stats.discharged + d_tab,
            "checker_cmd": "bin/check C18",
            "trusted_base": ["z3/cvc5", "pyvc", "jsonschema", "attrs constructors/converters"],
            "eq_methods_under_contract": len(items),
            "table_obligations": n_tab,
            "gate_obligations": ng,
            "gate_decided_by": ginfo.get("mode"),
            "gate_loop_invariants": ginfo.get("loop_invariants"),
            "gate_events": ginfo.get("events"),
            "gate_native_runs": gate_runs,
            "random_schema_valid_documents": random_docs,
            "main_call_order": ginfo.get("call_order"),
            "merge_decided_by": merge_mode,
            "samples": stats.samples[:4],
        }
    )
    return run.finish(cov)


def _first_diff(a, b, path="$"):
    if type(a) is not type(b):
        return f"{path}: {type(a).__name__} vs {type(b).__name__}"
    if isinstance(a, dict):
        for k in a:
            if k not in b:
                return f"{path}.{k}: missing after read-back"
        for k in b:
            if k not in a:
                return f"{path}.{k}: appeared after read-back"
        for k in a:
            d = _first_diff(a[k], b[k], f"{path}.{k}")
            if d:
                return d
        return None
    if isinstance(a, list):
        if len(a) != len(b):
            return f"{path}: length {len(a)} vs {len(b)}"
        for i, (x, y) in enumerate(zip(a, b)):
            d = _first_diff(x, y, f"{path}[{i}]")
            if d:
                return d
        return None
    return None if a == b else f"{path}: {a!r} vs {b!r}"
