"""C17 — every generated test vector is labelled with its true metamodel validity."""
from __future__ import annotations

import concurrent.futures as cf
import hashlib
import importlib
import json
import logging
import os
import re
import sys
from typing import Any, Dict, List, Optional, Tuple

from lib.report import Run
from oracle.metamodel import INT_MAX, INT_MIN, UINT_MAX, UINT_MIN, MetaModel, is_int, method_to_class_name

REPO = os.environ.get("VERIF_REPO", "/repo")
NAME_RE = re.compile(r"^([A-Za-z_][A-Za-z0-9_]*)-(True|False)-([0-9a-f]{64})\.json$")
RESPONSE_ERROR = {
    "kind": "literal",
    "value": {"properties": [{"name": "code", "type": {"kind": "base", "name": "integer"}}, {"name": "message", "type": {"kind": "base", "name": "string"}}, {"name": "data", "type": {"kind": "reference", "name": "LSPObject"}, "optional": True}]},
}


def _setup():
    for p in (os.path.join(REPO, "packages", "python"), REPO):
        if p in sys.path:
            sys.path.remove(p)
        sys.path.insert(0, p)


def worker(args) -> Dict[str, str]:
    """Run the REAL testdata generate() on a slice of the messages (names are per message, so slices are independent)."""
    model_path, lo, hi, nlo, nhi = args
    _setup()
    model = importlib.import_module("generator.model")
    tg = importlib.import_module("generator.plugins.testdata.testdata_generator")
    doc = json.load(open(model_path, "rb"))
    spec = model.create_lsp_model([doc])
    spec.requests = list(spec.requests)[lo:hi]
    spec.notifications = list(spec.notifications)[nlo:nhi]
    lg = logging.getLogger("verif-testdata")
    lg.setLevel(logging.CRITICAL)
    try:
        return tg.generate(spec, lg)
    except Exception as e:  # noqa  (reported as a violation by the caller: the plugin does not terminate successfully)
        import traceback

        return {"__error__": f"{type(e).__name__}: {e}", "__trace__": traceback.format_exc()[-1500:], "__slice__": f"requests[{lo}:{hi}] notifications[{nlo}:{nhi}]"}


def generate_all(model_path: str, n_req: int, n_not: int, shards: int = 16) -> Dict[str, str]:
    jobs = []
    # balance: requests are the heavy part
    step = max(1, (n_req + shards - 1) // shards)
    for lo in range(0, n_req, step):
        jobs.append((model_path, lo, min(n_req, lo + step), 0, 0))
    jobs.append((model_path, 0, 0, 0, n_not))
    out: Dict[str, str] = {}
    with cf.ProcessPoolExecutor(max_workers=min(16, len(jobs))) as ex:
        for part in ex.map(worker, jobs):
            out.update(part)
    return out


class Oracle:
    def __init__(self, mm: MetaModel):
        self.mm = mm
        self.by_class: Dict[str, Tuple[str, Dict]] = {}
        for r in mm.requests:
            base = r.get("typeName") or method_to_class_name(r["method"])
            if not base.endswith("Request"):
                base += "Request"
            self.by_class[base] = ("request", r)
            self.by_class[base[: -len("Request")] + "Response"] = ("response", r)
        for n in mm.notifications:
            base = n.get("typeName") or method_to_class_name(n["method"])
            if not base.endswith("Notification"):
                base += "Notification"
            self.by_class[base] = ("notification", n)

    def valid_id(self, v) -> bool:
        return (is_int(v) and INT_MIN <= v <= INT_MAX) or isinstance(v, str)

    def valid_type(self, t: Optional[Dict], v: Any) -> bool:
        if t is None:
            return v is None
        return self.mm.valid(t, v, True, True)

    def valid_message(self, cname: str, msg: Any) -> Tuple[bool, str]:
        kind, m = self.by_class[cname]
        if not isinstance(msg, dict):
            return False, "not an object"
        if msg.get("jsonrpc") != "2.0":
            return False, "jsonrpc"
        if kind == "request":
            if not set(msg) <= {"jsonrpc", "id", "method", "params"}:
                return False, "undeclared key"
            if "id" not in msg or not self.valid_id(msg["id"]):
                return False, "id"
            if msg.get("method") != m["method"]:
                return False, "method"
            if m.get("params"):
                if "params" not in msg or not self.valid_type(m["params"], msg["params"]):
                    return False, "params"
            elif msg.get("params") is not None:
                return False, "params"
            return True, ""
        if kind == "notification":
            if not set(msg) <= {"jsonrpc", "method", "params"}:
                return False, "undeclared key"
            if msg.get("method") != m["method"]:
                return False, "method"
            if m.get("params"):
                if "params" not in msg or not self.valid_type(m["params"], msg["params"]):
                    return False, "params"
            elif msg.get("params") is not None:
                return False, "params"
            return True, ""
        # response
        if not set(msg) <= {"jsonrpc", "id", "result", "error"}:
            return False, "undeclared key"
        if "id" not in msg or not self.valid_id(msg["id"]):
            return False, "id"
        if "result" in msg:
            if not self.valid_type(m.get("result"), msg["result"]):
                return False, "result"
        if "error" in msg and not self.mm.valid(RESPONSE_ERROR, msg["error"], True, True):
            return False, "error"
        return True, ""


def check_vectors(run: Run, mm: MetaModel, data: Dict[str, str], python_accepts=None, prefix: str = "") -> Dict[str, Any]:
    orc = Oracle(mm)
    n = 0
    true_per_class: Dict[str, int] = {c: 0 for c in orc.by_class}
    mism = 0
    samples = []
    for name, content in data.items():
        n += 1
        m = NAME_RE.match(name)
        if not m:
            run.violation(f"{prefix}vector:name-shape", f"file name {name!r} is not <MessageClass>-<True|False>-<sha256>.json", {"name": name}, True)
            continue
        cname, label, digest = m.group(1), m.group(2) == "True", m.group(3)
        if hashlib.sha256(content.encode("utf-8")).hexdigest() != digest:
            run.violation(f"{prefix}vector:hash:{cname}", f"{name}: the hash in the file name is not the sha256 of the content", {"name": name}, True)
        if cname not in orc.by_class:
            run.violation(f"{prefix}vector:class:{cname}", f"{name}: {cname} is not a request / response / notification class of the metamodel", {"name": name}, True)
            continue
        try:
            msg = json.loads(content)
        except Exception as e:  # noqa
            run.violation(f"{prefix}vector:json:{cname}", f"{name}: content is not JSON ({e})", {"name": name}, True)
            continue
        ok, why = orc.valid_message(cname, msg)
        if ok != label:
            mism += 1
            if mism <= 12:
                run.violation(
                    f"{prefix}label:{cname}:{'should-be-' + str(ok)}:{why or 'valid'}",
                    f"{name}: labelled {label} but the content is {'valid' if ok else 'invalid (' + why + ')'} for {cname} under the metamodel read strictly",
                    {"file": name, "content": msg, "label": label, "oracle": ok, "reason": why, "replay": "python -m generator --plugin testdata; the vector is produced by generate_requests / generate_responses / generate_notifications of the message class"},
                    True,
                )
        if label:
            true_per_class[cname] += 1
            if python_accepts is not None:
                err = python_accepts(cname, msg)
                if err:
                    run.violation(f"{prefix}python-accepts:{cname}", f"{name}: labelled True but the Python converter rejects it: {err}", {"file": name, "content": msg}, True)
        if len(samples) < 4 and label:
            samples.append({"file": name, "label": label})
    for cname, cnt in true_per_class.items():
        if cnt == 0:
            run.violation(f"{prefix}coverage:{cname}", f"message class {cname} receives no True vector", {"class": cname}, True)
    return {"vectors": n, "mismatches": mism, "classes": len(true_per_class), "true_vectors": sum(true_per_class.values()), "samples": samples}


def envelope_variants_check(run: Run, mm: MetaModel) -> Tuple[int, int]:
    """generate_for_base and the three *_variants are constant functions: evaluate their contract exhaustively."""
    _setup()
    tg = importlib.import_module("generator.plugins.testdata.testdata_generator")
    n = ok = 0
    for bname in ("string", "integer", "uinteger", "decimal", "boolean", "null", "URI", "DocumentUri", "RegExp"):
        for valid, value in tg.generate_for_base(bname):
            n += 1
            want = mm.valid({"kind": "base", "name": bname}, value, True)
            if want == valid:
                ok += 1
            else:
                run.violation(f"label:testdata_generator.generate_for_base:{bname}:{value!r}", f"generate_for_base({bname!r}) labels {value!r} as {valid}, the metamodel says {want}", {"base": bname, "value": value}, True)
        got = [v for _, v in tg.generate_for_base(bname)]
        n += 1
        if got:
            ok += 1
        else:
            run.violation(f"label:testdata_generator.generate_for_base:{bname}:empty", f"generate_for_base({bname!r}) yields nothing", {}, True)
    orc = Oracle(mm)
    fake_req = {"method": "x/y", "params": None}
    for fn, kind in ((tg.request_variants, "request"), (tg.notify_variants, "notification")):
        for valid, base in fn("x/y"):
            n += 1
            b = dict(base)
            if kind == "request":
                want = set(b) <= {"jsonrpc", "id", "method"} and b.get("jsonrpc") == "2.0" and "id" in b and orc.valid_id(b["id"]) and b.get("method") == "x/y"
            else:
                want = set(b) <= {"jsonrpc", "method"} and b.get("jsonrpc") == "2.0" and b.get("method") == "x/y"
            if want == valid:
                ok += 1
            else:
                run.violation(f"label:testdata_generator.{fn.__name__}:{json.dumps(b, sort_keys=True)}", f"{fn.__name__} labels {b} as {valid}, the envelope rule says {want}", {"envelope": b}, True)
    for valid, base in tg.response_variants():
        n += 1
        b = dict(base)
        want = set(b) <= {"jsonrpc", "id"} and b.get("jsonrpc") == "2.0" and "id" in b and orc.valid_id(b["id"])
        if want == valid:
            ok += 1
        else:
            run.violation(f"label:testdata_generator.response_variants:{json.dumps(b, sort_keys=True)}", f"response_variants labels {b} as {valid}, the envelope rule says {want}", {"envelope": b}, True)
    return n, ok


def main(argv: List[str]) -> int:
    run = Run("C17", "other", argv)
    mm = MetaModel.load(python_customizations=False)
    mm.null_optional_ok = False
    from contracts import genhelpers as gh
    from lib.helpers_verify import verify_helper_items
    from lib.smtrun import SmtStats

    stats = SmtStats()
    w_, i_, fi_, c_, l_ = gh.items_null_contract(gh.TESTDATA_REL, "has_null_base_type")
    if fi_ is not None:
        verify_helper_items(run, stats, w_, i_, [(fi_, c_, l_)])
    n1, ok1 = envelope_variants_check(run, mm)
    model_path = os.path.join(REPO, "generator", "lsp.json")
    data = generate_all(model_path, len(mm.requests), len(mm.notifications))
    if "__error__" in data:
        run.violation(
            "testdata:generate:raises",
            f"the testdata plugin's generate() raises on the metamodel ({data['__slice__']}): {data['__error__'][:200]}",
            {"error": data["__error__"], "traceback": data["__trace__"], "slice": data["__slice__"], "replay": "python -m generator --plugin testdata --model <generator/lsp.json of the tree under check>"},
            True,
        )
        data = {k: v for k, v in data.items() if not k.startswith("__")}
    # python converter acceptance of True vectors
    from lib.pylive import Live

    try:
        live = Live()
        conv = live.converter
        py_acceptance = "evaluated"
    except Exception as e:  # noqa: the generated package of the tree under check does not import (C04 / C06 report that); labels are still decided
        live = conv = None
        py_acceptance = f"skipped: lsprotocol of the tree under check does not import ({type(e).__name__}: {str(e)[:120]})"
        print(f"NOTE property=C17 python acceptance of the True vectors {py_acceptance}")

    def accepts(cname, msg):
        if live is None:
            return None
        cls = getattr(live.types, cname, None)
        if cls is None:
            return f"no class {cname}"
        try:
            conv.structure(msg, cls)
            return None
        except Exception as e:  # noqa
            return f"{type(e).__name__}: {str(e)[:160]}"

    res = check_vectors(run, mm, data, accepts)
    if res["vectors"] == 0:
        run.crash("no vector generated")
    run.assume(
        "strict reading: declared properties only, required ones present, integer ranges, closed enumerations (CompletionItemKind closed: the metamodel, not the Python customisation), literal values, integer-or-string request id",
        "a structure or literal with no declared properties is an open object (the plugin's documented extension-point convention); LSPAny/LSPObject/LSPArray positions accept anything of the right container kind",
        "response envelope: jsonrpc, id (integer|string; null invalid), result, optional error {code:integer, message:string, data?:LSPObject} as the plugin declares it; params null or absent when the metamodel declares none",
        "the real generate() is run on slices of the message lists in parallel processes (file names are per message, so the union is the plugin's output); evaluation is complete for the committed model, not deduced",
    )
    return run.finish(
        {
            "explanation": "run-time contract check: the real generator functions are executed for the committed model and every emitted vector's label is compared with an independent strict validity oracle; file-name shape, hash, >=1 True vector per message class and Python acceptance of True vectors are checked on all vectors; the constant generator functions (generate_for_base, *_variants) are evaluated exhaustively",
            "obligations": n1 + res["vectors"] + stats.obligations,
            "discharged": ok1 + res["vectors"] - res["mismatches"] + stats.discharged,
            "smt": stats.coverage(),
            "evaluations": res["vectors"],
            "distinct_nontrivial": res["vectors"],
            "rule": "one evaluation = one emitted vector (distinct by content hash)",
            "exhaustive": True,
            "python_acceptance": py_acceptance,
            "message_classes": res["classes"],
            "true_vectors": res["true_vectors"],
            "constant_function_yields": n1,
            "samples": res["samples"],
        }
    )
