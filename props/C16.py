"""C16 — generation is a deterministic function of the model files alone."""
from __future__ import annotations

import ast
import concurrent.futures as cf
import json
import os
import shutil
import subprocess
from typing import Any, Dict, List, Optional, Tuple

from lib import gen
from lib.ordertaint import Analyzer
from lib.report import Run, VERIF

REPO = gen.REPO


def fs_frame_obligations(run: Run) -> Tuple[int, int]:
    """Owned files in the output directory = files written in this run (structural obligations on generate_from_spec)."""
    n = ok = 0

    def ob(cond, key, what, **detail):
        nonlocal n, ok
        n += 1
        if cond:
            ok += 1
        else:
            run.violation(key, what, detail, False)

    specs = [
        ("generator/plugins/dotnet/dotnet_utils.py", ".cs", True),
        ("generator/plugins/testdata/testdata_utils.py", ".json", True),
        ("generator/plugins/python/utils.py", ".py", False),
        ("generator/plugins/rust/rust_utils.py", ".rs", False),
    ]
    for rel, ext, needs_cleanup in specs:
        tree = ast.parse(open(os.path.join(REPO, rel), encoding="utf-8").read())
        g = next((f for f in tree.body if isinstance(f, ast.FunctionDef) and f.name == "generate_from_spec"), None)
        ob(g is not None, f"fsframe:{rel}:generate_from_spec", f"{rel}: generate_from_spec missing")
        if g is None:
            continue
        # order of top-level events in the body
        events = []
        for i, stmt in enumerate(g.body):
            for node in ast.walk(stmt):
                if isinstance(node, ast.Call):
                    nm = node.func.id if isinstance(node.func, ast.Name) else node.func.attr if isinstance(node.func, ast.Attribute) else ""
                    events.append((i, nm, node, stmt))
        names = [e[1] for e in events]
        writes = [e for e in events if e[1] in ("write_text", "write_bytes", "write")]
        ob(bool(writes), f"fsframe:{rel}:writes", f"{rel}: generate_from_spec writes nothing")
        # every write is unconditional w.r.t. the previous contents of the directory: no test on exists()/is_file()/stat inside the writing loop
        for i, nm, node, stmt in writes:
            guards = [ast.unparse(x.test) for x in ast.walk(stmt) if isinstance(x, ast.If) and any(node is y for y in ast.walk(x))]
            dep = [t for t in guards if any(k in t for k in ("exists", "is_file", "stat(", "getsize", "getmtime", "read_text", "read_bytes"))]
            ob(not dep, f"fsframe:{rel}:conditional-write", f"{rel}: a write is skipped depending on what is already in the output directory ({dep}): stale content survives", guards=dep)
            skips = [type(x).__name__ for x in ast.walk(stmt) if isinstance(x, ast.Continue)]
            ob(not skips, f"fsframe:{rel}:write-loop-continue", f"{rel}: the writing loop can skip entries (continue)")
        if needs_cleanup:
            cl = [e for e in events if e[1] == "cleanup"]
            ob(bool(cl), f"fsframe:{rel}:cleanup-call", f"{rel}: generate_from_spec no longer calls cleanup(): owned files of an earlier model survive")
            if cl and writes:
                ob(cl[0][0] < writes[0][0], f"fsframe:{rel}:cleanup-before-write", f"{rel}: cleanup() does not precede the writes")
                guards = [ast.unparse(x.test) for x in ast.walk(cl[0][3]) if isinstance(x, ast.If)]
                ob(not guards, f"fsframe:{rel}:cleanup-conditional", f"{rel}: cleanup() is conditional ({guards})")
            c = next((f for f in tree.body if isinstance(f, ast.FunctionDef) and f.name == "cleanup"), None)
            ob(c is not None, f"fsframe:{rel}:cleanup-def", f"{rel}: cleanup() missing")
            if c is not None:
                globs = [ast.unparse(x.args[0]) for x in ast.walk(c) if isinstance(x, ast.Call) and isinstance(x.func, ast.Attribute) and x.func.attr in ("glob", "rglob") and x.args]
                ob(any(gp.strip("'\"") == f"*{ext}" for gp in globs), f"fsframe:{rel}:cleanup-glob", f"{rel}: cleanup() does not remove every *{ext} file (patterns: {globs})")
                unl = [x for x in ast.walk(c) if isinstance(x, ast.Call) and isinstance(x.func, ast.Attribute) and x.func.attr in ("unlink", "remove")]
                ob(bool(unl), f"fsframe:{rel}:cleanup-unlink", f"{rel}: cleanup() deletes nothing")
                conds = [ast.unparse(x.test) for x in ast.walk(c) if isinstance(x, ast.If)]
                ob(not conds, f"fsframe:{rel}:cleanup-filter", f"{rel}: cleanup() keeps some owned files ({conds})")
    return n, ok


EXT_MODEL = {
    "metaData": {"version": "x"},
    "requests": [
        {"method": "verif/alpha", "typeName": "VerifAlphaRequest", "messageDirection": "clientToServer", "params": {"kind": "reference", "name": "VerifAlphaParams"}, "result": {"kind": "base", "name": "null"}},
        {"method": "verif/beta", "typeName": "VerifBetaRequest", "messageDirection": "clientToServer", "params": {"kind": "reference", "name": "VerifBetaParams"}, "result": {"kind": "base", "name": "null"}},
        {"method": "verif/gamma", "typeName": "VerifGammaRequest", "messageDirection": "both", "params": {"kind": "reference", "name": "VerifAlphaParams"}, "result": {"kind": "base", "name": "null"}},
    ],
    "notifications": [
        {"method": "verif/note1", "typeName": "VerifNote1Notification", "messageDirection": "serverToClient", "params": {"kind": "reference", "name": "VerifBetaParams"}},
        {"method": "verif/note2", "typeName": "VerifNote2Notification", "messageDirection": "serverToClient", "params": {"kind": "reference", "name": "VerifAlphaParams"}},
    ],
    "structures": [
        {"name": "VerifAlphaParams", "properties": [{"name": "a", "type": {"kind": "base", "name": "string"}}]},
        {"name": "VerifBetaParams", "properties": [{"name": "b", "type": {"kind": "reference", "name": "VerifKind"}, "optional": True}]},
        {"name": "VerifGammaThing", "properties": [{"name": "c", "type": {"kind": "base", "name": "integer"}}]},
    ],
    "enumerations": [
        {"name": "VerifKind", "type": {"kind": "base", "name": "string"}, "values": [{"name": "One", "value": "one"}, {"name": "Two", "value": "two"}]},
        {"name": "VerifLevel", "type": {"kind": "base", "name": "uinteger"}, "values": [{"name": "Low", "value": 1}, {"name": "High", "value": 2}]},
    ],
    "typeAliases": [
        {"name": "VerifAlias1", "type": {"kind": "base", "name": "string"}},
        {"name": "VerifAlias2", "type": {"kind": "reference", "name": "VerifGammaThing"}},
    ],
}


def main(argv: List[str]) -> int:
    run = Run("C16", "other", argv)
    # ------------------------------------------------------------------ static: qualifier obligations
    an = Analyzer(REPO, ["generator"])
    findings = an.run()
    nq = sum(len(v) for v in an.funcs.values())
    for f in findings:
        run.violation(f.key, f"{f.file}::{f.function}: {f.what}: `{f.expr[:120]}`", {"file": f.file, "function": f.function, "kind": f.kind, "expression": f.expr, "_pending_replay": True}, failing_input_found=False)
    # ------------------------------------------------------------------ static: FS frame
    nf, okf = fs_frame_obligations(run)
    # ------------------------------------------------------------------ bounded dynamic: hash seeds x histories x plugins
    tmp = gen.scratch()
    plugins = ["python", "rust", "dotnet"] + (["testdata"] if run.tier == "thorough" else [])
    seeds = ["0", "1", "2"] if run.tier == "quick" else ["0", "1", "2", "3", "17", "4242"]
    ext_path = os.path.join(tmp, "ext", "extension.json")
    os.makedirs(os.path.dirname(ext_path), exist_ok=True)
    json.dump(EXT_MODEL, open(ext_path, "w"))
    base_model = os.path.join(REPO, "generator", "lsp.json")
    # an evolved model that changes existing declarations (bases / mixins, same-named structures, literals, enumerations)
    from oracle import evolve as ev

    other = ev.evolve(json.load(open(base_model, "rb")), ["base-properties", "remove-optional", "redeclared-property", "extends-mixins", "literal-property", "literal-union-member", "enumerations", "nested-containers"], 11)
    for s_ in other["structures"]:
        if s_["name"] in ("WorkDoneProgressParams", "Location", "TextDocumentIdentifier", "Range"):
            s_["properties"].append({"name": "verifNote", "type": {"kind": "base", "name": "string"}, "optional": True})
    for m_ in other["requests"][3:40:4] + other["notifications"][1:20:3]:
        m_.pop("typeName", None)  # class names of these methods are derived differently in the other model
    other_model = os.path.join(tmp, "ext", "other.json")
    # a model on which every plugin fails (a reference to a structure that does not exist): "a failed run" for the in-process history
    broken = json.loads(json.dumps(other))
    broken["structures"][0]["properties"].append({"name": "verifDangling", "type": {"kind": "reference", "name": "VerifDoesNotExist"}})
    broken["structures"][0].setdefault("extends", []).append({"kind": "reference", "name": "VerifDoesNotExistEither"})
    broken_model = os.path.join(tmp, "ext", "broken.json")
    json.dump(broken, open(broken_model, "w"))
    json.dump(other, open(other_model, "w"))
    jobs = []
    for pl in plugins:
        for models, mname in ((None, "default"), ([base_model, ext_path], "two-files")):
            if pl == "testdata" and mname == "two-files":
                continue
            for sd in seeds:
                jobs.append((pl, mname, models, sd, "fresh"))
        jobs.append((pl, "default", None, "0", "rerun"))
        jobs.append((pl, "default", None, "0", "after-other-model"))
        jobs.append((pl, "default", None, "0", "stale-files"))
        jobs.append((pl, "default", None, "0", "stale-crlf"))
        jobs.append((pl, "default", None, "0", "ascii-locale"))
        jobs.append((pl, "default", None, "0", "in-process-after-other-model"))
        jobs.append((pl, "default", None, "0", "in-process-after-failed-run"))

    # the testdata plugin on the first 10 requests / notifications only (whole-model runs are in the thorough tier)
    jobs.append(("testdata", "sliced", None, "0", "sliced-fresh"))
    jobs.append(("testdata", "sliced", None, "0", "in-process-after-other-model"))

    def one(job):
        pl, mname, models, sd, hist = job
        out = os.path.join(tmp, f"{pl}-{mname}-{sd}-{hist}")
        os.makedirs(out, exist_ok=True)
        logs = []
        if hist in ("in-process-after-other-model", "in-process-after-failed-run", "sliced-fresh"):
            # one interpreter generates an evolved model and then the committed one: the second output must be the fresh-process one
            env = dict(os.environ, VERIF_REPO=REPO, PYTHONPATH=REPO, PYTHONHASHSEED=sd, PYTHONDONTWRITEBYTECODE="1")
            if mname == "sliced":
                env["VERIF_SLICE"] = "10"
            out_a = out + "-A"
            p = subprocess.run([gen.PY, os.path.join(VERIF, "tools", "c16_inproc.py"), pl, "-" if hist == "sliced-fresh" else broken_model if hist == "in-process-after-failed-run" else other_model, out_a, base_model, out], cwd=REPO, env=env, capture_output=True, text=True, timeout=900)
            shutil.rmtree(out_a, ignore_errors=True)
            dig = gen.tree_digest(out)
            owned_pat = {"python": lambda p_: p_.endswith("types.py"), "rust": lambda p_: p_.endswith("lib.rs"), "dotnet": lambda p_: p_.endswith(".cs"), "testdata": lambda p_: p_.endswith(".json")}[pl]
            dig = {k: v for k, v in dig.items() if owned_pat(k)}
            shutil.rmtree(out, ignore_errors=True)
            return job, p.returncode, dig, (p.stdout + p.stderr)[-600:]
        if hist == "rerun":
            rc, log, _ = gen.run_plugin(pl, out, models=models, hashseed="5")
            logs.append(rc)
        elif hist == "after-other-model":
            rc, log, _ = gen.run_plugin(pl, out, models=[base_model, ext_path], hashseed="3")
            logs.append(rc)
        elif hist == "stale-crlf":
            # the right text with the wrong line endings (a checkout with autocrlf, then regenerated): the files must be rewritten
            rc, log, _ = gen.run_plugin(pl, out, models=models, hashseed="0")
            logs.append(rc)
            for p_ in gen.tree_digest(out):
                fp = os.path.join(out, p_)
                try:
                    data = open(fp, "rb").read()
                except OSError:
                    continue
                if b"\r" not in data and b"\n" in data:
                    open(fp, "wb").write(data.replace(b"\n", b"\r\n"))
        elif hist == "stale-files":
            # a first run tells us where the plugin writes; then plant stale files of every owned kind
            rc, log, _ = gen.run_plugin(pl, out, models=models, hashseed="0")
            logs.append(rc)
            owned = [p for p in gen.tree_digest(out)]
            exts = {os.path.splitext(p)[1] for p in owned}
            dirs = {os.path.dirname(p) for p in owned}
            for d in dirs:
                for e in exts:
                    open(os.path.join(out, d, f"ZzzVerifStale{e}"), "w").write("// stale\n")
            # an owned name with different (truncated) content
            for p in sorted(owned)[:3]:
                open(os.path.join(out, p), "w").write("")
        rc, log, dt = gen.run_plugin(pl, out, models=models, hashseed=sd, ascii_locale=hist == "ascii-locale")
        dig = gen.tree_digest(out)
        # files the plugin owns: one fixed name for python / rust, every *.cs / *.json for dotnet / testdata
        owned_pat = {"python": lambda p: p.endswith("types.py"), "rust": lambda p: p.endswith("lib.rs"), "dotnet": lambda p: p.endswith(".cs"), "testdata": lambda p: p.endswith(".json")}[pl]
        dig = {k: v for k, v in dig.items() if owned_pat(k)}
        shutil.rmtree(out, ignore_errors=True)
        return job, rc, dig, log[-600:]

    try:
        with cf.ThreadPoolExecutor(max_workers=10 if run.tier == "quick" else 6) as ex:
            results = list(ex.map(one, jobs))
    finally:
        shutil.rmtree(tmp, ignore_errors=True)
    ref: Dict[Tuple[str, str], Dict[str, str]] = {}
    for (pl, mname, models, sd, hist), rc, dig, log in results:
        if (hist == "fresh" and sd == seeds[0]) or hist == "sliced-fresh":
            ref[(pl, mname)] = dig
    dyn = 0
    dyn_findings: List[str] = []
    for (pl, mname, models, sd, hist), rc, dig, log in results:
        dyn += 1
        if rc != 0 and hist == "ascii-locale":
            run.violation(f"determinism:{pl}:ascii-locale:{mname}", f"{pl} plugin fails (exit {rc}) in a process whose default text encoding is ASCII (LC_ALL=C, PYTHONUTF8=0), while it succeeds under UTF-8: {log.strip().splitlines()[-1][:200] if log.strip() else ''}", {"plugin": pl, "history": hist, "environment": gen.ASCII_LOCALE_ENV, "log": log[-600:], "replay": f"LC_ALL=C PYTHONUTF8=0 PYTHONCOERCECLOCALE=0 python -m generator --plugin {pl} --output-dir <scratch>"}, True)
            continue
        if rc != 0:
            run.crash(f"plugin {pl} exits {rc} ({mname}, seed {sd}, {hist}): {log[-200:]}")
            continue
        r = ref.get((pl, mname))
        if r is None or dig == r:
            continue
        diff = sorted(set(dig) ^ set(r)) or sorted(k for k in dig if dig[k] != r.get(k))
        which = "hash seed" if hist == "fresh" else hist
        key = f"determinism:{pl}:{'seed' if hist == 'fresh' else hist}:{mname}"
        dyn_findings.append(key)
        run.violation(
            key,
            f"{pl} plugin output differs with {which} ({mname} model, PYTHONHASHSEED={sd}, history={hist}): {len(diff)} files differ, e.g. {diff[:3]}",
            {"plugin": pl, "models": mname, "hashseed": sd, "history": hist, "differing_files": diff[:10], "replay": f"PYTHONHASHSEED={sd} python -m generator --plugin {pl} ... ; compare sha256 of the output tree with the PYTHONHASHSEED={seeds[0]} fresh-directory run"},
            True,
        )
    run.assume(
        "the qualifier system is conservative: set displays/calls, set algebra on dict views, glob/listdir results are Unordered; id_/uuid values are Opaque; sorted/len/min/max/any/all/membership are order-insensitive consumers; per-element file operations on element-derived targets are order-insensitive; dict iteration is insertion-ordered",
        "hash seeds and histories are explored only on the stated finite set (bounded): 3 (quick) / 6 (thorough) seeds x {fresh, re-run, after a different model, planted stale files, owned files with CRLF line endings, a process whose default text encoding is ASCII, in the same interpreter after an evolved model, in the same interpreter after a failed run} x {committed model, committed model + extension file}",
        "the FS frame is a structural obligation on generate_from_spec/cleanup (cleanup before writes, unconditional, glob covers the owned extension, writes independent of prior directory contents)",
    )
    static_ob = nq + nf
    static_ok = (nq - len(findings)) + okf
    return run.finish(
        {
            "explanation": "static sufficient condition (order/identity qualifiers on every function of the generator; FS-frame obligations on the plugins' entry points) plus a bounded cross-check: plugins re-run under several hash seeds and directory histories and byte-compared",
            "obligations": static_ob,
            "discharged": static_ok,
            "functions_analysed": nq,
            "qualifier_findings": [f.key for f in findings],
            "fs_frame_obligations": nf,
            "evaluations": dyn,
            "distinct_nontrivial": len({(j[0][0], j[0][1], j[0][3], j[0][4]) for j in results}),
            "rule": "one evaluation = one plugin run (or sequence of runs for a history) whose output tree digest is compared with the seed-0 fresh-directory reference",
            "samples": [{"plugin": j[0][0], "models": j[0][1], "seed": j[0][3], "history": j[0][4], "files": len(j[2])} for j in results[:6]],
        }
    )
