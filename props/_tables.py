"""Shared reporting of table failures with native replays."""
from __future__ import annotations

from typing import Any, Dict, Iterable, List, Optional

from lib.report import Run
from lib.tables import Failure, TableResult
from oracle.metamodel import MetaModel


def report(run: Run, res: TableResult, facets: Iterable[str], live=None, mm: Optional[MetaModel] = None, replay=None):
    fs = set(facets)
    for f in res.failures:
        if f.facet not in fs:
            continue
        detail = dict(f.detail)
        detail["facet"] = f.facet
        found = True
        if replay is not None:
            try:
                extra = replay(f)
                if extra:
                    detail.update(extra)
            except Exception as e:  # noqa
                detail["replay_error"] = repr(e)
        run.violation(f.key, f.what, detail, failing_input_found=found)
    return res.count(fs)
