"""C05 — committed packages are exactly what the generator emits for the committed model."""
from __future__ import annotations

import ast
import os
import re
import shutil
import subprocess
from typing import Any, Dict, List, Tuple

from lib import gen
from lib.report import Run

TYPES = "packages/python/lsprotocol/types.py"
LIBRS = "packages/rust/lsprotocol/src/lib.rs"
CARGO = "packages/rust/lsprotocol/Cargo.toml"


def norm_doc(s: str) -> str:
    return "\n".join(line.rstrip() for line in s.strip().splitlines())


class DocNorm(ast.NodeTransformer):
    """Normalise the whitespace of docstring-position string constants (what the formatter touches)."""

    def visit_Expr(self, node: ast.Expr):
        if isinstance(node.value, ast.Constant) and isinstance(node.value.value, str):
            return ast.Expr(value=ast.Constant(value=norm_doc(node.value.value)))
        return self.generic_visit(node)


def stmts(src: str) -> List[Tuple[str, str]]:
    tree = DocNorm().visit(ast.parse(src))
    out = []
    for node in tree.body:
        name = getattr(node, "name", None)
        if name is None and isinstance(node, (ast.Assign, ast.AnnAssign)):
            t = node.targets[0] if isinstance(node, ast.Assign) else node.target
            name = getattr(t, "id", None)
        out.append((name or type(node).__name__, ast.dump(node, include_attributes=False)))
    return out


def rust_items(src: str) -> List[str]:
    """Split formatted Rust source into top-level items (blank-line separated blocks at column 0)."""
    items, cur = [], []
    for line in src.splitlines():
        if line.strip() == "" and cur and (cur[-1].startswith("}") or cur[-1].endswith(";")):
            items.append("\n".join(cur))
            cur = []
        elif line.strip() != "" or cur:
            cur.append(line)
    if cur:
        items.append("\n".join(cur))
    return items


def main(argv: List[str]) -> int:
    run = Run("C05", "translation_validation", argv)
    REPO = gen.REPO
    tmp = gen.scratch()
    samples: List[Any] = []
    disagreements = 0
    programs = 0
    try:
        # ------------------------------------------------------------------ python
        rc, out, dt = gen.run_plugin("python", os.path.join(tmp, "py"))
        if rc != 0:
            run.violation("regen:python:plugin-exit", f"python plugin exits {rc} on the committed model", {"output": out}, True)
        else:
            gen_src = open(os.path.join(tmp, "py", "lsprotocol", "types.py"), encoding="utf-8").read()
            com_src = open(os.path.join(REPO, TYPES), encoding="utf-8").read()
            g, c = stmts(gen_src), stmts(com_src)
            programs += 1
            samples.append({"python": {"generated_statements": len(g), "committed_statements": len(c), "first": g[0][0] if g else None}})
            for i in range(max(len(g), len(c))):
                disagreements += 1
                gi = g[i] if i < len(g) else (None, None)
                ci = c[i] if i < len(c) else (None, None)
                if gi[1] != ci[1]:
                    which = "only the committed file has it" if gi[1] is None else "only the generator emits it" if ci[1] is None else "they differ"
                    run.violation(
                        f"regen:python:stmt:{ci[0] or gi[0]}",
                        f"types.py statement #{i} ({ci[0]} committed / {gi[0]} generated): {which}",
                        {"index": i, "committed": (ci[1] or "")[:1500], "generated": (gi[1] or "")[:1500], "counts": [len(c), len(g)], "replay": "python -m generator --plugin python --output-dir <scratch>; compare ast.dump of top-level statements after docstring whitespace normalisation"},
                        True,
                    )
                    break
        # ------------------------------------------------------------------ rust
        rc, out, dt = gen.run_plugin("rust", os.path.join(tmp, "rs"))
        if rc != 0:
            run.violation("regen:rust:plugin-exit", f"rust plugin exits {rc} on the committed model", {"output": out}, True)
        else:
            gen_path = os.path.join(tmp, "rs", "lsprotocol", "src", "lib.rs")
            edition = "2021"
            try:
                m = re.search(r'^edition\s*=\s*"(\d+)"', open(os.path.join(REPO, CARGO)).read(), re.M)
                if m:
                    edition = m.group(1)
            except OSError:
                pass
            fm = subprocess.run([gen.RUSTFMT, "--edition", edition, gen_path], capture_output=True, text=True)
            if fm.returncode != 0:
                run.violation("regen:rust:rustfmt", f"rustfmt rejects the generated lib.rs: {fm.stderr[:300]}", {"stderr": fm.stderr[-2000:]}, True)
            else:
                gsrc = open(gen_path, encoding="utf-8").read()
                csrc = open(os.path.join(REPO, LIBRS), encoding="utf-8").read()
                programs += 1
                gi, ci = rust_items(gsrc), rust_items(csrc)
                samples.append({"rust": {"generated_items": len(gi), "committed_items": len(ci), "bytes": [len(gsrc), len(csrc)]}})
                disagreements += max(len(gi), len(ci))
                if gsrc != csrc:
                    k = next((i for i in range(max(len(gi), len(ci))) if i >= len(gi) or i >= len(ci) or gi[i] != ci[i]), None)
                    a = ci[k] if k is not None and k < len(ci) else ""
                    b = gi[k] if k is not None and k < len(gi) else ""
                    head = (a or b).strip().splitlines()[:1]
                    ident = re.search(r"(struct|enum|type|impl|fn|mod|const|trait)\s+([A-Za-z0-9_<> ]+)", a or b)
                    run.violation(
                        f"regen:rust:item:{ident.group(0).strip() if ident else k}",
                        f"lib.rs differs from the generator's output after rustfmt at item #{k}",
                        {"index": k, "committed": a[:1500], "generated": b[:1500], "counts": [len(ci), len(gi)], "replay": "python -m generator --plugin rust; rustfmt --edition <Cargo.toml>; byte compare"},
                        True,
                    )
    finally:
        shutil.rmtree(tmp, ignore_errors=True)
    if programs == 0 and not run.violations:
        run.crash("nothing compared")
    run.assume("rustfmt 1.9 is the formatter pass of the build for Rust; for Python the formatter changes docstring whitespace only (ast equality otherwise)", "the plugins are run as `python -m generator` from the current working tree with PYTHONPATH=/repo")
    return run.finish(
        {
            "programs": max(programs, 1),
            "disagreements_checked": disagreements,
            "samples": samples or [{"note": "comparison did not run"}],
            "exhaustive": True,
            "explanation": "run-time evaluation of the postcondition 'output == committed file (mod formatter)' on the single configuration the property quantifies over",
        }
    )
