"""C05 — committed packages are exactly what the generator emits for the committed model."""
from __future__ import annotations

import ast
import os
import re
import shutil
import subprocess
from typing import Any, Dict, List, Tuple

from lib import gen
from lib.report import Run

TYPES = "packages/python/lsprotocol/types.py"
LIBRS = "packages/rust/lsprotocol/src/lib.rs"
CARGO = "packages/rust/lsprotocol/Cargo.toml"


def norm_doc(s: str) -> str:
    return "\n".join(line.rstrip() for line in s.strip().splitlines())


class DocNorm(ast.NodeTransformer):
    """Normalise the whitespace of docstring-position string constants (what the formatter touches)."""

    def visit_Expr(self, node: ast.Expr):
        if isinstance(node.value, ast.Constant) and isinstance(node.value.value, str):
            return ast.Expr(value=ast.Constant(value=norm_doc(node.value.value)))
        return self.generic_visit(node)


def stmts(src: str) -> List[Tuple[str, str]]:
    tree = DocNorm().visit(ast.parse(src))
    out = []
    for node in tree.body:
        name = getattr(node, "name", None)
        if name is None and isinstance(node, (ast.Assign, ast.AnnAssign)):
            t = node.targets[0] if isinstance(node, ast.Assign) else node.target
            name = getattr(t, "id", None)
        out.append((name or type(node).__name__, ast.dump(node, include_attributes=False)))
    return out


def rust_items(src: str) -> List[str]:
    """Split formatted Rust source into top-level items (blank-line separated blocks at column 0)."""
    items, cur = [], []
    for line in src.splitlines():
        if line.strip() == "" and cur and (cur[-1].startswith("}") or cur[-1].endswith(";")):
            items.append("\n".join(cur))
            cur = []
        elif line.strip() != "" or cur:
            cur.append(line)
    if cur:
        items.append("\n".join(cur))
    return items


def build_commands(repo: str) -> Tuple[List[List[str]], str]:
    """The generator invocations of the documented build path: every `session.run("python", "-m", "generator", ...)` with constant
    arguments in noxfile.py's build_lsp session and the functions it (transitively) calls, in call order."""
    path = os.path.join(repo, "noxfile.py")
    try:
        tree = ast.parse(open(path, encoding="utf-8").read())
    except (OSError, SyntaxError) as e:
        return [], f"noxfile.py unreadable ({e})"
    funcs = {n.name: n for n in tree.body if isinstance(n, ast.FunctionDef)}
    if "build_lsp" not in funcs:
        return [], "noxfile.py has no build_lsp session"
    cmds: List[List[str]] = []
    seen = set()

    # ast.walk is breadth-first: order calls by source position instead
    def ordered(fn):
        calls = sorted((n for n in ast.walk(fn) if isinstance(n, ast.Call)), key=lambda n: (n.lineno, n.col_offset))
        return calls

    def visit2(fn):
        if fn.name in seen:
            return
        seen.add(fn.name)
        for node in ordered(fn):
            f = node.func
            if isinstance(f, ast.Name) and f.id in funcs:
                visit2(funcs[f.id])
            elif isinstance(f, ast.Attribute) and f.attr == "run" and node.args and all(isinstance(a, ast.Constant) and isinstance(a.value, str) for a in node.args):
                args = [a.value for a in node.args]
                if args[:3] == ["python", "-m", "generator"]:
                    cmds.append(args[3:])

    visit2(funcs["build_lsp"])
    return cmds, "noxfile.py: build_lsp -> " + ", ".join(sorted(seen - {"build_lsp"}))


def plugins_of(args: List[str]) -> List[str]:
    out = []
    if "--plugin" in args:
        for a in args[args.index("--plugin") + 1 :]:
            if a.startswith("-"):
                break
            out.append(a)
    return out


def run_build_command(args: List[str], out_dir: str, repo: str, hashseed: str = "0", optimise: bool = False, ascii_locale: bool = False) -> Tuple[int, str]:
    """Run one build-path invocation with its output redirected to out_dir (the only change made to the command)."""
    clean = []
    skip = False
    for a in args:
        if skip:
            skip = False
            continue
        if a in ("--output-dir", "-o", "--test-dir", "-t"):
            skip = True
            continue
        clean.append(a)
    td = os.path.join(out_dir, "__tests__")
    os.makedirs(td, exist_ok=True)
    pls = plugins_of(clean)
    if len(pls) == 1 and os.path.isdir(os.path.join(repo, "tests", pls[0])) and not os.listdir(td):
        # the build's default --test-dir is <repo>/tests/<plugin>: reproduce it with a scratch copy (the rust plugin rewrites tests/rust/src/main.rs)
        shutil.copytree(os.path.join(repo, "tests", pls[0]), td, dirs_exist_ok=True, ignore=shutil.ignore_patterns("target", "__pycache__", "*.pyc"))
    env = dict(os.environ, PYTHONPATH=repo, PYTHONDONTWRITEBYTECODE="1", PYTHONHASHSEED=hashseed)
    if optimise:
        env["PYTHONOPTIMIZE"] = "1"
    if ascii_locale:
        env.update(gen.ASCII_LOCALE_ENV)
    try:
        p = subprocess.run([gen.PY, "-m", "generator"] + clean + ["--output-dir", out_dir, "--test-dir", td], cwd=repo, env=env, capture_output=True, text=True, timeout=900)
        return p.returncode, (p.stdout + p.stderr)[-3000:]
    except subprocess.TimeoutExpired:
        return 124, "timeout"


def find_file(root: str, tail: str) -> str:
    hits = []
    for dp, dn, fn in os.walk(root):
        for f in fn:
            pth = os.path.join(dp, f)
            if pth.replace(os.sep, "/").endswith(tail):
                hits.append(pth)
    return sorted(hits, key=len)[0] if hits else ""


def main(argv: List[str]) -> int:
    run = Run("C05", "translation_validation", argv)
    REPO = gen.REPO
    tmp = gen.scratch()
    cmds, how = build_commands(REPO)
    if not any("python" in plugins_of(c) for c in cmds) or not any("rust" in plugins_of(c) for c in cmds):
        run.notes.append(f"no python / rust generator invocation found on the build path ({how}); falling back to `--plugin python` and `--plugin rust`")
        cmds = [["--plugin", "python"], ["--plugin", "rust"]]
        how = "fallback"
    outs: Dict[str, Tuple[int, str, str]] = {}
    for ci, c in enumerate(cmds):
        pl = plugins_of(c)
        if not ({"python", "rust"} & set(pl)):
            continue
        od = os.path.join(tmp, f"cmd{ci}")
        rc_, log_ = run_build_command(c, od, REPO)
        for p_ in pl:
            if p_ in ("python", "rust") and p_ not in outs:
                outs[p_] = (rc_, log_, od)
    # the build does not fix the string-hash seed: the generated files must not depend on it (same bytes under seeds 0..3)
    seed_runs = 0
    for ci, c in enumerate(cmds):
        pl = plugins_of(c)
        if not ({"python", "rust"} & set(pl)):
            continue
        ref_files = {t: find_file(os.path.join(tmp, f"cmd{ci}"), t) for t in ("lsprotocol/types.py", "lsprotocol/src/lib.rs")}
        for sd in ("1", "2", "3", "O", "L"):
            od = os.path.join(tmp, f"cmd{ci}-seed{sd}")
            # "O": the same command with PYTHONOPTIMIZE=1 (assert statements compiled away) under hash seed 0
            # "L": the same command in a process whose default text encoding is ASCII (C locale, UTF-8 mode off) under hash seed 0
            rc_, log_ = run_build_command(c, od, REPO, hashseed="0" if sd in ("O", "L") else sd, optimise=sd == "O", ascii_locale=sd == "L")
            if rc_ != 0 and sd in ("O", "L"):
                run.violation(f"regen:cmd{ci}:{'python-O' if sd == 'O' else 'ascii-locale'}:exit", f"`python -m generator {' '.join(c)}` fails (exit {rc_}) " + ("under PYTHONOPTIMIZE=1" if sd == "O" else "in a process whose default text encoding is ASCII (LC_ALL=C, PYTHONUTF8=0)") + f": {log_.strip().splitlines()[-1][:200] if log_.strip() else ''}", {"command": c, "exit": rc_, "log": log_[-1200:], "environment": "PYTHONOPTIMIZE=1" if sd == "O" else gen.ASCII_LOCALE_ENV}, True)
            seed_runs += 1
            for tail, ref in ref_files.items():
                other = find_file(od, tail)
                if ref and other and open(ref, "rb").read() != open(other, "rb").read():
                    import difflib

                    a_, b_ = open(ref, encoding="utf-8").read().splitlines(), open(other, encoding="utf-8").read().splitlines()
                    first = next((l for l in difflib.unified_diff(a_, b_, "PYTHONHASHSEED=0", f"PYTHONHASHSEED={sd}", n=0, lineterm="") if l[:1] in "+-" and l[:3] not in ("+++", "---")), "")
                    if sd == "O":
                        run.violation(f"regen:{tail.split('/')[-1]}:python-O", f"`python -O -m generator {' '.join(c)}` writes a different {tail} than without -O (first difference: {first[:160]})", {"command": c, "first_difference": first, "replay": f"PYTHONOPTIMIZE=1 python -m generator {' '.join(c)} --output-dir <scratch>; cmp with the normal output"}, True)
                        continue
                    if sd == "L":
                        run.violation(f"regen:{tail.split('/')[-1]}:ascii-locale", f"`python -m generator {' '.join(c)}` writes a different {tail} in a process whose default text encoding is ASCII (first difference: {first[:160]})", {"command": c, "first_difference": first, "environment": gen.ASCII_LOCALE_ENV, "replay": f"LC_ALL=C PYTHONUTF8=0 PYTHONCOERCECLOCALE=0 python -m generator {' '.join(c)} --output-dir <scratch>; cmp with the normal output"}, True)
                        continue
                    run.violation(f"regen:{tail.split('/')[-1]}:hash-seed", f"`python -m generator {' '.join(c)}` writes a different {tail} under PYTHONHASHSEED={sd} than under 0 (first difference: {first[:160]}): the committed file cannot be 'what the generator emits'", {"command": c, "seeds": ["0", sd], "first_difference": first, "replay": f"PYTHONHASHSEED={sd} python -m generator {' '.join(c)} --output-dir <scratch>; cmp with the PYTHONHASHSEED=0 output"}, True)
            shutil.rmtree(od, ignore_errors=True)
    samples: List[Any] = []
    disagreements = 0
    programs = 0
    try:
        # ------------------------------------------------------------------ python
        rc, out, pyroot = outs["python"]
        gen_types = find_file(pyroot, "lsprotocol/types.py") if rc == 0 else ""
        if rc != 0 or not gen_types:
            run.violation("regen:python:plugin-exit", f"the build path's python generator command exits {rc}" + ("" if rc else " without writing lsprotocol/types.py") + " on the committed model", {"output": out, "commands": cmds}, True)
        else:
            gen_src = open(gen_types, encoding="utf-8").read()
            com_src = open(os.path.join(REPO, TYPES), encoding="utf-8").read()
            g, c = stmts(gen_src), stmts(com_src)
            programs += 1
            samples.append({"python": {"generated_statements": len(g), "committed_statements": len(c), "first": g[0][0] if g else None}})
            for i in range(max(len(g), len(c))):
                disagreements += 1
                gi = g[i] if i < len(g) else (None, None)
                ci = c[i] if i < len(c) else (None, None)
                if gi[1] != ci[1]:
                    which = "only the committed file has it" if gi[1] is None else "only the generator emits it" if ci[1] is None else "they differ"
                    run.violation(
                        f"regen:python:stmt:{ci[0] or gi[0]}",
                        f"types.py statement #{i} ({ci[0]} committed / {gi[0]} generated): {which}",
                        {"index": i, "committed": (ci[1] or "")[:1500], "generated": (gi[1] or "")[:1500], "counts": [len(c), len(g)], "replay": "the build path's python generator command (see build_commands in the evidence) with --output-dir <scratch>; compare ast.dump of top-level statements after docstring whitespace normalisation"},
                        True,
                    )
                    break
        # ------------------------------------------------------------------ rust
        rc, out, rsroot = outs["rust"]
        gen_path = find_file(rsroot, "lsprotocol/src/lib.rs") if rc == 0 else ""
        if rc != 0 or not gen_path:
            run.violation("regen:rust:plugin-exit", f"the build path's rust generator command exits {rc}" + ("" if rc else " without writing lsprotocol/src/lib.rs") + " on the committed model", {"output": out, "commands": cmds}, True)
        else:
            edition = "2021"
            try:
                m = re.search(r'^edition\s*=\s*"(\d+)"', open(os.path.join(REPO, CARGO)).read(), re.M)
                if m:
                    edition = m.group(1)
            except OSError:
                pass
            fm = subprocess.run([gen.RUSTFMT, "--edition", edition, gen_path], capture_output=True, text=True)
            if fm.returncode != 0:
                run.violation("regen:rust:rustfmt", f"rustfmt rejects the generated lib.rs: {fm.stderr[:300]}", {"stderr": fm.stderr[-2000:]}, True)
            else:
                gsrc = open(gen_path, encoding="utf-8").read()
                csrc = open(os.path.join(REPO, LIBRS), encoding="utf-8").read()
                programs += 1
                gi, ci = rust_items(gsrc), rust_items(csrc)
                samples.append({"rust": {"generated_items": len(gi), "committed_items": len(ci), "bytes": [len(gsrc), len(csrc)]}})
                disagreements += max(len(gi), len(ci))
                if gsrc != csrc:
                    k = next((i for i in range(max(len(gi), len(ci))) if i >= len(gi) or i >= len(ci) or gi[i] != ci[i]), None)
                    a = ci[k] if k is not None and k < len(ci) else ""
                    b = gi[k] if k is not None and k < len(gi) else ""
                    head = (a or b).strip().splitlines()[:1]
                    ident = re.search(r"(struct|enum|type|impl|fn|mod|const|trait)\s+([A-Za-z0-9_<> ]+)", a or b)
                    run.violation(
                        f"regen:rust:item:{ident.group(0).strip() if ident else k}",
                        f"lib.rs differs from the generator's output after rustfmt at item #{k}",
                        {"index": k, "committed": a[:1500], "generated": b[:1500], "counts": [len(ci), len(gi)], "replay": "the build path's rust generator command (see build_commands in the evidence); rustfmt --edition <Cargo.toml>; byte compare"},
                        True,
                    )
    finally:
        shutil.rmtree(tmp, ignore_errors=True)
    if programs == 0 and not run.violations:
        run.crash("nothing compared")
    run.assume("rustfmt 1.9 is the formatter pass of the build for Rust; for Python the formatter changes docstring whitespace only (ast equality otherwise)", "the generator commands are the `python -m generator ...` invocations of noxfile.py's build_lsp session and its callees, taken from the noxfile's AST on every run (the only change: --output-dir / --test-dir point at scratch directories); run from the current working tree with PYTHONPATH=<tree>")
    return run.finish(
        {
            "programs": max(programs, 1),
            "disagreements_checked": disagreements,
            "samples": samples or [{"note": "comparison did not run"}],
            "exhaustive": True,
            "build_commands": [" ".join(["python", "-m", "generator"] + c) for c in cmds],
            "build_commands_from": how,
            "hash_seed_runs": seed_runs,
            "explanation": "run-time evaluation of the postcondition 'output == committed file (mod formatter)' on the single configuration the property quantifies over",
        }
    )
