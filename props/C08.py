"""C08 — .NET classes declare the metamodel's wire schema and message metadata."""
from __future__ import annotations

import os
import shutil
from typing import Any, Dict, List

from contracts import genhelpers as gh
from lib import gen
from lib.report import Run
from lib.smtrun import SmtStats, verify
from oracle.cscheck import CsCheck
from oracle.metamodel import MetaModel


def _verify_generate_property(run: Run, stats: SmtStats) -> None:
    """dotnet generate_property under its relational contract (nullable / null-ignoring / DataMember decisions, all property definitions)."""
    from contracts import dotnet_property as dp
    from lib.helpers_verify import verify_member_contract

    verify_member_contract(
        run,
        stats,
        dp,
        "dotnet generate_property no longer emits a member that is nullable exactly when optional or null-admitting, null-ignoring exactly when optional and not null-admitting, and named by the metamodel property",
        "the member facets of the item table (committed model) and the evolved models of C06 stand in",
    )


def main(argv: List[str]) -> int:
    run = Run("C08", "other", argv)
    mm = MetaModel.load(python_customizations=False)
    stats = SmtStats()
    world, interp, fi, c = gh.build_mapping(gh.DOTNET_REL, "lsp_to_base_types", gh.DOTNET_BASE)
    if fi is None:
        run.undecide("dotnet_classes.lsp_to_base_types not found")
    else:
        def on_fail(o):
            m = o.model or {}
            nm = next((v for k, v in m.items() if k.endswith(".name.s")), None)
            return True, {"key": f"{gh.DOTNET_REL}::lsp_to_base_types:post", "what": f"dotnet lsp_to_base_types maps base type {nm!r} differently from the documented mapping ({gh.DOTNET_BASE.get(nm)!r}) or raises", "base_type": nm}
        verify(run, stats, world, interp, fi, c, f"{gh.DOTNET_REL}::lsp_to_base_types", on_fail, lambda msg: run.notes.append(f"lsp_to_base_types outside the verified subset ({msg}); the item-level comparison of every emitted type stands in"))
    from lib.helpers_verify import verify_helper_items

    w_, i_, fi_, c_, l_ = gh.items_null_contract(gh.DOTNET_REL, "has_null_base_type")
    if fi_ is not None:
        verify_helper_items(run, stats, w_, i_, [(fi_, c_, l_)])
    from lib.helpers_verify import verify_report

    wx, repx = gh.dotnet_extras_item()
    verify_report(run, stats, wx, repx, f"{gh.DOTNET_HELPERS_REL}::generate_extras", "dotnet generate_extras emits a line that is no [Obsolete( / [Since( / [Direction( / [Proposed] attribute, or [Proposed] not exactly for proposed elements")
    _verify_generate_property(run, stats)
    tmp = gen.scratch()
    n = fails = 0
    files = 0
    try:
        rc, out, dt = gen.run_plugin("dotnet", tmp)
        if rc != 0:
            run.violation("dotnet:plugin-exit", f"dotnet plugin exits {rc} on the committed model", {"output": out}, True)
        else:
            d = next((os.path.join(tmp, x) for x in os.listdir(tmp) if os.path.isdir(os.path.join(tmp, x)) and x != "__tests__"), tmp)
            chk = CsCheck(mm, d)
            files = len(chk.files)
            fs = chk.run()
            n = chk.n
            for key, what, detail in fs:
                fails += 1
                detail = dict(detail)
                detail["replay"] = "python -m generator --plugin dotnet --output-dir <scratch>; inspect the named .cs file"
                run.violation(key, what, detail, True)
    finally:
        shutil.rmtree(tmp, ignore_errors=True)
    if n == 0 and not run.violations:
        run.crash("no .cs obligation generated")
    run.assume(
        "there is no .NET toolchain in the sandbox: the observable is the text of the generated .cs files, parsed with a line/regex parser of the regular record/enum shape the plugin emits",
        "the mapped C# type is checked by shape (base types exact; ImmutableArray/ImmutableDictionary/OrType/tuple structure; references as identifiers) because class names of anonymous and renamed types are the plugin's own convention",
        "method strings are carried by LSPMethods for all methods and by the LSPRequest attribute for requests; a structure whose name clashes with a member may be emitted under an extended name (Command -> CommandAction)",
        "whole-plugin postcondition evaluated on the committed model (finite, complete), not deduced; lsp_to_base_types, has_null_base_type and generate_property's nullable / null-ignoring / DataMember decisions are proved for all inputs (generate_property against assumed contracts of its callees, listed below; its ImmutableArray / ImmutableDictionary case is known finding 17 and excluded from the contract)",
    )
    cov = stats.coverage()
    cov.update(
        {
            "explanation": "postcondition of the dotnet plugin stated against the metamodel and evaluated on every generated record / enum / metadata attribute (complete for the committed model); helpers lsp_to_base_types, has_null_base_type and the member decisions of generate_property proved by SMT",
            "obligations": stats.obligations + n,
            "discharged": stats.discharged + n - fails,
            "cs_files": files,
            "item_obligations": n,
            "exhaustive": True,
            "samples": stats.samples[:2] + [{"records_checked": len(mm.structures), "methods": len(mm.requests) + len(mm.notifications)}],
        }
    )
    return run.finish(cov)
