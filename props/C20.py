"""C20 — Position order is lexicographic and total; Range/Location equality is structural; reprs."""
from __future__ import annotations

import itertools
import json
from typing import Any, Dict, List, Tuple

from contracts import position as cp
from lib.pylive import Live
from lib.report import Run
from lib.smtrun import SmtStats, verify
from pyvc.smt import And, Le, TRUE
from pyvc import smt
from pyvc.symex import Contract, force

UMAX = 2**31 - 1


# ----------------------------------------------------------------------------- native side (replay + bounded stand-in)


def native_ns(live: Live) -> Dict[str, Any]:
    ns: Dict[str, Any] = {}
    exec(cp.LEMMA_SRC, ns)
    return ns


def pair(p):
    return (p.line, p.character)


def rng(r):
    return (pair(r.start), pair(r.end))


def comps(o):
    n = type(o).__name__
    if n == "Position":
        return pair(o)
    if n == "Range":
        return rng(o)
    return (o.uri, rng(o.range))


def prepr(p):
    return f"{p.line}:{p.character}"


def expected(lemma_id: str, args: List[Any]):
    cname, what = lemma_id.split(":", 1)
    a = args[0]
    if what in ("==", "!=", "<", "<=", ">", ">="):
        x, y = comps(a), comps(args[1])
        return ("return", {"==": x == y, "!=": x != y, "<": x < y, "<=": x <= y, ">": x > y, ">=": x >= y}[what])
    if what == "repr":
        if cname == "Position":
            return ("return", prepr(a))
        if cname == "Range":
            return ("return", f"{prepr(a.start)}-{prepr(a.end)}")
        return ("return", f"{a.uri}:{prepr(a.range.start)}-{prepr(a.range.end)}")
    if what in ("==unrelated", "unrelated=="):
        return ("return", False)
    if what == "!=unrelated":
        return ("return", True)
    return ("raise", "TypeError")


def run_native(ns, fname: str, args: List[Any]):
    try:
        return ("return", ns[fname](*args))
    except Exception as e:  # noqa
        return ("raise", type(e).__name__)


def outcome_matches(obs, exp) -> bool:
    if obs[0] != exp[0]:
        return False
    if obs[0] == "return":
        return type(obs[1]) is type(exp[1]) and obs[1] == exp[1]
    return obs[1] == exp[1]


def _own(v):
    """A value object of its own (what parsing JSON gives): equal numbers / strings in two instances are two objects, never one shared one."""
    if isinstance(v, int) and not isinstance(v, bool):
        return int(str(v))
    if isinstance(v, str):
        return "".join(list(v))
    return v


def mk(live: Live, cname: str, vals):
    T = live.types
    vals = [_own(v) for v in vals]
    if cname == "Position":
        return T.Position(line=vals[0], character=vals[1])
    if cname == "Range":
        return T.Range(start=T.Position(line=vals[0], character=vals[1]), end=T.Position(line=vals[2], character=vals[3]))
    return T.Location(uri=vals[0], range=mk(live, "Range", vals[1:]))


def from_model(live: Live, cname: str, prefix: str, m: Dict[str, Any]):
    def g(k, d=0):
        v = m.get(k, d)
        return v if isinstance(v, (int, str)) and not isinstance(v, bool) else d

    def clamp(i):
        return min(max(int(i), 0), UMAX)

    if cname == "Position":
        return mk(live, cname, [clamp(g(f"{prefix}.oid.line.i")), clamp(g(f"{prefix}.oid.character.i"))])
    if cname == "Range":
        return mk(live, cname, [clamp(g(f"{prefix}.oid.start.oid.line.i")), clamp(g(f"{prefix}.oid.start.oid.character.i")), clamp(g(f"{prefix}.oid.end.oid.line.i")), clamp(g(f"{prefix}.oid.end.oid.character.i"))])
    r = f"{prefix}.oid.range"
    return mk(live, cname, [str(g(f"{prefix}.oid.uri.s", "file:///a")), clamp(g(f"{r}.oid.start.oid.line.i")), clamp(g(f"{r}.oid.start.oid.character.i")), clamp(g(f"{r}.oid.end.oid.line.i")), clamp(g(f"{r}.oid.end.oid.character.i"))])


class _Unrelated:
    pass


def unrelated_from_model(live: Live, world, m: Dict[str, Any]):
    tag = m.get("x.tag")
    if tag == 0:
        return None
    if tag == 1:
        return bool(m.get("x.b", False))
    if tag == 2:
        return int(m.get("x.i", 0))
    if tag == 3:
        return float(m.get("x.r", 0.5))
    if tag == 4:
        return str(m.get("x.s", ""))
    for cname in cp.FIELDS:
        if tag is not None and str(tag) == world.class_id(cname):
            return from_model(live, cname, "x", m)
    return _Unrelated()


GRID_INTS = [0, 1, 2, 5, 257, UMAX]
URIS = ["file:///a", "file:///b", "file:///c%3A/w/a.py", "file:///c:/w/a.py", "file:///a%20b", "file:///a b", "FILE:///A", "file:///a/", "file:///\u00e9", "file:///e\u0301", ""]


def grid(live: Live, cname: str) -> List[Any]:
    if cname == "Position":
        return [mk(live, cname, [l, c]) for l in GRID_INTS for c in GRID_INTS]
    if cname == "Range":
        pts = [(0, 0), (0, 1), (1, 0), (1, 1), (5, UMAX)]
        return [mk(live, cname, [*s, *e]) for s in pts for e in pts]
    rs = [(0, 0, 0, 0), (0, 0, 0, 1), (1, 0, 1, 1), (0, 1, 1, 0)]
    return [mk(live, cname, [u, *r]) for u in URIS for r in rs]


def unrelated_grid(live: Live, cname: str) -> List[Any]:
    out: List[Any] = [None, True, 0, 1, 1.5, "0:0", "", (0, 0), (1, 5), (), (3,), (0, "0"), (0, 0, 0), (0.5, 1), [0, 0], {"line": 0}, _Unrelated(), object(), 2**40]
    for o in cp.FIELDS:
        if o != cname:
            out.append(grid(live, o)[0])
    return out


def lookalikes(a) -> List[Any]:
    """Foreign objects that merely carry the same attribute names and values (duck typing must not make them equal / ordered)."""
    import collections
    import types as _t

    fields = {f: getattr(a, f) for f in cp.FIELDS[type(a).__name__]}
    nt = collections.namedtuple("Lookalike", list(fields))
    return [_t.SimpleNamespace(**fields), nt(**fields), _t.SimpleNamespace(**{k: (v if i else None) for i, (k, v) in enumerate(fields.items())})]


def native_search(live: Live, lemma_id: str, fname: str) -> Tuple[int, List[Dict[str, Any]]]:
    ns = native_ns(live)
    cname, what = lemma_id.split(":", 1)
    n = 0
    bad: List[Dict[str, Any]] = []
    objs = grid(live, cname)
    if what in ("==", "!=", "<", "<=", ">", ">="):
        cases = ([a, b] for a in objs for b in objs)
    elif what == "repr":
        cases = ([a] for a in objs)
    else:
        cases = ([a, x] for a in objs[:6] for x in unrelated_grid(live, cname) + lookalikes(a))
    for args in cases:
        n += 1
        obs = run_native(ns, fname, args)
        exp = expected(lemma_id, args)
        if not outcome_matches(obs, exp):
            bad.append({"lemma": lemma_id, "program": fname, "args": [repr(x) if type(x).__name__ not in cp.FIELDS else f"{type(x).__name__}{comps(x)!r}" for x in args], "observed": list(map(repr, obs)), "expected": list(map(repr, exp))})
            if len(bad) >= 3:
                break
    return n, bad


def obj_env(prefix: str, o, env: Dict[str, Any]):
    n = type(o).__name__
    env[f"{prefix}.oid"] = id(o) % 1000003
    if n == "Position":
        env[f"{prefix}.oid.line.i"] = o.line
        env[f"{prefix}.oid.character.i"] = o.character
    elif n == "Range":
        obj_env(f"{prefix}.oid.start", o.start, env)
        obj_env(f"{prefix}.oid.end", o.end, env)
    elif n == "Location":
        env[f"{prefix}.oid.uri.s"] = o.uri
        obj_env(f"{prefix}.oid.range", o.range, env)


def lemma_differential(run: Run, live: Live, world, lemma_id: str, fname: str, contract, rep) -> int:
    """Encoder-vs-CPython: the outcome the symbolic paths predict for concrete operands == the outcome of running the lemma program."""
    from lib import scalardiff

    cname, what = lemma_id.split(":", 1)
    if what == "repr":
        return 0  # str(int) is uninterpreted in the encoding
    ns = native_ns(live)
    objs = grid(live, cname)
    objs = objs[:: max(1, len(objs) // 12)]
    if what in ("==", "!=", "<", "<=", ">", ">="):
        cases = [[a, b] for a in objs for b in objs]
    else:
        cases = [[a, x] for a in objs[:4] for x in unrelated_grid(live, cname)]
    class_ids = {c: int(world.class_id(c)) for c in cp.FIELDS}
    n = 0
    for args in cases:
        env: Dict[str, Any] = {}
        obj_env("a", args[0], env)
        second = contract.params[1][0]
        if second == "b":
            obj_env("b", args[1], env)
        else:
            x = args[1]
            scalardiff.dyn_env("x", x, env, class_ids, [a for a in cp.UNRELATED if isinstance(a, tuple) and a[0] == "tuple_of"])
            if type(x).__name__ in cp.FIELDS:
                obj_env("x", x, env)
        allp = scalardiff.predicted(rep.paths_full, env)
        preds = {p[:2] for p in allp if p[0] != "unknown"}
        nat = run_native(ns, fname, args)
        if not preds and allp:
            continue  # the only candidate paths depend on an uninterpreted function of the inputs: the encoding predicts nothing to compare
        n += 1
        if len(preds) != 1 or next(iter(preds)) != tuple(nat[:2]):
            run.crash(f"encoder disagrees with CPython for lemma {lemma_id} on {[repr(a) for a in args]}: predicted {sorted(map(str, preds))}, real {nat}")
            break
    return n


def main(argv: List[str]) -> int:
    run = Run("C20", "proof", argv)
    live = Live()
    stats = SmtStats()
    world, interp, info = cp.build_world(live)
    for pr in info["problems"]:
        run.undecide(f"class table: {pr}")
    lem_fns = cp.lemma_functions(world)
    bounded = 0
    n_lemmas = 0
    diff_n = 0

    def with_range_pre(c: Contract) -> Contract:
        # type invariant of inputs (is_valid()): every int field is a uinteger
        def pre(ctx, a):
            cs = []

            def visit(v, cname):
                for fname, alts in cp.FIELDS[cname].items():
                    fv = interp.getattr(ctx, v, fname)
                    if alts == ["int"]:
                        t = force(ctx, fv).t
                        cs.append(And(Le("0", t), Le(t, smt.sint(UMAX))))
                    elif isinstance(alts[0], tuple):
                        visit(fv, alts[0][1])

            for pname, alts in c.params:
                if len(alts) == 1 and isinstance(alts[0], tuple):
                    visit(a[pname], alts[0][1])
            return And(*cs)

        return Contract(c.name, c.params, pre, c.spec, c.note)

    for lemma_id, fname, contract in cp.lemmas(interp):
        cname = lemma_id.split(":")[0]
        if cname not in world.classes:
            continue
        if ":unrelated" in lemma_id and cname != "Position":
            pass
        n_lemmas += 1
        label = f"C20:{lemma_id}"
        fi = lem_fns[fname]
        contract = with_range_pre(contract)

        def on_fail(o, lemma_id=lemma_id, fname=fname, contract=contract):
            cname = lemma_id.split(":")[0]
            m = o.model or {}
            ns = native_ns(live)
            base = {"key": f"C20:{lemma_id}", "lemma": lemma_id, "program": fname, "spec": contract.note, "methods": {k: v for k, v in info["methods"].items() if k.startswith(cname) or k.startswith("Position")}}
            try:
                args = [from_model(live, cname, "a", m)]
                if len(contract.params) == 2:
                    if contract.params[1][0] == "b":
                        args.append(from_model(live, cname, "b", m))
                    else:
                        args.append(unrelated_from_model(live, world, m))
                obs = run_native(ns, fname, args)
                exp = expected(lemma_id, args)
                if not outcome_matches(obs, exp):
                    shown = [f"{type(x).__name__}{comps(x)!r}" if type(x).__name__ in cp.FIELDS else repr(x) for x in args]
                    return True, {**base, "what": f"{lemma_id}: {fname}({', '.join(shown)}) gives {obs[1]!r}, statement requires {exp[1]!r}", "input": shown, "observed": repr(obs), "expected": repr(exp)}
            except Exception as e:  # noqa
                base["model_replay_error"] = repr(e)
            n, bad = native_search(live, lemma_id, fname)
            if bad:
                b = bad[0]
                return True, {**base, "what": f"{lemma_id}: {fname}({', '.join(b['args'])}) gives {b['observed'][1]}, statement requires {b['expected'][1]}", "input": b["args"], "observed": b["observed"], "expected": b["expected"], "found_by": f"native grid search ({n} cases) after the solver model did not reproduce"}
            return False, {**base, "what": f"{lemma_id} is no longer provable from the method bodies; solver model did not reproduce natively and the native grid ({n} cases) found no failing input"}

        def on_unsupported(msg, lemma_id=lemma_id, fname=fname, label=label):
            nonlocal bounded
            n, bad = native_search(live, lemma_id, fname)
            bounded += n
            run.notes.append(f"{label}: outside verified subset ({msg}); bounded native grid of {n} cases stands in")
            for b in bad[:1]:
                run.violation(f"C20:{lemma_id}", f"{lemma_id}: {fname}({', '.join(b['args'])}) gives {b['observed'][1]}, statement requires {b['expected'][1]}", {"input": b, "bounded": True, "note": f"method left the verified subset: {msg}"}, True)

        rep = verify(run, stats, world, interp, fi, contract, label, on_fail, on_unsupported)
        if rep is not None and not rep.unsupported and rep.paths_full:
            diff_n += lemma_differential(run, live, world, lemma_id, fname, contract, rep)

    # trichotomy is a consequence of the six operator lemmas (pure arithmetic); state it as its own SMT lemma for the record
    # exactly one of lt/eq/gt over integer pairs
    from pyvc.vc import Obligation, solve

    tri = Obligation(
        "C20:Position:trichotomy(arith)",
        "lemma",
        ["(declare-const al Int)", "(declare-const ac Int)", "(declare-const bl Int)", "(declare-const bc Int)"],
        [
            "(let ((lt (or (< al bl) (and (= al bl) (< ac bc)))) (eq (and (= al bl) (= ac bc))) (gt (or (< bl al) (and (= al bl) (< bc ac))))) "
            "(not (and (or lt eq gt) (not (and lt eq)) (not (and lt gt)) (not (and eq gt)))))"
        ],
        "unsat",
    )
    stats.solver_s += solve(world, [tri])
    stats.obligations += 1
    if tri.answer == "unsat":
        stats.discharged += 1
        stats.by_backend[tri.backend] += 1
    else:
        run.crash("trichotomy arithmetic lemma not discharged")

    # ---- native probe of what a stateless reading cannot see: the instances are mutable, so the operators and reprs must follow the CURRENT
    #      field values (a key cached at the first comparison goes stale).  compare -> mutate in place -> compare again, on a grid.
    import operator as _op

    P, R, Lc = live.types.Position, live.types.Range, live.types.Location
    ops = {"==": _op.eq, "!=": _op.ne, "<": _op.lt, "<=": _op.le, ">": _op.gt, ">=": _op.ge}
    mut_n = 0
    mut_bad = None
    pts = [(0, 0), (0, 1), (1, 0), (5, UMAX), (UMAX, 0)]
    for a0 in pts:
        for b0 in pts:
            for a1 in pts:
                a, b = P(line=a0[0], character=a0[1]), P(line=b0[0], character=b0[1])
                for nm, f in ops.items():
                    f(a, b)
                    f(b, a)  # first use (what a cache would remember)
                repr(a)
                hash_ok = True
                a.line, a.character = a1  # in-place edit
                for nm, f in ops.items():
                    mut_n += 1
                    want = f(a1, b0)
                    got = f(a, b)
                    if got is not want and mut_bad is None:
                        mut_bad = (f"Position{a0} {nm} Position{b0} evaluated, then the left operand edited in place to {a1}: `{nm}` gives {got}, the pairs say {want}", {"first": [a0, b0], "edited_to": a1, "operator": nm})
                if repr(a) != f"{a1[0]}:{a1[1]}" and mut_bad is None:
                    mut_bad = (f"repr of a Position edited in place from {a0} to {a1} is {repr(a)!r}", {"first": a0, "edited_to": a1})
    # Range / Location: equality follows an edited component
    for a0 in pts[:3]:
        for a1 in pts[:3]:
            r1 = R(start=P(line=a0[0], character=a0[1]), end=P(line=9, character=9))
            r2 = R(start=P(line=a1[0], character=a1[1]), end=P(line=9, character=9))
            l1, l2 = Lc(uri="file:///a", range=r1), Lc(uri="file:///a", range=R(start=P(line=a1[0], character=a1[1]), end=P(line=9, character=9)))
            (r1 == r2, l1 == l2, repr(r1), repr(l1))
            r1.start.line, r1.start.character = a1
            mut_n += 2
            if not (r1 == r2) or not (l1 == l2) or repr(r1) != repr(r2):
                if mut_bad is None:
                    mut_bad = (f"a Range whose start was edited in place from {a0} to {a1} does not compare / print like a Range built with {a1}", {"first": a0, "edited_to": a1})
    # equal values of another type earlier in the process (the validators accept True for 1): reprs and comparisons of later, plain-int
    # positions must not remember them (a memo table keyed by == would)
    if mut_bad is None:
        for first, later in (((True, False), (1, 0)), ((1, 0), (True, False)), ((2, True), (2, 1))):
            try:
                pf = P(line=first[0], character=first[1])
                rf = R(start=pf, end=pf)
                (repr(pf), repr(rf), repr(Lc(uri="u", range=rf)), pf == pf, pf <= pf)
            except Exception:
                continue
            pl = P(line=later[0], character=later[1])
            rl = R(start=pl, end=pl)
            mut_n += 3
            want = f"{later[0]}:{later[1]}"
            got = (repr(pl), repr(rl), repr(Lc(uri="u", range=rl)))
            if got != (want, f"{want}-{want}", f"u:{want}-{want}"):
                mut_bad = (f"after a Position with the equal values {first} was printed, repr of Position{later} / its Range / Location is {got}", {"first": list(map(repr, first)), "later": list(map(repr, later)), "operator": "repr"})
                break
    if mut_bad is not None:
        run.violation("C20:mutation-history", "comparison does not follow the current field values after an in-place edit — " + mut_bad[0], {**mut_bad[1], "replay": "build the objects, compare once, assign the fields, compare again"}, True)

    # ---- trivial subclasses (bounded, native; added after seed C20-13): an instance of `class Sub(Position): pass` is a position, a Range /
    #      Location built from such components has those components.  The lemma programs quantify over instances of the three classes
    #      themselves; this grid adds operands whose class is a plain subclass, in both operand orders.
    sub_n = 0
    sub_bad = None
    try:
        SP = type("VerifSubPosition", (P,), {})
        SR = type("VerifSubRange", (R,), {})
        SL = type("VerifSubLocation", (Lc,), {})
        grid = pts[:4]
        for a0 in grid:
            for b0 in grid:
                for ca, cb in ((SP, P), (P, SP), (SP, SP)):
                    a, b = ca(line=a0[0], character=a0[1]), cb(line=b0[0], character=b0[1])
                    for nm, f in ops.items():
                        sub_n += 1
                        try:
                            got = f(a, b)
                        except Exception as e:  # noqa
                            got = f"raises {type(e).__name__}"
                        want = f(a0, b0)
                        if got is not want and sub_bad is None:
                            sub_bad = (f"{ca.__name__}{a0} {nm} {cb.__name__}{b0} gives {got}, the pairs say {want}", {"left": [ca.__name__, a0], "right": [cb.__name__, b0], "operator": nm})
                # Range / Location: equal exactly when the components are equal, whatever plain subclass carries them
                mk = lambda pc, rc, q: rc(start=pc(line=q[0], character=q[1]), end=pc(line=9, character=9))  # noqa: E731
                for (pa, ra), (pb, rb) in (((SP, R), (P, R)), ((P, SR), (P, R)), ((P, R), (SP, SR))):
                    ra_, rb_ = mk(pa, ra, a0), mk(pb, rb, b0)
                    la_, lb_ = Lc(uri="file:///a", range=ra_), SL(uri="file:///a", range=rb_)
                    for x, y, what in ((ra_, rb_, "Range"), (rb_, ra_, "Range"), (la_, lb_, "Location"), (lb_, la_, "Location")):
                        sub_n += 2
                        try:
                            got = ((x == y), (x != y))
                        except Exception as e:  # noqa
                            got = f"raises {type(e).__name__}"
                        want = ((a0 == b0), (a0 != b0))
                        if got != want and sub_bad is None:
                            sub_bad = (f"{what} objects built from plain subclasses with start {a0} / {b0} (same end, same uri): (==, !=) gives {got}, the components say {want}", {"classes": [type(x).__name__, type(y).__name__, pa.__name__, pb.__name__], "starts": [a0, b0]})
    except Exception as e:  # noqa
        run.notes.append(f"subclass grid could not be built: {e!r}")
    if sub_bad is not None:
        run.violation("C20:subclass-operands", "comparison of instances of a plain subclass does not follow the components — " + sub_bad[0], {**sub_bad[1], "replay": "class Sub(Position): pass (resp. Range, Location); build the operands; compare"}, True)

    if n_lemmas == 0:
        run.crash("no lemma generated")
    run.assume(
        "operator dispatch follows the CPython data model (reflected operand after NotImplemented; == falls back to identity, ordering raises TypeError; object.__ne__ inverts __eq__)",
        "type invariant of inputs: Position.line/character are non-bool ints in [0, 2^31-1]; Location.uri is a str; Range/Location components are instances of the declared classes",
        "str(int) is an uninterpreted injective-agnostic function shared by code and specification",
        "a foreign ('unrelated') object does not define reflected comparison methods that accept these classes",
        "functools.total_ordering bound the helpers found in the live class __dict__ (their bodies are verified, the decorator's choice is read off the live class)",
        "operands whose class is a subclass of Position/Range/Location are outside the lemmas; plain (non-overriding) subclasses are covered by a bounded native grid only",
    )
    cov = stats.coverage()
    cov.update(
        {
            "obligations": stats.obligations,
            "discharged": stats.discharged,
            "checker_cmd": "bin/check C20  (pyvc: lemma programs executed symbolically through the real dunder methods; z3, cvc5 fallback)",
            "trusted_base": ["z3 4.8.12 / cvc5 1.0.3", "pyvc symbolic executor and its model of CPython operator dispatch (DESIGN 2.3)", "inspect.getsource for functools helpers"],
            "lemmas": n_lemmas,
            "methods_verified": info["methods"],
            "bounded_native_cases": bounded,
            "mutation_history_cases": mut_n,
            "subclass_operand_cases": sub_n,
            "encoder_vs_cpython_inputs": diff_n,
            "samples": stats.samples[:8],
            "notes": run.notes,
        }
    )
    return run.finish(cov)
