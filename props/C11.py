"""C11 — spec-invalid single-field deviations are rejected, never silently repaired."""
from __future__ import annotations

import typing
from typing import Any, Dict, List, Optional, Tuple

from contracts import validators as cv
from lib.pylive import Live
from lib.report import Run
from lib.smtrun import SmtStats, verify
from lib.tables import check_classes, expected_required
from oracle.metamodel import INT_MAX, INT_MIN, UINT_MAX, UINT_MIN, MetaModel
from oracle.pairing import all_class_decls
from props import _tables
from pyvc import vc
from pyvc.vc import Obligation


def type_label(t: Dict) -> str:
    return t["name"] if t["kind"] == "reference" else "literal{" + ",".join(p["name"] for p in t["value"]["properties"]) + "}"


def eligible_edits(mm: MetaModel, d, p) -> List[Tuple[str, Any]]:
    """(edit kind, replacement) for property p; 'remove' has no replacement."""
    t = p["type"]
    out: List[Tuple[str, Any]] = []
    if p.get("_envelope"):
        if p["name"] == "method":
            out.append(("literal", t["value"] + "x"))
            out.append(("literal", t["value"][:-1]))
            out.append(("literal", ""))
        return out
    if not p.get("optional") and not mm.null_admitting(t) and t["kind"] != "stringLiteral":
        out.append(("remove", None))
    if t["kind"] == "base" and t["name"] in ("integer", "uinteger"):
        lo, hi = (INT_MIN, INT_MAX) if t["name"] == "integer" else (UINT_MIN, UINT_MAX)
        for v in (lo - 1, hi + 1, -(2**40), 2**40, float(hi + 1), float(lo - 1)):
            out.append(("range", v))
        # out-of-range numbers that are congruent to the VALID value of the surrounding input modulo 2**32 / 2**64 (wrap-around, packed keys)
        for k in (2**32, 2**64, -(2**32)):
            out.append(("range", ("congruent", k)))
    if t["kind"] == "reference" and t["name"] in mm.enumerations and not mm.is_open_enum(t["name"]):
        e = mm.enumerations[t["name"]]
        vals = [v["value"] for v in e["values"]]
        if e["type"]["name"] == "string":
            names = [x["name"] for x in e["values"]]
            cands = ["__not_a_member__", vals[0] + "x", vals[0][:-1], ""]
            for w in vals[:4] + names[:4]:
                cands += [w.upper(), w.lower(), w.capitalize(), w.title(), w.swapcase(), " " + w, w + " "]
            for v in dict.fromkeys(cands):
                if v not in vals:
                    out.append(("enum", v))
        else:
            for v in (max(vals) + 1, min(vals) - 1, 0, 10**6):
                if v not in vals:
                    out.append(("enum", v))
    # a closed enumeration as an alternative of a union-typed property (directly or through an alias): a value of the enumeration's base
    # type outside the enumeration that no other alternative admits either is the same single edit (added after seed C11-11)
    ut = t
    if ut["kind"] == "reference" and ut["name"] in getattr(mm, "aliases", {}):
        ut = mm.aliases[ut["name"]]["type"]
    if ut["kind"] == "or":
        for alt in ut["items"]:
            if alt["kind"] == "reference" and alt["name"] in mm.enumerations and not mm.is_open_enum(alt["name"]):
                e = mm.enumerations[alt["name"]]
                vals = [v["value"] for v in e["values"]]
                if e["type"]["name"] == "string":
                    cands = ["__not_a_member__", vals[0] + "x", vals[0].upper() if vals[0].upper() != vals[0] else vals[0].lower(), ""]
                else:
                    cands = [max(vals) + 1, min(vals) - 1, 10**6, -7]
                for v in dict.fromkeys(cands):
                    if v not in vals and not mm.valid(t, v, False):
                        out.append(("enum-in-union", v))
    if t["kind"] == "stringLiteral":
        lit = t["value"]
        for v in (lit + "x", "x" + lit, lit[:-1], lit[1:], "", lit.upper() if lit.upper() != lit else lit.lower(), "other"):
            if v != lit:
                out.append(("literal", v))
    return out


def main(argv: List[str]) -> int:
    run = Run("C11", "proof", argv)
    live = Live()
    mm = MetaModel.load()
    stats = SmtStats()
    # ---- deduced: the two range validators (shared with C12)
    world, interp = cv.build_world()
    for fname in ("integer_validator", "uinteger_validator"):
        label = f"{cv.REL}::{fname}"
        fi = world.functions.get(label)
        if fi is None:
            run.violation(f"{label}:exists", f"{fname} missing", {}, True)
            continue
        c = cv.make_contract(interp, fname)

        def on_fail(o, fname=fname):
            inst, attr, val = cv.concretize(o.model or {})
            return True, {"key": f"{cv.REL}::{fname}:post", "what": f"{fname} violates its range contract (see C12 for the replay)", "value": repr(val)}

        def on_unsupported(msg, label=label):
            run.notes.append(f"{label} outside subset ({msg}); decided by the behavioural sweep below")

        verify(run, stats, world, interp, fi, c, label, on_fail, on_unsupported)
    # ---- deduced: int() coercion before validation cannot repair an out-of-range number (fails: truncation toward zero)
    for tname, lo, hi in (("integer", INT_MIN, INT_MAX), ("uinteger", UINT_MIN, UINT_MAX)):
        ob = Obligation(
            f"C11:coercion:{tname}",
            "lemma",
            ["(declare-const x Real)"],
            [
                f"(or (< x {float(lo)!r}) (> x {float(hi)!r}))".replace("-2147483648.0", "(- 2147483648.0)"),
                "(let ((t (ite (>= x 0.0) (to_int x) (- (to_int (- x)))))) (and (<= %s t) (<= t %s)))" % (lo if lo >= 0 else f"(- {-lo})", hi),
            ],
            "unsat",
        )
        stats.solver_s += vc.solve(world, [ob])
        stats.obligations += 1
        if ob.answer == "unsat":
            stats.discharged += 1
        elif ob.answer == "sat":
            x = (ob.model or {}).get("x")
            # replay on the first property of that type
            site = _first_site(live, mm, tname)
            found = False
            detail: Dict[str, Any] = {"solver_model_x": x}
            if site and isinstance(x, (int, float)):
                cls, d, p = site
                j = mm.witness_props(d.props, False, 0)
                j[p["name"]] = float(x)
                try:
                    obj = live.converter.structure(j, cls)
                    found = True
                    detail.update({"input": j, "class": cls.__name__, "observed": f"accepted as {live.converter.unstructure(obj)}"})
                except Exception as e:  # noqa
                    detail["observed"] = f"rejected: {e}"
            run.violation(f"C11:coercion:{tname}", f"a non-integral number within 1 of the {tname} bound is truncated into range by int() before validation (e.g. {x})", detail, failing_input_found=found)
        else:
            run.undecide(f"C11:coercion:{tname}: {ob.answer}")
    # ---- evaluated: the attachment facts the rejection argument rests on
    decls = all_class_decls(mm)
    res = check_classes(live, mm, decls)
    n1, d1 = _tables.report(run, res, ["required", "validator", "annotation", "attr-for-prop", "class-exists"])
    # ---- behavioural sweep: every eligible (class, property, edit) on a minimal and a maximal surrounding value, two passes
    sweeps = 0
    for pas in (1, 2):
        conv = live.converter
        for d in decls:
            cls = getattr(live.types, d.pyname, None)
            if cls is None:
                continue
            for mx in (False, True):
                base = mm.witness_props(d.props, mx, 1)
                for p in d.props:
                    for kind, repl in eligible_edits(mm, d, p):
                        j = dict(base)
                        if kind == "remove":
                            if p["name"] not in j:
                                continue
                            del j[p["name"]]
                        elif isinstance(repl, tuple) and repl and repl[0] == "congruent":
                            cur = j.get(p["name"])
                            if not isinstance(cur, int) or isinstance(cur, bool):
                                continue
                            try:
                                conv.structure(dict(base), cls)  # the valid value is seen first, by the same converter
                            except Exception:  # noqa
                                pass
                            repl = cur + repl[1]
                            j[p["name"]] = repl
                        else:
                            j[p["name"]] = repl
                        sweeps += 1
                        try:
                            obj = conv.structure(j, cls)
                        except Exception:
                            continue
                        if kind == "range" and isinstance(repl, float) and False:
                            continue
                        a = next((a.name for a in live.attrs.fields(cls) if (live.wire_name(cls, a.name) or a.name) == p["name"]), p["name"])
                        run.violation(
                            f"reject:{d.pyname}.{a}:{kind}",
                            f"{d.pyname}.{a}: invalid edit ({kind}: {repl!r}) is accepted instead of raising (pass {pas})",
                            {"input": j, "edit": kind, "replacement": repl, "observed": _safe_repr(conv, obj), "pass": pas, "replay": f"converter.structure(<input>, lsprotocol.types.{d.pyname})"},
                            True,
                        )
    # ---- the same single edits applied to an object that is reached THROUGH a union-typed property of the container (what gets checked
    #      there is decided by a hand-written hook / the default disambiguator, not by the nested class alone)
    from lib.sweeps import union_nested_sites

    conv = live.converter
    nested = 0
    seen_nested = set()
    for d in decls:
        cls = getattr(live.types, d.pyname, None)
        if cls is None:
            continue
        base = None
        for p in d.props:
            if p.get("_envelope"):
                continue
            for alt_t, nprops, place in union_nested_sites(mm, p["type"]):
                if base is None:
                    base = mm.witness_props(d.props, False, 1)
                for mx in (False, True):
                    try:
                        inner = mm.witness(alt_t, mx, 2)
                    except Exception:  # noqa
                        continue
                    if not isinstance(inner, dict):
                        continue
                    for q in nprops:
                        for kind, repl in eligible_edits(mm, d, q):
                            e = dict(inner)
                            if kind == "remove":
                                if q["name"] not in e:
                                    continue
                                del e[q["name"]]
                            elif isinstance(repl, tuple) and repl and repl[0] == "congruent":
                                cur = e.get(q["name"])
                                if not isinstance(cur, int) or isinstance(cur, bool):
                                    continue
                                repl = cur + repl[1]
                                e[q["name"]] = repl
                            else:
                                e[q["name"]] = repl
                            val = place(e)
                            if mm.valid(p["type"], val, False):
                                continue  # the edited object is (loosely) valid as another alternative: accepting it is right
                            j = dict(base)
                            j[p["name"]] = val
                            nested += 1
                            try:
                                obj = conv.structure(j, cls)
                            except Exception:
                                continue
                            a = next((a_.name for a_ in live.attrs.fields(cls) if (live.wire_name(cls, a_.name) or a_.name) == p["name"]), p["name"])
                            key = f"reject:{d.pyname}.{a}>{type_label(alt_t)}.{q['name']}:{kind}"
                            if key in seen_nested:
                                continue
                            seen_nested.add(key)
                            run.violation(
                                key,
                                f"{d.pyname}.{a}: an invalid edit ({kind}: {repl!r}) of {q['name']} inside the {type_label(alt_t)} alternative is accepted instead of raising",
                                {"input": j, "edit": kind, "replacement": repl, "nested_property": q["name"], "observed": _safe_repr(conv, obj), "replay": f"converter.structure(<input>, lsprotocol.types.{d.pyname})"},
                                True,
                            )
    sweeps += nested
    # ---- frame condition: union hooks must not touch state that switches validation off (they may call
    #      converter.structure and pure builtins only); a violation is replayed as a poisoning sequence
    from lib.unions import UnionAnalysis, site_inputs
    from props import _unions as U

    ua = UnionAnalysis(live, mm, solve=False)
    for r in ua.results:
        for dotted in r.extra.get("frame_calls", []):
            seq = poison_replay(live, mm, r)
            what = f"hook {U.short(r.site.handler_name)} calls {dotted}: outside the frame of a structure hook (converter.structure / pure builtins)"
            if seq:
                what += f"; after {seq['poison_kind']} input at {r.site.where[0]} an invalid edit is accepted: {seq['accepted']}"
            run.violation(f"frame:{U.short(r.site.handler_name)}:{dotted}", what, seq or {"use_sites": r.site.where[:4], "note": "no accepting sequence found natively"}, failing_input_found=bool(seq))
    run.assume(
        "cattrs: a missing key of a field without default raises; Enum(v) raises for non-members; the attrs constructor runs the field validators (assumed rows; each exercised on every eligible property by the sweep)",
        "the surrounding value of the sweep is the minimal and the maximal witness of the class (bounded); the edited property ranges over all eligible ones (exhaustive)",
    )
    cov = stats.coverage()
    cov.update(
        {
            "obligations": stats.obligations + n1,
            "discharged": stats.discharged + d1,
            "checker_cmd": "bin/check C11",
            "trusted_base": ["z3/cvc5", "pyvc", "cattrs/attrs rows of DESIGN 2.4", "oracle/metamodel.py"],
            "table_obligations": n1,
            "sweep_cases": sweeps,
            "samples": stats.samples[:2] + res.samples[:3],
            "notes": run.notes,
        }
    )
    return run.finish(cov)


def _safe_repr(conv, obj) -> str:
    try:
        return repr(conv.unstructure(obj))[:400]
    except Exception as e:  # noqa
        return f"accepted as {obj!r}"[:300] + f" (unstructure raises {type(e).__name__})"


def poison_replay(live, mm, res):
    """Feed valid and broken inputs to the hook's union position, then check that plainly invalid edits are still rejected."""
    import copy
    from lib.unions import site_inputs

    conv = live.converter
    T = live.types
    probes = [
        (T.Position, {"line": -1, "character": 0}),
        (T.Position, {"line": 0, "character": 2**31}),
        (T.CreateFile, {"kind": "rename", "uri": "file:///a"}),
        (T.VersionedTextDocumentIdentifier, {"uri": "file:///a", "version": 2**31}),
    ]

    def accepted():
        for cls, j in probes:
            try:
                conv.structure(j, cls)
                return f"{cls.__name__} {j}"
            except Exception:
                pass
        return None

    def broken(j):
        out = []
        if isinstance(j, list) and j:
            b = copy.deepcopy(j)
            b[-1] = 12345
            out.append(b)
            if isinstance(j[0], dict) and j[0]:
                b = copy.deepcopy(j)
                k = next(iter(b[0]))
                b[-1] = {k: {"bogus": object}}
                b[-1] = {}
                out.append(b)
        if isinstance(j, dict) and j:
            b = dict(j)
            b[next(iter(b))] = {"bogus": [1]}
            out.append(b)
            out.append({})
        return out

    for j in site_inputs(mm, res.site.tau)[:80]:
        for kind, v in [("a valid", j)] + [("a malformed", b) for b in broken(j)]:
            try:
                conv.structure(v, res.site.annotation)
            except Exception:
                pass
            acc = accepted()
            if acc:
                import attrs

                attrs.validators.set_disabled(False)
                return {"poison_kind": kind, "poison_input": v, "accepted": acc, "use_sites": res.site.where[:4], "replay": "converter.structure(poison_input, union) [exception ignored]; then converter.structure(accepted input) no longer raises"}
    return None


def _first_site(live, mm, tname):
    for d in all_class_decls(mm):
        for p in d.props:
            if p["type"]["kind"] == "base" and p["type"]["name"] == tname and not p.get("optional"):
                cls = getattr(live.types, d.pyname, None)
                if cls is not None:
                    return cls, d, p
    return None
