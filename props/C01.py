"""C01 — parsing then re-serialising any spec-valid LSP JSON value loses nothing."""
from __future__ import annotations

import typing
from typing import Any, Dict, List

import os

from lib.pylive import REPO, Live
from lib.report import Run
from lib.sweeps import decl_type, norm_decl, root_inputs
from lib.tables import check_classes
from lib.unions import UnionAnalysis
from oracle.metamodel import MetaModel
from oracle.native import json_diff
from oracle.pairing import all_class_decls
from oracle.pytypes import has_forward_ref
from props import _tables
from props import _unions as U


def main(argv: List[str]) -> int:
    run = Run("C01", "proof", argv)
    live = Live()
    mm = MetaModel.load()
    decls = all_class_decls(mm)
    # ---- deduced: every union handler reads every valid input as an alternative that loses nothing
    ua = UnionAnalysis(live, mm)
    what = {
        "O0": "a valid value makes the union handler raise",
        "O1": "a valid value is parsed into an alternative for which it is not valid",
        "O2": "a valid value is parsed into an alternative that does not declare all of its properties (something is lost)",
    }
    cov = U.report_unions(run, live, mm, ua, {"missing", "O0", "O1", "O2", "cover"}, what)
    # ---- evaluated: leaves of the per-class lemma that loss-freedom rests on
    res = check_classes(live, mm, decls)
    n1, d1 = _tables.report(run, res, ["class-exists", "class-hook", "attr-for-prop", "wire-name", "annotation", "special"])
    # ---- evaluated: every type alias is usable as a root type
    n2 = d2 = 0
    conv = live.converter
    for name, a in mm.aliases.items():
        n2 += 1
        obj = getattr(live.types, name, None)
        fr = has_forward_ref(obj) if obj is not None else "missing"
        j = mm.witness(a["type"], True)
        err = None
        try:
            back = conv.unstructure(conv.structure(j, obj))
            loss = json_diff(mm.norm(a["type"], j), back)
            if loss:
                err = f"round trip loses: {loss}"
        except Exception as e:  # noqa
            err = f"{type(e).__name__}: {str(e)[:200]}"
        if err:
            run.violation(f"root:alias:{name}", f"type alias {name} cannot be used as the root type of structure(): {err}" + (f" (alias object still holds the unresolved reference {fr})" if fr else ""), {"input": j, "observed": err, "alias_object": repr(obj)[:300], "replay": f"converter.structure(<input>, lsprotocol.types.{name})"}, True)
        else:
            d2 += 1
    # ---- bounded native sweep at every class root (replay oracle of the whole argument)
    sweep = 0
    for d in decls:
        cls = getattr(live.types, d.pyname, None)
        if cls is None:
            continue
        for j in root_inputs(mm, d, cap=40 if run.tier == "quick" else 200):
            sweep += 1
            try:
                obj = conv.structure(j, cls)
                back = conv.unstructure(obj)
            except Exception as e:  # noqa
                run.violation(f"roundtrip:{d.pyname}:raises", f"a strictly valid {d.pyname} is rejected: {type(e).__name__}: {str(e)[:200]}", {"input": j, "replay": f"converter.structure(<input>, lsprotocol.types.{d.pyname})"}, True)
                break
            loss = json_diff(norm_decl(mm, d, j), back)
            if loss:
                run.violation(f"roundtrip:{d.pyname}:{loss.split(':')[0]}", f"round trip of a valid {d.pyname} is lossy: {loss}", {"input": j, "unstructured": back, "expected": norm_decl(mm, d, j)}, True)
                break
    # ---- the same witnesses under `python -O` (assertions compiled away): the results must not change
    import subprocess

    from lib.report import VERIF as _VERIF

    def probe(flags):
        env = dict(os.environ, VERIF_REPO=REPO, PYTHONDONTWRITEBYTECODE="1")
        p = subprocess.run(["/venv/bin/python"] + flags + [os.path.join(_VERIF, "tools", "roundtrip_probe.py")], capture_output=True, text=True, env=env, timeout=600)
        return {tuple(l.split()[:2]): " ".join(l.split()[2:]) for l in p.stdout.splitlines() if len(l.split()) >= 4}, p.stderr[-400:]

    import concurrent.futures as _cf

    with _cf.ThreadPoolExecutor(max_workers=2) as ex:
        (normal, err_n), (opt, err_o) = ex.map(probe, ([], ["-O"]))
    if not normal or not opt:
        run.crash(f"round-trip probe produced no output (normal: {len(normal)}, -O: {len(opt)}): {(err_n or err_o)[-300:]}")
    o_cases = 0
    for key, res in normal.items():
        o_cases += 1
        if opt.get(key) != res:
            run.violation(f"roundtrip:-O:{key[0]}", f"under `python -O` the {'maximal' if key[1] == '1' else 'minimal'} witness of {key[0]} gives '{opt.get(key)}' instead of '{res}'", {"class": key[0], "normal": res, "optimised": opt.get(key), "replay": "python -O tools/roundtrip_probe.py vs python tools/roundtrip_probe.py"}, True)
            if len([v for v in run.violations if v["key"].startswith("roundtrip:-O:")]) >= 10:
                break
    run.assume(*U.ASSUMPTIONS, "per-class (un)structure functions behave as the cattrs rows of DESIGN 2.4 (assumed; the root sweep exercises them on every class)", "the remaining leaves of the class lemma (defaults, validators, omit rule) are C04 / C10 / C11 obligations")
    return run.finish(
        {
            "obligations": cov["n_ob"] + n1 + n2,
            "discharged": cov["n_dis"] + d1 + d2,
            "checker_cmd": "bin/check C01",
            "trusted_base": ["z3/cvc5", "pyvc + jsonsym encoder", "cattrs/attrs rows (DESIGN 2.4)", "oracle/metamodel.py (valid, norm)"],
            "smt_by_backend": cov["backends"],
            "smt_solver_s": round(ua.solver_s, 2),
            "union_positions": sum(len(s.where) for s in ua.sites),
            "handlers_under_contract": cov["functions"],
            "outside_subset": cov["outside"],
            "table_obligations": n1,
            "alias_roots": n2,
            "bounded_root_sweep_inputs": sweep,
            "python_O_cases": o_cases,
            "cross_check": cov.get("cross_check"),
            "samples": cov["samples"][:6],
            "notes": run.notes,
        }
    )
