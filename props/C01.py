"""C01 — parsing then re-serialising any spec-valid LSP JSON value loses nothing."""
from __future__ import annotations

import typing
from typing import Any, Dict, List

from lib.pylive import Live
from lib.report import Run
from lib.sweeps import decl_type, norm_decl, root_inputs
from lib.tables import check_classes
from lib.unions import UnionAnalysis
from oracle.metamodel import MetaModel
from oracle.native import json_diff
from oracle.pairing import all_class_decls
from oracle.pytypes import has_forward_ref
from props import _tables
from props import _unions as U


def main(argv: List[str]) -> int:
    run = Run("C01", "proof", argv)
    live = Live()
    mm = MetaModel.load()
    decls = all_class_decls(mm)
    # ---- deduced: every union handler reads every valid input as an alternative that loses nothing
    ua = UnionAnalysis(live, mm)
    what = {
        "O0": "a valid value makes the union handler raise",
        "O1": "a valid value is parsed into an alternative for which it is not valid",
        "O2": "a valid value is parsed into an alternative that does not declare all of its properties (something is lost)",
    }
    cov = U.report_unions(run, live, mm, ua, {"missing", "O0", "O1", "O2", "cover"}, what)
    # ---- evaluated: leaves of the per-class lemma that loss-freedom rests on
    res = check_classes(live, mm, decls)
    n1, d1 = _tables.report(run, res, ["class-exists", "class-hook", "attr-for-prop", "wire-name", "annotation", "special"])
    # ---- evaluated: every type alias is usable as a root type
    n2 = d2 = 0
    conv = live.converter
    for name, a in mm.aliases.items():
        n2 += 1
        obj = getattr(live.types, name, None)
        fr = has_forward_ref(obj) if obj is not None else "missing"
        j = mm.witness(a["type"], True)
        err = None
        try:
            back = conv.unstructure(conv.structure(j, obj))
            loss = json_diff(mm.norm(a["type"], j), back)
            if loss:
                err = f"round trip loses: {loss}"
        except Exception as e:  # noqa
            err = f"{type(e).__name__}: {str(e)[:200]}"
        if err:
            run.violation(f"root:alias:{name}", f"type alias {name} cannot be used as the root type of structure(): {err}" + (f" (alias object still holds the unresolved reference {fr})" if fr else ""), {"input": j, "observed": err, "alias_object": repr(obj)[:300], "replay": f"converter.structure(<input>, lsprotocol.types.{name})"}, True)
        else:
            d2 += 1
    # ---- bounded native sweep at every class root (replay oracle of the whole argument)
    sweep = 0
    for d in decls:
        cls = getattr(live.types, d.pyname, None)
        if cls is None:
            continue
        for j in root_inputs(mm, d, cap=40 if run.tier == "quick" else 200):
            sweep += 1
            try:
                obj = conv.structure(j, cls)
                back = conv.unstructure(obj)
            except Exception as e:  # noqa
                run.violation(f"roundtrip:{d.pyname}:raises", f"a strictly valid {d.pyname} is rejected: {type(e).__name__}: {str(e)[:200]}", {"input": j, "replay": f"converter.structure(<input>, lsprotocol.types.{d.pyname})"}, True)
                break
            loss = json_diff(norm_decl(mm, d, j), back)
            if loss:
                run.violation(f"roundtrip:{d.pyname}:{loss.split(':')[0]}", f"round trip of a valid {d.pyname} is lossy: {loss}", {"input": j, "unstructured": back, "expected": norm_decl(mm, d, j)}, True)
                break
    run.assume(*U.ASSUMPTIONS, "per-class (un)structure functions behave as the cattrs rows of DESIGN 2.4 (assumed; the root sweep exercises them on every class)", "the remaining leaves of the class lemma (defaults, validators, omit rule) are C04 / C10 / C11 obligations")
    return run.finish(
        {
            "obligations": cov["n_ob"] + n1 + n2,
            "discharged": cov["n_dis"] + d1 + d2,
            "checker_cmd": "bin/check C01",
            "trusted_base": ["z3/cvc5", "pyvc + jsonsym encoder", "cattrs/attrs rows (DESIGN 2.4)", "oracle/metamodel.py (valid, norm)"],
            "smt_by_backend": cov["backends"],
            "smt_solver_s": round(ua.solver_s, 2),
            "union_positions": sum(len(s.where) for s in ua.sites),
            "handlers_under_contract": cov["functions"],
            "outside_subset": cov["outside"],
            "table_obligations": n1,
            "alias_roots": n2,
            "bounded_root_sweep_inputs": sweep,
            "cross_check": cov.get("cross_check"),
            "samples": cov["samples"][:6],
            "notes": run.notes,
        }
    )
