"""Shared driver for the properties decided by the generic union-handler contract (C01, C03, C13, C14, C15)."""
from __future__ import annotations

import copy
import itertools
import json
from typing import Any, Dict, Iterable, List, Optional, Set, Tuple

from contracts import hooks_generic as hg
from contracts.jsonsym import NELEMS, OMEGA, type_key
from lib.pylive import Live
from lib.report import Run, ob_sample
from lib.unions import Concretizer, UnionAnalysis, alternatives, object_variants, site_inputs
from oracle.metamodel import MetaModel
from oracle.native import check_union_position, json_diff, json_equal
from pyvc import vc

ASSUMPTIONS = [
    "JSON inputs are what json.loads returns (dict/list/str/int/float/bool/None); no user-defined __contains__/__getitem__/__eq__",
    "'k' in x is a key test on dict, element test on list, substring test on str, TypeError on scalars; x[0]/x['k'] raise on absence (these outcomes are obligations, not ignored)",
    "converter.structure(x, C) for an attrs class C: requires a mapping; reads declared (renamed) keys, ignores others, calls the constructor (cattrs 24.1 make_dict_structure_fn row of DESIGN 2.4; probed, not proved)",
    "arrays are abstracted as two explicit leading elements plus one generic element; objects as presence bits for every key declared by some alternative or probed by the code, plus one bit for 'some undeclared key'",
    "validity of sub-values the handler does not look at is an uninterpreted predicate per (type, position), shared between precondition and obligation",
    "an explicit null at an optional property whose type has no null member is not a metamodel-valid input",
    "cattrs' default disambiguator is represented by the decision list read from its live closure (uniq_attrs_dict / fallback) under the checker's PYTHONHASHSEED; its three-line loop is trusted",
]


def short(handler_name: str) -> str:
    return handler_name.split(".")[-1]


def site_key(res: hg.SiteResult, kind: str, desc: str) -> str:
    return f"union:{short(res.site.handler_name)}@{type_key(res.site.tau)}:{kind}:{desc}"


# ---------------------------------------------------------------------------------------------
# concrete input family of a site (replay search + CPython differential)
# ---------------------------------------------------------------------------------------------


def strip_undeclared(mm: MetaModel, tau: Dict, j: Any) -> Any:
    """Remove keys no alternative declares (used for O3 replays)."""
    if isinstance(j, dict):
        declared: Set[str] = set()
        child_types: Dict[str, List[Dict]] = {}
        anyobj = False
        for alt in alternatives(mm, tau):
            a = mm.resolve_alias(alt)
            props = None
            if a["kind"] == "reference" and a["name"] in mm.structures:
                props = mm.flatten(a["name"])
            elif a["kind"] == "literal":
                props = mm.literal_props(a)
            elif a["kind"] in ("map",) or (a["kind"] == "reference" and a["name"] in ("LSPAny", "LSPObject")):
                anyobj = True
            if props is not None:
                for p in props:
                    declared.add(p["name"])
                    child_types.setdefault(p["name"], []).append(p["type"])
        if anyobj:
            return j
        out = {}
        for k, v in j.items():
            if k in declared:
                ct = child_types[k]
                out[k] = strip_undeclared(mm, ct[0] if len(ct) == 1 else {"kind": "or", "items": ct}, v)
        return out
    if isinstance(j, list):
        eps = hg.array_element_type(mm, tau)
        if eps is None:
            return j
        return [strip_undeclared(mm, eps, x) for x in j]
    return j


# ---------------------------------------------------------------------------------------------
# replay of one failed site obligation
# ---------------------------------------------------------------------------------------------


def replay_failed(live: Live, mm: MetaModel, res: hg.SiteResult, ob: vc.Obligation, success_only: bool = False) -> Tuple[bool, Dict[str, Any]]:
    site = res.site
    kind = ob.kind
    detail: Dict[str, Any] = {
        "handler": site.handler_name,
        "source": res.source,
        "use_sites": site.where[:6],
        "union_type": str(site.annotation)[:300],
        "obligation_kind": kind,
        "path_outcome": ob.meta.get("impl"),
        "static_reasons": ob.meta.get("static"),
        "replay": "lsprotocol.converters.get_converter().structure(<input>, <union_type>) then unstructure; compared with oracle.metamodel (valid / norm)",
    }
    model = ob.model or {}
    con = Concretizer(mm, res, model)
    try:
        j = con.value("j")
    except Exception as e:  # noqa
        j = None
        detail["concretisation_error"] = repr(e)
    cands: List[Tuple[str, Any, Any]] = []
    if kind == "O3":
        prim = Concretizer(mm, res, {**model, **{k[:-2] + "|": v for k, v in model.items() if k.endswith("′|")}})
        try:
            j2 = prim.value("j")
        except Exception:
            j2 = None
        cands.append(("solver model", j, j2))
    else:
        cands.append(("solver model", j, None))

    def judge(jv, jv2) -> Optional[Dict[str, Any]]:
        out = check_union_position(live, mm, site.annotation, site.tau, jv)
        if kind == "O3":
            base = jv2 if jv2 is not None else strip_undeclared(mm, site.tau, jv)
            if json_equal(base, jv):
                return None
            if not mm.valid(site.tau, base, True) or not mm.valid(site.tau, jv, False):
                return None
            out2 = check_union_position(live, mm, site.annotation, site.tau, base)
            if ("raised" in out) != ("raised" in out2) or out.get("result_type") != out2.get("result_type") or not json_equal(out.get("unstructured"), out2.get("unstructured")):
                return {"input_with_extras": jv, "input_without_extras": base, "with_extras": _brief(out), "without_extras": _brief(out2)}
            return None
        if kind == "O4":
            if not mm.valid(site.tau, jv, False) and "raised" not in out:
                return {"input": jv, "observed": f"accepted as {out.get('unstructured')!r}", "expected": "structuring raises: the value is not a member of the closed enumeration and matches no other alternative"}
            return None
        if not out["valid_strict"]:
            return None
        if kind == "O0" and "raised" in out:
            return {"input": jv, "observed": out["raised"], "expected": "structuring succeeds (input is strictly valid for the union)"}
        if kind == "O1" and success_only and "raised" in out:
            return None  # the property speaks about successful structuring only
        if kind == "O1" and ("raised" in out or out.get("reading_problem")):
            return {"input": jv, "observed": out.get("raised") or out.get("reading_problem"), "result_shape": out.get("result_type"), "expected": "an instance of an alternative for which the input is valid"}
        if kind == "O2" and ("raised" in out or out.get("loss") or out.get("reading_problem")):
            return {"input": jv, "observed": out.get("raised") or out.get("loss") or out.get("reading_problem"), "unstructured": out.get("unstructured"), "expected_normal_form": out.get("normal_form")}
        return None

    for how, jv, jv2 in cands:
        try:
            w = judge(jv, jv2)
        except Exception as e:  # noqa
            detail["replay_error"] = repr(e)
            w = None
        if w:
            detail.update(w)
            detail["found_by"] = how
            return True, detail
    detail["solver_model_input"] = j
    if con.unrealised:
        detail["unrealised_positions"] = con.unrealised
    # native search over the site's input family
    fam = site_inputs(mm, site.tau)
    if kind == "O4":
        fam = [4242, -7, 0, 1, 99, "x-not-a-member", "", "UPPER"]
    tried = 0
    for jv in fam:
        variants = [jv]
        if kind == "O3":
            variants = add_extras(jv)
        for v in variants:
            tried += 1
            try:
                w = judge(v, None)
            except Exception:
                w = None
            if w:
                detail.update(w)
                detail["found_by"] = f"native search over the site's input family ({tried} inputs tried) after the solver model did not reproduce"
                return True, detail
    detail["native_search_inputs"] = tried
    return False, detail


def add_extras(j: Any) -> List[Any]:
    """Variants of j with an undeclared key added at the root object / at each element."""
    out = []
    for key, payload in (("xVerifUndeclared", {"a": [1, None]}), ("id", "x"), ("kind", "zzz"), ("command", 1), ("notebook", "n")):
        if isinstance(j, dict) and key not in j:
            v = dict(j)
            v[key] = payload
            out.append(v)
        if isinstance(j, list) and j and isinstance(j[0], dict) and key not in j[0]:
            v = copy.deepcopy(j)
            v[0][key] = payload
            out.append(v)
            if len(j) > 1 and isinstance(j[-1], dict):
                v = copy.deepcopy(j)
                v[-1][key] = payload
                out.append(v)
    return out


def _brief(out: Dict[str, Any]) -> Dict[str, Any]:
    return {k: out.get(k) for k in ("raised", "result_type", "unstructured") if out.get(k) is not None}


# ---------------------------------------------------------------------------------------------
# reporting of a UnionAnalysis for one property
# ---------------------------------------------------------------------------------------------


def report_unions(run: Run, live: Live, mm: MetaModel, ua: UnionAnalysis, kinds: Set[str], what_for: Dict[str, str], success_only: bool = False) -> Dict[str, Any]:
    """kinds ⊆ {'missing','O0','O1','O2','O3','cover'}; returns coverage counters."""
    n_ob = n_dis = 0
    backends: Dict[str, int] = {}
    samples: List[Dict[str, Any]] = []
    functions: List[str] = []
    outside: List[str] = []
    for p in ua.problems:
        run.undecide(f"site discovery: {p}")
    if "missing" in kinds:
        for s in ua.sites:
            n_ob += 1
            if s.handler_kind == "missing":
                j = None
                try:
                    fam = site_inputs(mm, s.tau)
                    j = next((x for x in fam if x is not None), None)
                    out = check_union_position(live, mm, s.annotation, s.tau, j)
                except Exception as e:  # noqa
                    out = {"error": repr(e)}
                run.violation(
                    f"union:dispatch:{s.where[0]}",
                    f"no parsing support for the union at {', '.join(s.where[:3])}: {s.error}",
                    {"use_sites": s.where, "union_type": str(s.annotation), "input": j, "observed": out.get("raised") or out, "replay": "converter.structure(<input>, <union_type>)"},
                    failing_input_found="raised" in out,
                )
            else:
                n_dis += 1
    for s in ua.native_unknown():
        run.undecide(f"union at {s.where[0]} is handled by an unmodelled cattrs handler {s.handler_kind}")
    for res in ua.results:
        functions.append(f"{res.label}  [{res.source}]  sites={len(res.site.where)}")
        if res.unsupported:
            outside.append(f"{res.label}: {res.unsupported}")
            bounded_site(run, live, mm, res, kinds, success_only)
            continue
        reach = [o for o in res.obligations if o.kind == "reach"]
        if reach and not any(o.answer == "sat" for o in reach):
            run.crash(f"{res.label}: no path is reachable under the precondition (vacuous)")
        done: Set[str] = set()
        for o in res.obligations:
            if o.kind not in kinds or o.kind == "reach":
                continue
            if o.kind == "cover":
                if o.answer != "sat":
                    run.crash(f"{o.name}: alternative unsatisfiable as a precondition ({o.answer})")
                continue
            n_ob += 1
            if o.answer == "unsat":
                n_dis += 1
                backends[o.backend] = backends.get(o.backend, 0) + 1
                if len(samples) < 10 and o.kind in ("O1", "O2") and o.meta["path"] in {r.meta["path"] for r in reach if r.answer == "sat"} and not any(s["name"].split(":path")[0] == o.name.split(":path")[0] for s in samples):
                    samples.append(ob_sample(o))
                continue
            if o.answer != "sat":
                run.undecide(f"{o.name}: solver answered {o.answer}")
                continue
            desc = o.meta.get("impl", "")
            key = site_key(res, o.kind, desc)
            if key in done:
                continue
            done.add(key)
            found, detail = replay_failed(live, mm, res, o, success_only)
            if success_only and o.kind == "O1" and not found:
                # O1 is generated under the assumption that converter.structure(x, C) returns; here every concrete witness makes
                # the real structuring raise, so nothing ill-typed is ever returned: not this property's subject (C01 / C14 report it)
                n_ob -= 1
                run.notes.append(f"{o.name}: refuted under the assumption that the nested converter.structure call returns, but structuring raises on every witness tried ({detail.get('native_search_inputs', 0)} inputs): outside a property about successful structuring")
                continue
            detail["solver"] = o.backend
            detail["solver_output"] = (o.solver_output or "")[-1500:]
            detail["obligation_name"] = o.name
            what = what_for.get(o.kind, o.kind) + f" — handler {short(res.site.handler_name)} at {res.site.where[0]}: {desc}"
            if found and detail.get("observed"):
                what += f"; observed: {str(detail['observed'])[:160]}"
            run.violation(key, what, detail, failing_input_found=found)
    for d in (ua.cross or {}).get("disagree", []):
        run.crash(f"solver disagreement: {d}")
    return {"n_ob": n_ob, "n_dis": n_dis, "backends": backends, "samples": samples, "functions": functions, "outside": outside, "cross_check": ua.cross}


def bounded_site(run: Run, live: Live, mm: MetaModel, res: hg.SiteResult, kinds: Set[str], success_only: bool = False):
    """Stand-in for a handler outside the verified subset: native evaluation of the contract on the site's input family."""
    site = res.site
    fam = site_inputs(mm, site.tau)
    n = 0
    for jv in fam:
        variants = [jv] + (add_extras(jv) if "O3" in kinds else [])
        for v in variants:
            n += 1
            try:
                out = check_union_position(live, mm, site.annotation, site.tau, v)
            except Exception as e:  # noqa
                continue
            if v is jv and out["valid_strict"]:
                bad = None
                if "raised" in out and ("O0" in kinds or ("O1" in kinds and not success_only)):
                    bad = ("O0", out["raised"])
                elif out.get("reading_problem") and "O1" in kinds:
                    bad = ("O1", out["reading_problem"])
                elif out.get("loss") and "O2" in kinds:
                    bad = ("O2", out["loss"])
                if bad:
                    run.violation(
                        site_key(res, bad[0], "bounded"),
                        f"{short(site.handler_name)} at {site.where[0]}: {bad[1]}",
                        {"input": v, "observed": bad[1], "bounded": True, "note": f"handler is outside the verified subset ({res.unsupported}); bounded native family stands in", "use_sites": site.where[:6]},
                        True,
                    )
                    return
            elif v is not jv and "O3" in kinds:
                base = strip_undeclared(mm, site.tau, v)
                if mm.valid(site.tau, base, True):
                    out2 = check_union_position(live, mm, site.annotation, site.tau, base)
                    if ("raised" in out) != ("raised" in out2) or not json_equal(out.get("unstructured"), out2.get("unstructured")):
                        run.violation(site_key(res, "O3", "bounded"), f"{short(site.handler_name)} at {site.where[0]}: undeclared key changes the result", {"input_with_extras": v, "input_without_extras": base, "with_extras": _brief(out), "without_extras": _brief(out2), "bounded": True}, True)
                        return
    run.notes.append(f"{res.label}: outside verified subset ({res.unsupported}); bounded native family of {n} inputs stands in")
