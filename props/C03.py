"""C03 — structured results are well-typed instances of the declared classes."""
from __future__ import annotations

from typing import Any, Dict, List

from lib.pylive import Live
from lib.report import Run
from lib.sweeps import root_inputs
from lib.tables import check_classes
from lib.unions import UnionAnalysis
from oracle.metamodel import MetaModel
from oracle.pairing import all_class_decls
from oracle.pytypes import typed_problem
from props import _tables
from props import _unions as U


def main(argv: List[str]) -> int:
    run = Run("C03", "proof", argv)
    live = Live()
    mm = MetaModel.load()
    decls = all_class_decls(mm)
    ua = UnionAnalysis(live, mm)
    what = {
        "O1": "at a union position the result is not an instance of an alternative for which the input is valid (raw dict / wrong class)",
    }
    # C03 speaks about successful structuring only: a missing handler or a handler that raises is C01 / C14's subject
    cov = U.report_unions(run, live, mm, ua, {"O1"}, what, success_only=True)
    res = check_classes(live, mm, decls)
    n1, d1 = _tables.report(run, res, ["class-exists", "attr-for-prop", "annotation"])
    # bounded native sweep: typedness walk over the object graph of every class root
    conv = live.converter
    sweep = 0
    for d in decls:
        cls = getattr(live.types, d.pyname, None)
        if cls is None:
            continue
        for j in root_inputs(mm, d, cap=40 if run.tier == "quick" else 200):
            sweep += 1
            try:
                obj = conv.structure(j, cls)
            except Exception:
                continue  # rejection of valid input is C01/C14's subject
            pr = typed_problem(live, cls, obj)
            if pr:
                run.violation(f"typed:{d.pyname}:{pr.split(':')[0]}", f"structuring a valid {d.pyname} yields an ill-typed object graph: {pr}", {"input": j, "replay": f"converter.structure(<input>, lsprotocol.types.{d.pyname}) then the isinstance walk of oracle/pytypes.typed_problem"}, True)
                break
    # ---- "an instance of the requested class" also when the requested class is a user subclass of a generated class
    from lib.sweeps import subclass_probe

    sub_n = 0
    for pr in subclass_probe(live, mm, decls):
        sub_n += 1
        if pr["kind"] in ("type", "raises") and sub_n <= 12:
            run.violation(f"subclass:{pr['class']}:{pr['kind']}", pr["detail"], {"input": pr["input"], "replay": f"Sub = type('{pr['class']}', (lsprotocol.types.{pr['class']},), {{}}); converter.structure(<input>, Sub)"}, True)
    run.assume(*U.ASSUMPTIONS, "typedness of non-union positions follows from the annotation facet (annotation = mapping of the metamodel type, no unresolved reference) and the cattrs rows; the sweep exercises it on every class")
    return run.finish(
        {
            "obligations": cov["n_ob"] + n1,
            "discharged": cov["n_dis"] + d1,
            "checker_cmd": "bin/check C03",
            "trusted_base": ["z3/cvc5", "pyvc + jsonsym encoder", "cattrs/attrs rows (DESIGN 2.4)", "oracle (valid, typed)"],
            "smt_by_backend": cov["backends"],
            "handlers_under_contract": cov["functions"],
            "outside_subset": cov["outside"],
            "table_obligations": n1,
            "bounded_root_sweep_inputs": sweep,
            "cross_check": cov.get("cross_check"),
            "samples": cov["samples"][:6],
            "notes": run.notes,
        }
    )
