"""Run the generic union-handler contract over every union position; concretise and replay counterexamples."""
from __future__ import annotations

import concurrent.futures as cf
import itertools
import json
import time
from typing import Any, Dict, List, Optional, Tuple

from contracts import hooks_generic as hg
from contracts.jsonsym import NELEMS, OMEGA, Site, Validity, type_key
from oracle.metamodel import MetaModel
from oracle.pairing import all_class_decls
from pyvc import vc
from pyvc.vc import Obligation


def alternatives(mm: MetaModel, tau: Dict, depth: int = 0) -> List[Dict]:
    t = tau
    if t["kind"] == "reference" and t["name"] in mm.aliases and t["name"] not in ("LSPAny", "LSPObject", "LSPArray") and depth < 8:
        return alternatives(mm, mm.aliases[t["name"]]["type"], depth + 1)
    if t["kind"] == "or":
        out = []
        for it in t["items"]:
            out.extend(alternatives(mm, it, depth + 1))
        return out
    return [t]


def _custom_enum_variants(mm: MetaModel, t: Dict, depth: int = 0) -> List[Any]:
    k = t["kind"]
    if depth > 4:
        return []
    if k == "reference":
        n = t["name"]
        if n in mm.enumerations and mm.is_open_enum(n):
            e = mm.enumerations[n]
            vals = [v["value"] for v in e["values"]]
            cands = ["x-custom-value"] if e["type"]["name"] == "string" else [7, 4242]
            return [c for c in cands if c not in vals][:1]
        if n in mm.aliases and n not in ("LSPAny", "LSPObject", "LSPArray"):
            return _custom_enum_variants(mm, mm.aliases[n]["type"], depth + 1)
        return []
    if k == "array":
        return [[x] for x in _custom_enum_variants(mm, t["element"], depth + 1)]
    if k == "or":
        out: List[Any] = []
        for it in t["items"]:
            out.extend(_custom_enum_variants(mm, it, depth + 1))
        return out[:1]
    return []


def object_variants(mm: MetaModel, t: Dict) -> List[Any]:
    """minimal, maximal, minimal + each single optional property."""
    out = [mm.witness(t, False), mm.witness(t, True)]
    tt = t
    props = None
    if tt["kind"] == "reference" and tt["name"] in mm.structures:
        props = mm.flatten(tt["name"])
    elif tt["kind"] == "literal":
        props = mm.literal_props(tt)
    if props:
        base = mm.witness(t, False)
        for p in props:
            if p.get("optional"):
                for mx in (False, True):
                    v = dict(base)
                    v[p["name"]] = mm.witness(p["type"], mx, 1)
                    out.append(v)
            # a custom value at every open-enumeration position of the property
            for cv_ in _custom_enum_variants(mm, p["type"]):
                v = dict(base)
                v[p["name"]] = cv_
                out.append(v)
            # each alternative of a union-typed property (required ones too)
            alts = alternatives(mm, p["type"])
            if len(alts) > 1:
                for alt in alts[:6]:
                    if alt["kind"] == "base" and alt["name"] == "null" and not mm.null_admitting(p["type"]):
                        continue
                    v = dict(base)
                    v[p["name"]] = mm.witness(alt, False, 1)
                    out.append(v)
    return out


ADVERSARIAL_STRINGS = ["", "42", "10", "0", "-1", "1.5", "true", "null", "[1, 2]", "{}", "kind", "a kind of value", "language", "location", "uri", "\u0663\u0664", "ab"]


def site_inputs(mm: MetaModel, tau: Dict, cap: int = 400) -> List[Any]:
    out: List[Any] = []
    alts = alternatives(mm, tau)
    elems_by_alt: List[List[Any]] = []
    for alt in alts:
        a = mm.resolve_alias(alt)
        if a["kind"] == "array":
            ev = []
            for ealt in alternatives(mm, a["element"]):
                ev.extend(object_variants(mm, ealt)[:8] if mm.resolve_alias(ealt)["kind"] in ("reference", "literal") else [mm.witness(ealt, False), mm.witness(ealt, True)])
            elems_by_alt.append(ev)
            out.append([])
            for e in ev[:10]:
                out.append([e])
            for e1, e2 in itertools.islice(itertools.permutations(ev[:8], 2), 60):
                out.append([e1, e2])
            for e1, e2, e3 in itertools.islice(itertools.permutations(ev[:5], 3), 30):
                out.append([e1, e2, e3])
        elif a["kind"] in ("reference", "literal") and (a["kind"] == "literal" or a["name"] in mm.structures):
            out.extend(object_variants(mm, a))
        elif a["kind"] == "reference" and a["name"] in mm.enumerations:
            vals = [v["value"] for v in mm.enumerations[a["name"]]["values"]]
            out.extend(vals[:4])
            if mm.is_open_enum(a["name"]):
                out.append("x-custom-value" if isinstance(vals[0], str) else 4242)
        else:
            for mx in (False, True):
                for variant in (0, 1):
                    try:
                        out.append(mm.witness(a, mx, 0, variant))
                    except Exception:
                        pass
    # de-duplicate
    seen = set()
    uniq = []
    for j in out:
        k = json.dumps(j, sort_keys=True, default=str)
        if k not in seen:
            seen.add(k)
            uniq.append(j)
    uniq = uniq[:cap]
    # where the union admits a plain string: strings that LOOK like its other alternatives (digits, JSON spellings, key names) and the
    # empty string - a hook that unpacks, indexes or searches its input must not mistake them
    if any(mm.resolve_alias(a)["kind"] == "base" and mm.resolve_alias(a)["name"] in ("string", "DocumentUri", "URI", "RegExp") for a in alts) or any(
        mm.resolve_alias(a)["kind"] == "reference" and mm.resolve_alias(a)["name"] in mm.enumerations and mm.is_open_enum(mm.resolve_alias(a)["name"]) and isinstance(mm.enumerations[mm.resolve_alias(a)["name"]]["values"][0]["value"], str) for a in alts
    ):
        uniq += [s_ for s_ in ADVERSARIAL_STRINGS if s_ not in uniq]
    from lib.sweeps import reverse_keys

    # the same objects with their members in the opposite order (a discriminator must not depend on the order the sender chose)
    rev = [reverse_keys(j) for j in uniq if isinstance(j, dict) and len(j) > 1][:12]
    rev += [[reverse_keys(e) for e in j] for j in uniq if isinstance(j, list) and j and all(isinstance(e, dict) and len(e) > 1 for e in j)][:6]
    return uniq + rev



class UnionAnalysis:
    def __init__(self, live, mm: MetaModel, solve: bool = True, timeout_ms: int = 10000, solvers=("z3", "cvc5"), cross: bool = False):
        self.live, self.mm = live, mm
        t0 = time.time()
        self.decls = all_class_decls(mm)
        self.decl_by_name = {d.pyname: d for d in self.decls}
        self.sites, self.problems = hg.discover_sites(live, mm, self.decls)
        self.world = hg.build_hook_world(live)
        self.sources = hg.HookSources()
        self.results: List[hg.SiteResult] = []
        for s in self.sites:
            if s.handler_kind in ("hook", "default_dis"):
                self.results.append(hg.verify_site(live, mm, self.world, self.sources, self.decl_by_name, s))
        self.symex_s = time.time() - t0
        self.solver_s = 0.0
        self.cross: Dict[str, Any] = {}
        if solve:
            t1 = time.time()
            with cf.ThreadPoolExecutor(max_workers=12) as ex:
                list(ex.map(lambda r: vc.solve(self.world, r.obligations, solvers=solvers, timeout_ms=timeout_ms) if r.obligations else 0.0, self.results))
            self.solver_s = time.time() - t1
            import os as _os

            if _os.environ.get("VERIF_TIER") == "thorough" or cross:
                t2 = time.time()

                def xc(r):
                    return vc.cross_check(self.world, r.obligations, "cvc5", timeout_ms) if r.obligations else (0, [], 0.0)

                with cf.ThreadPoolExecutor(max_workers=12) as ex:
                    res = list(ex.map(xc, self.results))
                self.cross = {"solver": "cvc5", "agree": sum(a for a, d, t in res), "disagree": [x for a, d, t in res for x in d], "wall_s": round(time.time() - t2, 1)}

    def missing(self) -> List[hg.UnionSite]:
        return [s for s in self.sites if s.handler_kind == "missing"]

    def native_unknown(self) -> List[hg.UnionSite]:
        return [s for s in self.sites if s.handler_kind.startswith("native:")]


# ---------------------------------------------------------------------------------------------
# concretisation of a probe-tree model into JSON
# ---------------------------------------------------------------------------------------------


class Concretizer:
    def __init__(self, mm: MetaModel, res: hg.SiteResult, model: Dict[str, Any]):
        self.mm, self.res, self.model = mm, res, model
        self.sym: Site = res.sym
        self.val: Validity = res.validity
        self.unrealised: List[str] = []

    def g(self, name: str, default=None):
        return self.model.get("|" + name + "|", default)

    def atoms_at(self, p: str) -> List[Tuple[Dict, bool, bool]]:
        out = []
        for name, (t, ap, strict) in self.val.atom_types.items():
            if ap == p:
                v = self.model.get(name)
                if v is not None:
                    out.append((t, strict, bool(v)))
        return out

    def value(self, p: str, depth: int = 0) -> Any:
        tag = self.g(f"tag {p}")
        atoms = self.atoms_at(p)
        if atoms and not self.sym.is_touched_or_ancestor(p):
            return self.from_atoms(p, atoms, tag)
        if tag is None:
            if atoms:
                return self.from_atoms(p, atoms, tag)
            return None
        if tag == 0:
            return None
        if tag == 1:
            return bool(self.g(f"b {p}", False))
        if tag == 2:
            return int(self.g(f"i {p}", 0))
        if tag == 3:
            r = self.g(f"r {p}", 0.5)
            r = float(r)
            return r if r != int(r) else r + 0.5
        if tag == 4:
            return str(self.g(f"s {p}", ""))
        if tag == 5:
            n = self.g(f"len {p}", 0)
            n = max(0, min(int(n), NELEMS + 2))
            wit = p in getattr(self.sym, "witness_arrays", set())
            if wit and n > NELEMS:
                n = NELEMS + 2  # [e0, e1, generic, witness]: the path condition only says len > NELEMS
            out = []
            for i in range(n):
                which = i if i < NELEMS else ("w" if wit and i == n - 1 else "*")
                out.append(self.value(self.sym.elem(p, which), depth + 1))
            return out
        if tag == 6:
            if atoms and not self.sym.keys.get(p):
                return self.from_atoms(p, atoms, tag)
            out = {}
            for k in sorted(self.sym.keys.get(p, ())):
                if self.g(f"has {p} :: {k}", False):
                    if k == OMEGA:
                        out["xVerifUndeclared"] = {"any": 1}
                    else:
                        out[k] = self.value(self.sym.child(p, k), depth + 1)
            return out
        return None

    def from_atoms(self, p: str, atoms, tag) -> Any:
        """A concrete value realising the truth assignment of the validity atoms at p (best effort)."""
        want_true = [(t, s) for t, s, v in atoms if v]
        want_false = [(t, s) for t, s, v in atoms if not v]
        cands: List[Any] = []
        for t, _s in want_true:
            try:
                cands.extend(site_inputs(self.mm, t, cap=120))
            except Exception:
                pass
            for mx in (False, True):
                for variant in (0, 1, 2):
                    try:
                        cands.append(self.mm.witness(t, mx, 0, variant))
                    except Exception:
                        pass
        if not want_true:
            cands = [None, True, 1, "s", [], {}, {"xVerifUndeclared": 1}]
            tagmap = {0: None, 1: True, 2: 1, 3: 1.5, 4: "s", 5: [], 6: {}}
            if tag in tagmap:
                cands.insert(0, tagmap[tag])
        for c in cands:
            if all(self.mm.valid(t, c, True) for t, s in want_true) and not any(self.mm.valid(t, c, s) for t, s in want_false):
                return c
        for c in cands:
            if all(self.mm.valid(t, c, s) for t, s in want_true):
                self.unrealised.append(p)
                return c
        self.unrealised.append(p)
        return cands[0] if cands else None


# ---------------------------------------------------------------------------------------------
# encoder-vs-CPython differential: the path the encoding predicts for a concrete input must be the one the real
# handler takes (DESIGN 2.6).  A disagreement is an encoder bug (exit 3), never a violation of a property.
# ---------------------------------------------------------------------------------------------


def _node(j: Any, path: str):
    """Value at a probe-tree path ('j', '.key', '[0]', '[1]', '[*]', '[w]'); KeyError if absent."""
    cur = j
    rest = path[1:]
    while rest:
        if rest.startswith("["):
            end = rest.index("]")
            k = rest[1:end]
            rest = rest[end + 1 :]
            if not isinstance(cur, list):
                raise KeyError(path)
            idx = int(k) if k.isdigit() else 2
            if idx >= len(cur):
                raise KeyError(path)
            cur = cur[idx]
        elif rest.startswith("."):
            m = 1
            while m < len(rest) and rest[m] not in ".[":
                m += 1
            key = rest[1:m]
            rest = rest[m:]
            if not isinstance(cur, dict) or key not in cur:
                raise KeyError(path)
            cur = cur[key]
        else:
            raise KeyError(path)
    return cur


def assignment(sym: Site, j: Any, declared_keys: Dict[str, set]) -> Dict[str, Any]:
    env: Dict[str, Any] = {}
    for name in sym.decls:
        body = name[1:-1]
        kind, _, rest = body.partition(" ")
        try:
            if kind == "has":
                p, key = rest.split(" :: ", 1)
                node = _node(j, p)
                if isinstance(node, dict):
                    env[name] = (any(k not in declared_keys.get(p, set()) for k in node)) if key == OMEGA else (key in node)
                continue
            if kind in ("valid!", "valid?", "mapvalues!", "mapvalues?", "elemtest", "intparse_ok", "intparse", "pystr"):
                continue
            node = _node(j, rest)
        except KeyError:
            continue
        if kind == "tag":
            env[name] = 0 if node is None else 1 if isinstance(node, bool) else 2 if isinstance(node, int) else 3 if isinstance(node, float) else 4 if isinstance(node, str) else 5 if isinstance(node, list) else 6
        elif kind == "b" and isinstance(node, bool):
            env[name] = node
        elif kind == "i" and isinstance(node, int) and not isinstance(node, bool):
            env[name] = node
        elif kind == "r" and isinstance(node, float):
            env[name] = node
        elif kind == "s" and isinstance(node, str):
            env[name] = node
        elif kind == "len" and isinstance(node, list):
            env[name] = len(node)
        elif kind == "nonempty" and isinstance(node, dict):
            env[name] = len(node) > 0
        elif kind == "nkeys" and isinstance(node, dict):
            env[name] = len(node)
    return env


def _form_pred(r, j) -> str:
    from contracts.jsonsym import VJson, VJsonMapped, VStructured
    from pyvc.symex import VInt, VList, VNone, VStr, VTuple

    if r is None or isinstance(r, VNone):
        return "None"
    if isinstance(r, (VJson, VStr, VInt)):
        return "pass"
    if isinstance(r, VStructured):
        return r.cls
    if isinstance(r, VJsonMapped):
        n = len(j) if isinstance(j, list) else 0
        return "[" + ",".join(_form_pred(r.items[min(i, NELEMS)], j[i]) for i in range(n)) + "]"
    if isinstance(r, (VList, VTuple)):
        if not r.items:
            return "[]"
        return "(" + ",".join("pass" for _ in r.items) + ")"
    return "?"


def _form_native(live, obj, j) -> str:
    if obj is j and not isinstance(obj, (list, tuple)) or (obj is j and isinstance(obj, list) and not obj and False):
        return "pass"
    if obj is j:
        return "pass"
    if obj is None:
        return "None"
    if live.attrs.has(type(obj)):
        return type(obj).__name__
    import enum as _enum

    if isinstance(obj, _enum.Enum):
        return type(obj).__name__
    if isinstance(obj, list):
        if not obj:
            return "[]"
        return "[" + ",".join(_form_native(live, x, y) for x, y in zip(obj, j)) + "]"
    if isinstance(obj, tuple):
        return "(" + ",".join("pass" for _ in obj) + ")"
    return "pass"


def differential(live, mm: MetaModel, res, inputs: List[Any]) -> Tuple[int, List[Dict[str, Any]]]:
    from pyvc import evalterm

    sym = res.sym
    paths = res.extra.get("paths_full") or []
    if not paths or sym is None:
        return 0, []
    shadow_keys = {p: set(ks) for p, ks in sym.keys.items()}
    n = 0
    bad: List[Dict[str, Any]] = []
    for j in inputs:
        if isinstance(j, list) and len(j) > NELEMS + 1:
            continue
        env = assignment(sym, j, shadow_keys)
        preds = []
        unknown = False
        for pc, out, r in paths:
            h = evalterm.holds([sym.resolve(t) for t in pc], env)
            if h is None:
                unknown = True
            if h:
                preds.append("raise" if out[0] == "raise" else _form_pred(r, j))
        if unknown and not preds:
            continue
        try:
            obj = res.site.handler(j, res.site.annotation)
            nat = _form_native(live, obj, j)
        except Exception as e:  # noqa
            nat = "raise"
        def canon(f):
            if j is None and f in ("pass", "None"):
                return "None"
            if isinstance(j, list) and not j and f in ("pass", "[]"):
                return "[]"
            return f

        preds = [canon(p) for p in preds]
        nat = canon(nat)
        n += 1
        # downstream rejection (structure of the chosen class raises) is not the handler's path: compare the choice only
        ok = nat in preds or (nat == "raise" and any(p not in ("pass", "None", "[]") for p in preds)) or (not preds and unknown)
        if preds and len(set(preds)) > 1 and nat != "raise" and not getattr(sym, "key_order_nondet", False):
            ok = ok and False
        if ok and getattr(sym, "key_order_nondet", False) and isinstance(j, dict) and len(j) > 1:
            # the encoding says the outcome may depend on the order of the keys in the payload: the other order must be predicted as well
            jr = dict(reversed(list(j.items())))
            try:
                nat_r = canon(_form_native(live, res.site.handler(jr, res.site.annotation), jr))
            except Exception:  # noqa
                nat_r = "raise"
            ok = nat_r in preds or (nat_r == "raise" and any(p not in ("pass", "None", "[]") for p in preds))
        if not ok:
            bad.append({"handler": res.site.handler_name, "input": j, "predicted": sorted(set(preds)), "native": nat})
    return n, bad
