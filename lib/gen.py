"""Running the generator of /repo's working tree into scratch directories (outside /repo and /verif)."""
from __future__ import annotations

import os
import shutil
import subprocess
import sys
import tempfile
import time
from typing import Dict, List, Optional, Tuple

REPO = os.environ.get("VERIF_REPO", "/repo")
PY = "/venv/bin/python"
RUSTFMT = shutil.which("rustfmt") or "/root/.cargo/bin/rustfmt"


def scratch(prefix: str = "verif-gen-") -> str:
    return tempfile.mkdtemp(prefix=prefix, dir=os.environ.get("VERIF_SCRATCH", "/tmp"))


# a process whose default text encoding is not UTF-8 (a C / POSIX locale without UTF-8 mode; Windows code pages behave alike): every open()
# without an explicit encoding reads / writes ASCII there
ASCII_LOCALE_ENV = {"LC_ALL": "C", "LANG": "C", "LANGUAGE": "C", "PYTHONUTF8": "0", "PYTHONCOERCECLOCALE": "0", "PYTHONIOENCODING": "utf-8"}


def run_plugin(plugin: str, out_dir: str, models: Optional[List[str]] = None, hashseed: Optional[str] = None, timeout: int = 900, test_dir: Optional[str] = None, repo: str = REPO, optimise: bool = False, ascii_locale: bool = False) -> Tuple[int, str, float]:
    """python -m generator --plugin <plugin> -> (exit status, combined output tail, seconds)."""
    td = test_dir or os.path.join(out_dir, "__tests__")
    os.makedirs(td, exist_ok=True)
    cmd = [PY, "-m", "generator", "--plugin", plugin, "--output-dir", out_dir, "--test-dir", td]
    if models:
        cmd += ["--model"] + models
    env = dict(os.environ)
    env["PYTHONPATH"] = repo
    env["PYTHONDONTWRITEBYTECODE"] = "1"
    if optimise:
        env["PYTHONOPTIMIZE"] = "1"  # python -O: assert statements are compiled away
    if ascii_locale:
        env.update(ASCII_LOCALE_ENV)
    if hashseed is not None:
        env["PYTHONHASHSEED"] = str(hashseed)
    else:
        env.pop("PYTHONHASHSEED", None)
    t0 = time.time()
    try:
        p = subprocess.run(cmd, cwd=repo, env=env, capture_output=True, text=True, timeout=timeout)
        return p.returncode, (p.stdout + p.stderr)[-3000:], time.time() - t0
    except subprocess.TimeoutExpired:
        return 124, "timeout", time.time() - t0


def tree_digest(root: str, exclude: Tuple[str, ...] = ("__tests__",)) -> Dict[str, str]:
    import hashlib

    out = {}
    for dp, dn, fn in os.walk(root):
        dn[:] = [d for d in dn if d not in exclude]
        for f in fn:
            p = os.path.join(dp, f)
            with open(p, "rb") as fh:
                out[os.path.relpath(p, root)] = hashlib.sha256(fh.read()).hexdigest()
    return out
