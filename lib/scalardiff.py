"""Encoder-vs-CPython differential for scalar functions: the outcome the symbolic paths predict for a concrete
argument tuple (path conditions evaluated under the concrete assignment) must be the outcome of the real function."""
from __future__ import annotations

from typing import Any, Callable, Dict, List, Optional, Tuple

from pyvc import evalterm
from pyvc.symex import VBool, VFloat, VInt, VNone, VNotImpl, VStr, VTuple

TAGS = {"none": 0, "bool": 1, "int": 2, "float": 3, "str": 4, "other": 6}


def predicted(paths_full, env: Dict[str, Any]) -> List[Tuple]:
    """Outcomes of all paths whose (implementation) path condition holds under env; [('unknown',)] if undecidable."""
    out = []
    for pc, impl in paths_full:
        h = evalterm.holds(pc, env)
        if h is None:
            out.append(("unknown",))
        elif h:
            if impl[0] == "raise":
                out.append(("raise", impl[1]))
            else:
                v = impl[1]
                if isinstance(v, VBool):
                    out.append(("return", evalterm.ev(evalterm.parse(v.t), env)))
                elif isinstance(v, VInt):
                    out.append(("return", evalterm.ev(evalterm.parse(v.t), env)))
                elif isinstance(v, VNone):
                    out.append(("return", None))
                elif isinstance(v, VNotImpl):
                    out.append(("return", NotImplemented))
                elif isinstance(v, VStr):
                    out.append(("return-str", evalterm.ev(evalterm.parse(v.t), env)))
                else:
                    out.append(("return-other",))
    return out


def dyn_env(name: str, value: Any, env: Dict[str, Any], class_ids: Optional[Dict[str, int]] = None, tuple_alts: Optional[List[Any]] = None):
    """Assignment of the symbols of a VDyn / typed parameter `name` for a concrete Python value."""
    if value is None:
        env[f"{name}.tag"] = 0
    elif isinstance(value, bool):
        env[f"{name}.tag"] = 1
        env[f"{name}.b"] = value
    elif isinstance(value, int):
        env[f"{name}.tag"] = 2
        env[f"{name}.i"] = value
    elif isinstance(value, float):
        env[f"{name}.tag"] = 3
        env[f"{name}.r"] = value
    elif isinstance(value, str):
        env[f"{name}.tag"] = 4
        env[f"{name}.s"] = value
    elif isinstance(value, (tuple, list, dict)):
        # containers: a tuple whose shape is one of the modelled ("tuple_of", [...]) alternatives gets that alternative's tag and
        # component symbols; any other container is the opaque alternative of its kind
        alt = None
        if isinstance(value, tuple):
            kinds = ["int" if isinstance(x, int) and not isinstance(x, bool) else "str" if isinstance(x, str) else "?" for x in value]
            for a in tuple_alts or []:
                if a[1] == kinds:
                    alt = a
        if alt is not None:
            import zlib

            env[f"{name}.tag"] = 1000 + zlib.crc32(repr(alt).encode()) % 100000
            for i, x in enumerate(value):
                env[f"{name}.{i}.i" if isinstance(x, int) else f"{name}.{i}.s"] = x
        else:
            env[f"{name}.tag"] = {tuple: 9, list: 7, dict: 8}[type(value)]
            env[f"{name}.oid"] = id(value) % 100000
    else:
        cid = (class_ids or {}).get(type(value).__name__)
        env[f"{name}.tag"] = cid if cid is not None else 6
        env[f"{name}.oid"] = id(value) % 100000
