"""Exhaustive table obligations: live classes of lsprotocol.types versus the metamodel (finite, complete)."""
from __future__ import annotations

import enum
import typing
from dataclasses import dataclass, field
from typing import Any, Dict, Iterable, List, Optional, Set, Tuple

from oracle.metamodel import MetaModel
from oracle.pairing import Decl, all_class_decls
from oracle.pytypes import Unmappable, annotation_matches, contains_anonymous, expected_annotation, has_forward_ref


@dataclass
class Failure:
    facet: str
    key: str
    what: str
    detail: Dict[str, Any] = field(default_factory=dict)


@dataclass
class TableResult:
    obligations: Dict[str, int] = field(default_factory=dict)  # facet -> count
    failures: List[Failure] = field(default_factory=list)
    samples: List[Dict[str, Any]] = field(default_factory=list)

    def ob(self, facet: str, n: int = 1):
        self.obligations[facet] = self.obligations.get(facet, 0) + n

    def fail(self, facet: str, key: str, what: str, **detail):
        self.failures.append(Failure(facet, key, what, detail))

    def count(self, facets: Iterable[str]) -> Tuple[int, int]:
        fs = set(facets)
        n = sum(v for k, v in self.obligations.items() if k in fs)
        f = len([x for x in self.failures if x.facet in fs])
        return n, n - f


ENVELOPE_ALWAYS = {"method", "jsonrpc", "result"}


def expected_special(mm: MetaModel, d: Decl, p: Dict) -> bool:
    """C10's rule: always written iff null-admitting, string literal, or envelope method/jsonrpc/result."""
    if p.get("_envelope"):
        return p["name"] in ENVELOPE_ALWAYS
    return mm.null_admitting(p["type"]) or p["type"]["kind"] == "stringLiteral"


def expected_required(mm: MetaModel, d: Decl, p: Dict) -> bool:
    if p.get("_envelope"):
        if p["name"] in ("method", "jsonrpc", "result"):
            return False
        if p["name"] == "params":
            return not p.get("_absent")
        return True  # id
    return not p.get("optional") and not mm.null_admitting(p["type"]) and p["type"]["kind"] != "stringLiteral"


def literal_class_finder(live, mm: MetaModel):
    """Anonymous literal / and types: any attrs class of the module whose wire names equal the declared property names."""

    cache: Dict[str, Any] = {}

    def find(t: Dict):
        if t["kind"] == "literal":
            names = frozenset(p["name"] for p in t["value"]["properties"])
        elif t["kind"] == "and":
            names = frozenset(p["name"] for p in mm.and_props(t))
        else:
            return None
        hint = t.get("name")
        if hint and hasattr(live.types, hint):
            return getattr(live.types, hint)
        key = ",".join(sorted(names))
        if key in cache:
            return cache[key]
        found = None
        for n in dir(live.types):
            c = getattr(live.types, n)
            if isinstance(c, type) and live.attrs.has(c) and n not in mm.structures:
                wn = frozenset((live.wire_name(c, a.name) or a.name) for a in live.attrs.fields(c))
                if wn == names:
                    found = c
                    break
        cache[key] = found
        return found

    return find


def check_classes(live, mm: MetaModel, decls: Optional[List[Decl]] = None) -> TableResult:
    res = TableResult()
    T = live.types
    attrs = live.attrs
    NOTHING = attrs.NOTHING
    V = live.validators
    litfind = literal_class_finder(live, mm)
    conv = live.converter
    for d in decls or all_class_decls(mm):
        res.ob("class-exists")
        cls = getattr(T, d.pyname, None)
        if cls is None or not isinstance(cls, type) or not attrs.has(cls):
            res.fail("class-exists", f"table:{d.pyname}:exists", f"{d.origin}: no attrs class named {d.pyname} in lsprotocol.types", declaration=d.origin)
            continue
        fields = list(attrs.fields(cls))
        res.ob("class-hook")
        try:
            s_over = getattr(_shook(conv, cls), "overrides", None) or {}
            u_over = getattr(_uhook(conv, cls), "overrides", None) or {}
        except Exception as e:  # noqa  the converter cannot even build the class's (un)structure function
            res.fail("class-hook", f"table:{d.pyname}:converter-hook", f"{d.origin}: the converter cannot build the structure / unstructure function of {d.pyname}: {type(e).__name__}: {str(e)[:200]}", declaration=d.origin, replay=f"get_converter().structure(<any value>, lsprotocol.types.{d.pyname})")
            continue
        by_wire: Dict[str, Any] = {}
        for a in fields:
            res.ob("wire-name")
            so, uo = s_over.get(a.name), u_over.get(a.name)
            sw = so.rename if so is not None and so.rename is not None else (a.name if so is None else a.name)
            uw = uo.rename if uo is not None and uo.rename is not None else a.name
            if sw != uw:
                res.fail("wire-name", f"table:{d.pyname}.{a.name}:wire-name", f"{d.pyname}.{a.name}: parsed from key {sw!r} but written as {uw!r}", structure_key=sw, unstructure_key=uw)
            if uw in by_wire:
                res.fail("wire-name", f"table:{d.pyname}.{a.name}:wire-name", f"{d.pyname}: attributes {by_wire[uw].name} and {a.name} share the wire name {uw!r}")
            by_wire[uw] = a
        declared = {p["name"] for p in d.props}
        for wn, a in by_wire.items():
            res.ob("no-extra-attr")
            if wn not in declared:
                guess = f"(attribute {a.name})"
                res.fail("no-extra-attr", f"table:{d.pyname}.{a.name}:extra", f"{d.pyname} has an attribute with wire name {wn!r} {guess} that {d.origin} does not declare", wire_name=wn, declared=sorted(declared)[:40])
        for p in d.props:
            res.ob("attr-for-prop")
            a = by_wire.get(p["name"])
            if a is None:
                res.fail("attr-for-prop", f"table:{d.pyname}:{p['name']}:missing", f"{d.pyname} has no attribute whose wire name is {p['name']!r} ({d.origin})", wire_names=sorted(by_wire)[:60], property=_brief_type(p))
                continue
            key = f"table:{d.pyname}.{a.name}"
            t = p["type"]
            # ---- required / default
            res.ob("required")
            req = expected_required(mm, d, p)
            has_default = a.default is not NOTHING
            if req == has_default:
                res.fail("required", f"{key}:required", f"{d.pyname}.{a.name}: metamodel says {'required' if req else 'not required'} but the attribute {'has a default' if has_default else 'has no default'}", property=_brief_type(p), default=repr(a.default))
            if not req and has_default:
                res.ob("default")
                want = t["value"] if t["kind"] == "stringLiteral" else None
                if p.get("_envelope") and p["name"] == "jsonrpc":
                    want = "2.0"
                dv = a.default
                if isinstance(dv, attrs.Factory):  # type: ignore
                    dv = "<factory>"
                if dv != want:
                    res.fail("default", f"{key}:default", f"{d.pyname}.{a.name}: default is {dv!r}, expected {want!r}", property=_brief_type(p))
            # ---- special / omit rule (C10): read from the override cattrs actually holds
            res.ob("special")
            sp = expected_special(mm, d, p)
            uo = u_over.get(a.name)
            omit = bool(uo.omit_if_default) if uo is not None else False
            in_table = T.is_special_property(cls, a.name) if hasattr(T, "is_special_property") else None
            if omit == sp:
                res.fail("special", f"{key}:special", f"{d.pyname}.{a.name}: {'must always be written' if sp else 'must be omitted when unset'} but omit_if_default={omit} (is_special_property={in_table})", property=_brief_type(p), omit_if_default=omit, is_special_property=in_table)
            # ---- annotation
            if not p.get("_envelope") or p["name"] in ("params", "result"):
                res.ob("annotation")
                fr = has_forward_ref(a.type)
                if fr:
                    res.fail("annotation", f"{key}:annotation", f"{d.pyname}.{a.name}: annotation still contains the unresolved reference {fr}", annotation=repr(a.type))
                else:
                    try:
                        opt = bool(p.get("optional")) or p.get("_always_written", False) and mm.null_admitting(t)
                        if p.get("_envelope") and p["name"] == "result":
                            exp = expected_annotation(mm, T, t, False, litfind)
                            ok = _ann_eq(a.type, exp) or _ann_eq(a.type, typing.Optional[exp])
                        elif p.get("_absent"):
                            exp = type(None)
                            ok = _ann_eq(a.type, typing.Optional[type(None)]) or a.type is type(None)
                        elif contains_anonymous(t):
                            exp = "<structural match of the anonymous literal / and type>"
                            ok = annotation_matches(live, mm, a.type, t, bool(p.get("optional")))
                        else:
                            exp = expected_annotation(mm, T, t, bool(p.get("optional")), litfind)
                            ok = _ann_eq(a.type, exp)
                        if not ok:
                            res.fail("annotation", f"{key}:annotation", f"{d.pyname}.{a.name}: annotation {a.type!r} is not the mapping of {_brief_type(p)} (expected {exp!r})", annotation=repr(a.type), expected=repr(exp), property=_brief_type(p))
                    except Unmappable as e:
                        res.fail("annotation", f"{key}:annotation", f"{d.pyname}.{a.name}: metamodel type cannot be mapped: {e}", property=_brief_type(p))
            # ---- validator
            if not p.get("_envelope"):
                res.ob("validator")
                inner, opt, leaves = live.unwrap_validator(a.validator)
                want = None
                if t["kind"] == "base":
                    want = {"integer": "integer", "uinteger": "uinteger", "string": "str", "DocumentUri": "str", "URI": "str", "boolean": "bool", "decimal": "float"}.get(t["name"])
                elif t["kind"] == "stringLiteral":
                    want = "literal"
                got = _validator_kind(V, leaves, t)
                if want != got:
                    res.fail("validator", f"{key}:validator", f"{d.pyname}.{a.name}: carries validator {got or 'none'} ({a.validator!r}), expected {want or 'none'} for {_brief_type(p)}", property=_brief_type(p))
                elif want and opt != (not req) and want != "literal":
                    res.fail("validator", f"{key}:validator", f"{d.pyname}.{a.name}: validator optional-wrapping ({opt}) does not match requiredness ({req})", property=_brief_type(p))
            elif p["name"] == "method":
                res.ob("validator")
                # a literal discriminator only accepts its literal (C04/C11): checked behaviourally in C11 for envelopes
            if len(res.samples) < 8 and t["kind"] in ("or", "stringLiteral", "base"):
                res.samples.append({"class": d.pyname, "attribute": a.name, "wire": p["name"], "type": _brief_type(p), "required": req, "special": sp, "annotation": repr(a.type)[:120]})
    return res


def _validator_kind(V, leaves, t) -> Optional[str]:
    if not leaves:
        return None
    if len(leaves) != 1:
        return "multiple"
    l = leaves[0]
    if l is V.integer_validator:
        return "integer"
    if l is V.uinteger_validator:
        return "uinteger"
    cn = type(l).__name__
    if cn == "_InstanceOfValidator":
        ty = l.type
        return {str: "str", bool: "bool", float: "float", int: "int"}.get(ty, repr(ty))
    if cn == "_InValidator":
        opts = l.options
        if t["kind"] == "stringLiteral" and not isinstance(opts, str) and list(opts) == [t["value"]]:
            return "literal"
        return f"in_({opts!r})"
    return cn


def _ann_eq(a, b) -> bool:
    try:
        return a == b
    except Exception:
        return False


def _brief_type(p: Dict) -> str:
    from oracle.native import _tname

    return f"{p['name']}{'?' if p.get('optional') else ''}: {_tname(p['type'])}"


def _shook(conv, cls):
    return conv.get_structure_hook(cls) if hasattr(conv, "get_structure_hook") else conv._structure_func.dispatch(cls)


def _uhook(conv, cls):
    return conv.get_unstructure_hook(cls) if hasattr(conv, "get_unstructure_hook") else conv._unstructure_func.dispatch(cls)


# ---------------------------------------------------------------------------------------------
# enumerations and aliases
# ---------------------------------------------------------------------------------------------


def check_enums(live, mm: MetaModel) -> TableResult:
    res = TableResult()
    T = live.types
    for name, e in mm.enumerations.items():
        res.ob("enum-exists")
        cls = getattr(T, name, None)
        if cls is None or not (isinstance(cls, type) and issubclass(cls, enum.Enum)):
            res.fail("enum-exists", f"table:enum:{name}:exists", f"enumeration {name} has no enum class in lsprotocol.types")
            continue
        want = [v["value"] for v in e["values"]]
        got = [m.value for m in cls.__members__.values()]  # aliases included
        res.ob("enum-values")
        if sorted(map(repr, want)) != sorted(map(repr, got)):
            missing = [v for v in want if v not in got]
            extra = [v for v in got if v not in want]
            res.fail("enum-values", f"table:enum:{name}:values", f"enumeration {name}: values differ from the metamodel (missing {missing}, extra {extra})", metamodel=want, package=got)
        res.ob("enum-base")
        base = str if e["type"]["name"] == "string" else int
        if not issubclass(cls, base):
            res.fail("enum-base", f"table:enum:{name}:base", f"enumeration {name} is not a {base.__name__} enum")
        if len(res.samples) < 4:
            res.samples.append({"enum": name, "values": want[:6], "open": mm.is_open_enum(name)})
    return res


def check_aliases(live, mm: MetaModel) -> TableResult:
    res = TableResult()
    T = live.types
    litfind = literal_class_finder(live, mm)
    for name, a in mm.aliases.items():
        res.ob("alias-exists")
        if not hasattr(T, name):
            res.fail("alias-exists", f"table:alias:{name}:exists", f"type alias {name} has no definition in lsprotocol.types")
            continue
    return res
