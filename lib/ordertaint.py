"""Order/identity qualifier analysis for C16 (DESIGN 5/C16): nothing Unordered or Opaque may flow into emitted text.

Intraprocedural, flow-insensitive taint over the ast of every function of the generator package, with
interprocedural summaries (return taint, order-sensitivity of parameters) resolved by simple name.
Conservative: what it cannot classify is reported.
"""
from __future__ import annotations

import ast
import os
from dataclasses import dataclass, field
from typing import Dict, List, Optional, Set, Tuple

UNORDERED_CALLS = {"set", "frozenset"}
FS_UNORDERED_ATTRS = {"glob", "rglob", "iterdir"}
FS_UNORDERED_FUNCS = {"os.listdir", "os.scandir", "os.walk", "glob.glob", "glob.iglob"}
SANITIZERS = {"sorted", "len", "min", "max", "sum", "any", "all", "bool", "frozenset", "set", "isinstance"}
PROPAGATORS = {"list", "tuple", "iter", "reversed", "enumerate", "zip", "map", "filter", "chain", "deepcopy", "copy"}
BENIGN_CALLEES = {"info", "debug", "warning", "error", "print", "log"}
SET_OPS = (ast.Sub, ast.BitOr, ast.BitAnd, ast.BitXor)
VIEW_ATTRS = {"keys", "items"}
OUTER_MUTATORS = {"append", "extend", "insert", "add", "update", "setdefault", "write", "write_text", "writelines", "add_type_info", "__setitem__"}
FILE_OPS = {"unlink", "write_text", "write_bytes", "remove", "rmdir", "read_text", "mkdir", "touch"}


@dataclass
class Finding:
    file: str
    function: str
    kind: str
    what: str
    expr: str

    @property
    def key(self) -> str:
        return f"qual:{self.file}:{self.function}:{self.kind}:{self.expr[:60]}"


@dataclass
class FuncInfo:
    file: str
    qual: str
    node: ast.AST
    params: List[str]


class Analyzer:
    def __init__(self, root: str, rel_dirs: List[str], exclude=("custom",)):
        self.funcs: Dict[str, List[FuncInfo]] = {}
        self.modules: Dict[str, ast.Module] = {}
        self.tainted_attrs: Set[str] = set()
        self._memo: Dict[Tuple[int, Tuple[str, ...]], Tuple[bool, List[Finding]]] = {}
        self._stack: Set[Tuple[int, Tuple[str, ...]]] = set()
        for rd in rel_dirs:
            base = os.path.join(root, rd)
            paths = [base] if base.endswith(".py") else [os.path.join(dp, f) for dp, dn, fn in os.walk(base) for f in fn if f.endswith(".py") and not any(x in dp.split(os.sep) for x in exclude)]
            for p in sorted(paths):
                rel = os.path.relpath(p, root)
                try:
                    tree = ast.parse(open(p, encoding="utf-8").read())
                except SyntaxError:
                    continue
                self.modules[rel] = tree
                self._collect(rel, tree, "")

    def _collect(self, rel: str, node: ast.AST, prefix: str):
        for ch in ast.iter_child_nodes(node):
            if isinstance(ch, (ast.FunctionDef, ast.AsyncFunctionDef)):
                q = f"{prefix}{ch.name}"
                self.funcs.setdefault(ch.name, []).append(FuncInfo(rel, q, ch, [a.arg for a in ch.args.args]))
                self._collect(rel, ch, q + ".")
            elif isinstance(ch, ast.ClassDef):
                self._collect(rel, ch, f"{prefix}{ch.name}.")
            else:
                self._collect(rel, ch, prefix)

    # ------------------------------------------------------------------ expression classification
    def is_source(self, e: ast.AST) -> Optional[str]:
        if isinstance(e, (ast.Set, ast.SetComp)):
            return "set display"
        if isinstance(e, ast.Call):
            fn = e.func
            name = fn.id if isinstance(fn, ast.Name) else fn.attr if isinstance(fn, ast.Attribute) else ""
            dotted = _dotted(fn)
            if isinstance(fn, ast.Name) and name in UNORDERED_CALLS:
                return f"{name}()"
            if isinstance(fn, ast.Attribute) and name in FS_UNORDERED_ATTRS:
                return f".{name}()"
            if dotted in FS_UNORDERED_FUNCS:
                return dotted
            if dotted in ("uuid.uuid4", "uuid.uuid1", "uuid4", "id", "hash", "random.random", "random.randint", "random.choice", "random.randrange", "time.time", "time.monotonic", "datetime.now", "datetime.datetime.now", "os.getpid", "os.urandom"):
                # hash(): salted per process for str / bytes (and anything built from them)
                return f"opaque {dotted}()"
        if isinstance(e, ast.BinOp) and isinstance(e.op, SET_OPS):
            for side in (e.left, e.right):
                if isinstance(side, ast.Call) and isinstance(side.func, ast.Attribute) and side.func.attr in VIEW_ATTRS:
                    return "set algebra on a dict view"
        if isinstance(e, ast.Attribute) and e.attr == "id_":
            return "opaque id_"
        return None

    def analyze_function(self, fi: FuncInfo, tainted_params: Tuple[str, ...] = ()) -> Tuple[bool, List[Finding]]:
        key = (id(fi.node), tainted_params)
        if key in self._memo:
            return self._memo[key]
        if key in self._stack:
            return False, []
        self._stack.add(key)
        findings: List[Finding] = []
        tainted: Set[str] = set(tainted_params)
        body_nodes = list(_own_nodes(fi.node))
        # fixpoint on local taint
        changed = True
        it = 0
        while changed and it < 10:
            changed = False
            it += 1
            for n in body_nodes:
                if isinstance(n, (ast.Assign, ast.AnnAssign, ast.AugAssign)):
                    val = n.value
                    if val is None:
                        continue
                    if self.expr_tainted(val, tainted, fi, findings=None):
                        targets = n.targets if isinstance(n, ast.Assign) else [n.target]
                        for t in targets:
                            for nm in _target_names(t):
                                if nm not in tainted:
                                    tainted.add(nm)
                                    changed = True
                            if isinstance(t, ast.Attribute) and isinstance(t.value, ast.Name) and t.value.id == "self":
                                if t.attr not in self.tainted_attrs:
                                    self.tainted_attrs.add(t.attr)
                                    changed = True
                elif isinstance(n, (ast.For, ast.comprehension)):
                    if self.expr_tainted(n.iter, tainted, fi, None):
                        # the loop variable itself is an element, not an unordered collection: no taint
                        pass
        ret_tainted = False
        in_raise = {id(x) for r in body_nodes if isinstance(r, ast.Raise) for x in ast.walk(r)}
        for n in body_nodes:
            if id(n) in in_raise:
                continue  # the message of a raised exception is raised, not written
            self.check_sinks(n, tainted, fi, findings)
            if isinstance(n, ast.Return) and n.value is not None and self.expr_tainted(n.value, tainted, fi, None):
                ret_tainted = True
            if isinstance(n, (ast.Yield, ast.YieldFrom)) and n.value is not None and self.expr_tainted(n.value, tainted, fi, None):
                ret_tainted = True
        self._stack.discard(key)
        self._memo[key] = (ret_tainted, findings)
        return ret_tainted, findings

    def expr_tainted(self, e: ast.AST, tainted: Set[str], fi: FuncInfo, findings: Optional[List[Finding]]) -> bool:
        """Is the value of e an Unordered collection / Opaque value?"""
        if e is None:
            return False
        src = self.is_source(e)
        if src and not (isinstance(e, ast.Attribute) and e.attr == "id_"):
            return True
        if isinstance(e, ast.Attribute) and e.attr == "id_":
            return True
        if isinstance(e, ast.Name):
            return e.id in tainted
        if isinstance(e, ast.Attribute) and isinstance(e.value, ast.Name) and e.value.id == "self":
            return e.attr in self.tainted_attrs
        if isinstance(e, ast.Call):
            fn = e.func
            name = fn.id if isinstance(fn, ast.Name) else fn.attr if isinstance(fn, ast.Attribute) else ""
            if name == "sorted" and any(k.arg == "key" for k in e.keywords):
                # a key function need not be injective: ties keep the (unordered) input order
                return any(self.expr_tainted(a, tainted, fi, findings) for a in e.args)
            if name in ("min", "max") and any(k.arg == "key" for k in e.keywords):
                return any(self.expr_tainted(a, tainted, fi, findings) for a in e.args)
            if name in SANITIZERS and name not in UNORDERED_CALLS:
                return False
            args = list(e.args) + [k.value for k in e.keywords]
            if name in PROPAGATORS:
                return any(self.expr_tainted(a, tainted, fi, findings) for a in args)
            if isinstance(fn, ast.Attribute) and name in ("copy", "union", "difference", "intersection", "symmetric_difference"):
                return self.expr_tainted(fn.value, tainted, fi, findings)
            # known function: does it return something tainted (given which of its params are tainted)?
            cands = self.funcs.get(name, [])
            if cands:
                res = False
                for c in cands:
                    offs = 1 if c.params[:1] == ["self"] and isinstance(fn, ast.Attribute) else 0
                    tp = tuple(sorted(c.params[i + offs] for i, a in enumerate(e.args) if i + offs < len(c.params) and self.expr_tainted(a, tainted, fi, None)))
                    rt, _ = self.analyze_function(c, tp)
                    res = res or rt
                return res
            return False
        if isinstance(e, (ast.ListComp, ast.GeneratorExp, ast.DictComp)):
            return any(self.expr_tainted(g.iter, tainted, fi, findings) for g in e.generators)
        if isinstance(e, ast.BinOp):
            if isinstance(e.op, ast.Add):
                return self.expr_tainted(e.left, tainted, fi, findings) or self.expr_tainted(e.right, tainted, fi, findings)
            if isinstance(e.op, SET_OPS):
                return self.expr_tainted(e.left, tainted, fi, findings) or self.expr_tainted(e.right, tainted, fi, findings)
            return False
        if isinstance(e, ast.IfExp):
            return self.expr_tainted(e.body, tainted, fi, findings) or self.expr_tainted(e.orelse, tainted, fi, findings)
        if isinstance(e, ast.Starred):
            return self.expr_tainted(e.value, tainted, fi, findings)
        if isinstance(e, (ast.List, ast.Tuple)):
            return any(isinstance(x, ast.Starred) and self.expr_tainted(x.value, tainted, fi, findings) for x in e.elts)
        return False

    def check_sinks(self, n: ast.AST, tainted: Set[str], fi: FuncInfo, findings: List[Finding]):
        def report(kind, what, expr):
            f = Finding(fi.file, fi.qual, kind, what, ast.unparse(expr) if isinstance(expr, ast.AST) else str(expr))
            if all(x.key != f.key for x in findings):
                findings.append(f)

        if isinstance(n, ast.For) and self.expr_tainted(n.iter, tainted, fi, None):
            if not _order_insensitive_body(n):
                report("iteration", "iterates an unordered collection and accumulates / emits in the body: the result depends on hash seed or directory order", n.iter)
        if isinstance(n, (ast.ListComp, ast.GeneratorExp, ast.DictComp)):
            pass  # taint propagates to the result; the consumer is checked
        if isinstance(n, ast.Call):
            fn = n.func
            name = fn.id if isinstance(fn, ast.Name) else fn.attr if isinstance(fn, ast.Attribute) else ""
            args = list(n.args) + [k.value for k in n.keywords]
            if isinstance(fn, ast.Attribute) and name == "join" and any(self.expr_tainted(a, tainted, fi, None) for a in args):
                report("join", "joins an unordered collection into a string", n)
            elif name in ("str", "repr", "format") and any(self.expr_tainted(a, tainted, fi, None) for a in args):
                report("format", "formats an unordered / opaque value into a string", n)
            elif isinstance(fn, ast.Attribute) and name in ("extend", "append", "write", "write_text", "writelines", "update") and any(self.expr_tainted(a, tainted, fi, None) for a in args):
                if not (name == "update" and True):
                    report("accumulate", f"passes an unordered / opaque value to .{name}()", n)
            elif isinstance(fn, ast.Attribute) and name == "pop" and self.expr_tainted(fn.value, tainted, fi, None) and not n.args:
                report("pick", "pops an arbitrary element of an unordered collection", n)
            elif name == "next" and args and self.expr_tainted(args[0], tainted, fi, None):
                report("pick", "takes the first element of an unordered collection", n)
            elif name in SANITIZERS or name in PROPAGATORS or name in BENIGN_CALLEES:
                pass
            else:
                cands = self.funcs.get(name, [])
                targs = [(i, a) for i, a in enumerate(n.args) if self.expr_tainted(a, tainted, fi, None)]
                if targs and cands:
                    for c in cands:
                        offs = 1 if c.params[:1] == ["self"] and isinstance(fn, ast.Attribute) else 0
                        tp = tuple(sorted(c.params[i + offs] for i, a in targs if i + offs < len(c.params)))
                        _, sub = self.analyze_function(c, tp)
                        for s in sub:
                            report("via-call", f"{s.what} (inside {s.function}, reached with an unordered argument)", n)
                elif targs and not cands and isinstance(fn, (ast.Name, ast.Attribute)) and name not in ("isinstance", "issubclass", "hasattr", "getattr", "Exception", "ValueError", "KeyError", "get", "index", "count", "startswith", "endswith"):
                    if name[:1].isupper():
                        pass  # constructor of an exception / container: checked at its use
                    else:
                        report("escape", f"an unordered / opaque value escapes into {ast.unparse(fn)}(), which is not modelled", n)
        if isinstance(n, ast.JoinedStr):
            for v in n.values:
                if isinstance(v, ast.FormattedValue) and self.expr_tainted(v.value, tainted, fi, None):
                    # exempt: messages of raised exceptions (raised, not written)
                    report("format", "formats an unordered / opaque value into an f-string", v.value)
        if isinstance(n, ast.Subscript) and isinstance(n.ctx, ast.Load) and self.expr_tainted(n.value, tainted, fi, None):
            if not isinstance(n.value, ast.Attribute) or n.value.attr != "id_":
                report("pick", "indexes an unordered collection", n)
        if isinstance(n, ast.AugAssign) and isinstance(n.op, ast.Add) and self.expr_tainted(n.value, tainted, fi, None):
            report("accumulate", "appends an unordered collection with +=", n)

    def run(self) -> List[Finding]:
        out: List[Finding] = []
        # two rounds so that attribute taint discovered late is seen everywhere
        for _ in range(2):
            self._memo.clear()
            out = []
            for name, lst in sorted(self.funcs.items()):
                for fi in lst:
                    _, fs = self.analyze_function(fi, ())
                    out.extend(fs)
        # raised-exception messages are exempt (raised, not written)
        res = []
        seen = set()
        for f in out:
            if f.key in seen:
                continue
            seen.add(f.key)
            res.append(f)
        return res


def _own_nodes(fn: ast.AST):
    """Nodes of fn's body excluding nested function bodies."""
    stack = list(ast.iter_child_nodes(fn))
    while stack:
        n = stack.pop()
        if isinstance(n, (ast.FunctionDef, ast.AsyncFunctionDef, ast.Lambda)):
            continue
        yield n
        stack.extend(ast.iter_child_nodes(n))


def _target_names(t: ast.AST) -> List[str]:
    if isinstance(t, ast.Name):
        return [t.id]
    if isinstance(t, (ast.Tuple, ast.List)):
        out = []
        for e in t.elts:
            out.extend(_target_names(e))
        return out
    return []


def _dotted(f: ast.AST) -> str:
    if isinstance(f, ast.Name):
        return f.id
    if isinstance(f, ast.Attribute):
        return f"{_dotted(f.value)}.{f.attr}"
    return "?"


def _order_insensitive_body(loop: ast.For) -> bool:
    """Per-element file operations on targets derived from the element; no accumulation into outer state."""
    loopvars = set(_target_names(loop.target))
    local: Set[str] = set(loopvars)
    for n in ast.walk(loop):
        if isinstance(n, ast.Assign):
            for t in n.targets:
                local |= set(_target_names(t))
    for n in ast.walk(loop):
        if n is loop:
            continue
        if isinstance(n, ast.AugAssign):
            return False
        if isinstance(n, ast.Assign):
            for t in n.targets:
                if not isinstance(t, ast.Name):
                    return False
        if isinstance(n, ast.Call) and isinstance(n.func, ast.Attribute) and n.func.attr in OUTER_MUTATORS:
            base = n.func.value
            root = base
            while isinstance(root, (ast.Attribute, ast.Subscript, ast.BinOp, ast.Call)):
                root = root.value if isinstance(root, (ast.Attribute, ast.Subscript)) else root.left if isinstance(root, ast.BinOp) else root.func
            names_in_base = {x.id for x in ast.walk(base) if isinstance(x, ast.Name)}
            if n.func.attr in FILE_OPS:
                if not (names_in_base & local):
                    return False  # file target does not depend on the element
                continue
            if not (isinstance(root, ast.Name) and root.id in local):
                return False
        if isinstance(n, (ast.Yield, ast.YieldFrom, ast.Return)):
            return False
    return True
