"""Access to the live Python package of /repo's working tree, and its pairing with the metamodel."""
from __future__ import annotations

import importlib
import os
import sys
import typing
from typing import Any, Dict, List, Optional, Tuple

REPO = os.environ.get("VERIF_REPO", "/repo")


def setup_path():
    for p in (os.path.join(REPO, "packages", "python"), REPO):
        if p in sys.path:
            sys.path.remove(p)
        sys.path.insert(0, p)
    for m in list(sys.modules):
        if m == "lsprotocol" or m.startswith("lsprotocol.") or m == "generator" or m.startswith("generator."):
            f = getattr(sys.modules[m], "__file__", "") or ""
            if not f.startswith(REPO + os.sep):
                del sys.modules[m]


class Live:
    def __init__(self):
        setup_path()
        import attrs  # noqa

        self.attrs = attrs
        self.types = importlib.import_module("lsprotocol.types")
        self.validators = importlib.import_module("lsprotocol.validators")
        self.hooks = importlib.import_module("lsprotocol._hooks")
        self.converters = importlib.import_module("lsprotocol.converters")
        for m in (self.types, self.validators, self.hooks, self.converters):
            assert m.__file__.startswith(REPO + os.sep), m.__file__
        self._conv = None

    @property
    def converter(self):
        if self._conv is None:
            self._conv = self.converters.get_converter()
        return self._conv

    def fields(self, cls) -> Dict[str, Any]:
        return {a.name: a for a in self.attrs.fields(cls)}

    def unwrap_validator(self, v) -> Tuple[Any, bool, List[Any]]:
        """-> (innermost validator or None, wrapped_in_optional, list of all leaf validators)"""
        if v is None:
            return None, False, []
        opt = False
        leaves: List[Any] = []

        def walk(x):
            nonlocal opt
            cn = type(x).__name__
            if cn == "_OptionalValidator":
                opt = True
                walk(x.validator)
            elif cn == "_AndValidator":
                for y in x._validators:
                    walk(y)
            else:
                leaves.append(x)

        walk(v)
        return (leaves[0] if len(leaves) == 1 else None), opt, leaves

    def wire_name(self, cls, attr_name: str) -> Optional[str]:
        """The JSON key the converter actually uses for this attribute when unstructuring."""
        fn = self.converter.get_unstructure_hook(cls) if hasattr(self.converter, "get_unstructure_hook") else self.converter._unstructure_func.dispatch(cls)
        ov = getattr(fn, "overrides", None)
        if ov and attr_name in ov:
            o = ov[attr_name]
            return o.rename if o.rename is not None else attr_name
        return None


def snake_to_camel_guess(name: str) -> str:
    n = name[:-1] if name.endswith("_") else name
    parts = n.split("_")
    return parts[0] + "".join(p[:1].upper() + p[1:] for p in parts[1:])
