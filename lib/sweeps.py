"""Native sweeps over every class root (bounded in the value, exhaustive in the class): replay oracles for C01/C02/C03/C15."""
from __future__ import annotations

import copy
import enum
from typing import Any, Callable, Dict, Iterable, List, Optional, Set, Tuple

from lib.unions import alternatives, object_variants
from oracle.metamodel import MetaModel
from oracle.native import json_diff, json_equal
from oracle.pairing import Decl
from oracle.pytypes import typed_problem

EXTRA_KEY = "xVerifUndeclared"


def decl_type(d: Decl) -> Dict:
    return {"kind": "literal", "value": {"properties": d.props}}


DEEP = 600  # parse-only checks: far below what json.loads accepts, above what a recursive copy of the input survives
DEEP_ROUND_TRIP = 150  # round-trip checks: cattrs itself unstructures an LSPAny payload recursively and runs out of stack near 330 levels under
# the default recursion limit (an environment bound of every recursive Python serialiser, not counted against the library)


def deep_payload(depth: int = DEEP_ROUND_TRIP) -> Any:
    v: Any = "leaf"
    for i in range(depth):
        v = [v] if i % 2 else {"d": v}
    return v


def shared_payload() -> Any:
    """A valid, finite JSON value in which the same container OBJECT occurs at several positions (what a program that builds its payload
    from a shared configuration dict holds in memory; json.loads never produces it)."""
    shared = {"k": [1, {"z": None}], "e": []}
    row = [0, "r"]
    return {"before": shared, "after": shared, "rows": [row, row], "empty": shared["e"], "alsoEmpty": shared["e"]}


def _is_any(mm: MetaModel, t: Dict) -> Optional[str]:
    if t["kind"] == "reference" and t["name"] in ("LSPAny", "LSPObject", "LSPArray"):
        return t["name"]
    if t["kind"] == "or":
        for i in t["items"]:
            r = _is_any(mm, i)
            if r:
                return r
    return None


def reverse_keys(v: Any, depth: int = 0) -> Any:
    """The same JSON value with the members of every object in the opposite order (a JSON object is unordered: a sender may write
    `{"b": .., "a": ..}` as well); shared sub-objects stay shared."""
    if depth > 40:
        return v
    if isinstance(v, dict):
        return {k: reverse_keys(x, depth + 1) for k, x in reversed(list(v.items()))}
    if isinstance(v, list):
        return [reverse_keys(x, depth + 1) for x in v]
    return v


def odd_payload_variants(mm: MetaModel, d: Decl, base: Dict) -> List[Any]:
    """Valid values with unusual shapes: a deeply nested and an internally shared payload at every LSPAny / LSPObject / LSPArray property,
    an array of them at LSPAny[] properties, and a long chain at a property through which the structure refers to itself."""
    out: List[Any] = []
    if not isinstance(base, dict):
        return out
    for p in d.props:
        t = p["type"]
        kind = _is_any(mm, t)
        if kind:
            for payload in (deep_payload(), shared_payload()):
                if kind == "LSPArray":
                    payload = [payload, payload]
                elif kind == "LSPObject" and not isinstance(payload, dict):
                    payload = {"p": payload}
                v = dict(base)
                v[p["name"]] = payload
                out.append(v)
        elif t["kind"] == "array" and _is_any(mm, t["element"]) == "LSPAny":
            sp = shared_payload()
            v = dict(base)
            v[p["name"]] = [sp, sp, deep_payload()]
            out.append(v)
        elif t["kind"] == "reference" and d.kind == "structure" and t["name"] == d.pyname and p.get("optional"):
            # self-reference (SelectionRange.parent): a chain of 300 nodes
            node = {k: v for k, v in base.items() if k != p["name"]}
            chain = dict(node)
            for _ in range(299):
                nxt = dict(node)
                nxt[p["name"]] = chain
                chain = nxt
            out.append(chain)
    return out


RANDOM_PER_CLASS = 300
RANDOM_PER_CLASS_QUICK = 12


def root_inputs(mm: MetaModel, d: Decl, cap: int = 60) -> List[Any]:
    t = decl_type(d)
    out = object_variants(mm, t)
    # every alternative of every union-typed property at depth 1, on the maximal witness too
    base = mm.witness(t, True)
    list_variants: List[Any] = []
    for p in d.props:
        alts = alternatives(mm, p["type"])
        if len(alts) > 1:
            for alt in alts[:8]:
                if alt["kind"] == "base" and alt["name"] == "null" and not mm.null_admitting(p["type"]):
                    continue
                for mx in (False, True):
                    v = dict(base)
                    try:
                        v[p["name"]] = mm.witness(alt, mx, 1)
                    except Exception:
                        continue
                    out.append(v)
                # a list alternative: its elements in every variant of their own (each optional, each nested alternative), alone and
                # after a minimal element - a hook that classifies the list looks at properties one level further down
                ra = mm.resolve_alias(alt)
                if ra["kind"] == "array":
                    el = mm.resolve_alias(ra["element"])
                    if el["kind"] == "literal" or (el["kind"] == "reference" and el["name"] in mm.structures):
                        try:
                            allv = object_variants(mm, el)
                        except Exception:
                            allv = []
                        if allv:
                            # the variants that differ from the minimal element in a union-typed property first (what list hooks discriminate on)
                            eprops = mm.flatten(el["name"]) if el["kind"] == "reference" else mm.literal_props(el)
                            unionp = {q["name"] for q in eprops if len(alternatives(mm, q["type"])) > 1}
                            nested = [v_ for v_ in allv[2:] if any(v_.get(n_) != allv[0].get(n_) for n_ in unionp)]
                            evs = [allv[0]] + nested[:8] + [v_ for v_ in allv[1:] if v_ not in nested][:4]
                            for ev in evs:
                                for lst in ([ev], [evs[0], ev]):
                                    v = dict(base)
                                    v[p["name"]] = lst
                                    list_variants.append(v)
    out.extend(odd_payload_variants(mm, d, base))
    # list alternatives with varied elements go in front of the optional-by-optional variants (the cap below cuts from the end)
    out = out[:6] + list_variants + out[6:]
    seen = set()
    uniq = []
    import json
    import os
    import random
    import zlib

    for j in out:
        k = json.dumps(j, sort_keys=True, default=str)
        if k not in seen and mm.valid(t, j, True):
            seen.add(k)
            uniq.append(j)
    uniq = uniq[:cap]
    # the maximal witness and up to four more with every object's members in the opposite order (not subject to the de-duplication above,
    # which ignores member order)
    for j in [base] + [u for u in uniq if isinstance(u, dict) and len(u) > 1][:4]:
        if isinstance(j, dict) and len(j) > 1 and mm.valid(t, j, True):
            uniq.append(reverse_keys(j))
    if True:
        # random strictly valid values on top of the structured family (seeded by VERIF_SEED and the class name): a few in the quick
        # tier, RANDOM_PER_CLASS in the thorough tier
        rng = random.Random(zlib.crc32(d.pyname.encode()) ^ (int(os.environ.get("VERIF_SEED", "0") or 0) * 2654435761 % 2**32))
        for _ in range(RANDOM_PER_CLASS if os.environ.get("VERIF_TIER") == "thorough" else RANDOM_PER_CLASS_QUICK):
            try:
                j = mm.random_value(t, rng)
            except Exception:  # noqa
                continue
            k = json.dumps(j, sort_keys=True, default=str)
            if k not in seen and mm.valid(t, j, True):
                seen.add(k)
                uniq.append(j)
    return uniq


# ---------------------------------------------------------------------------------------------
# extras (C15)
# ---------------------------------------------------------------------------------------------


def _static_names(mm: MetaModel, t: Dict, depth: int = 0) -> Set[str]:
    """Every property name declared by any structure / literal alternative of t."""
    if depth > 8:
        return set()
    k = t["kind"]
    if k == "reference":
        n = t["name"]
        if n in mm.structures:
            return {p["name"] for p in mm.flatten(n)}
        if n in mm.aliases and n not in ("LSPAny", "LSPObject", "LSPArray"):
            return _static_names(mm, mm.aliases[n]["type"], depth + 1)
        return set()
    if k == "literal":
        return {p["name"] for p in t["value"]["properties"]}
    if k == "and":
        return {p["name"] for p in mm.and_props(t)}
    if k == "or":
        out: Set[str] = set()
        for it in t["items"]:
            out |= _static_names(mm, it, depth + 1)
        return out
    return set()


_FORBID: List[Set[str]] = [set()]  # names declared by a sibling alternative of the union the current node sits in: not "undeclared" there


def inject_extras(mm: MetaModel, t: Dict, j: Any, depth: int = 0) -> Any:
    """Add an undeclared key to every object node that stands for a structure / literal (not inside LSPAny/LSPObject/maps)."""
    if depth > 12:
        return j
    k = t["kind"]
    if k == "reference":
        n = t["name"]
        if n in mm.structures:
            return _inject_props(mm, mm.flatten(n), j, depth)
        if n in mm.aliases and n not in ("LSPAny", "LSPObject", "LSPArray"):
            return inject_extras(mm, mm.aliases[n]["type"], j, depth + 1)
        return j
    if k == "literal":
        if not t["value"]["properties"]:
            return j
        return _inject_props(mm, t["value"]["properties"], j, depth)
    if k == "and":
        return _inject_props(mm, mm.and_props(t), j, depth)
    if k == "array" and isinstance(j, list):
        return [inject_extras(mm, t["element"], x, depth + 1) for x in j]
    if k == "tuple" and isinstance(j, (list, tuple)):
        return [inject_extras(mm, it, x, depth + 1) for it, x in zip(t["items"], j)]
    if k == "map" and isinstance(j, dict):
        return {kk: inject_extras(mm, t["value"], vv, depth + 1) for kk, vv in j.items()}
    if k == "or":
        cands = [it for it in t["items"] if mm.valid(it, j, True)]
        if not cands:
            return j
        best = max(cands, key=lambda it: mm._declared_count(it, j))
        _FORBID.append(_FORBID[-1] | _static_names(mm, t))
        try:
            return inject_extras(mm, best, j, depth + 1)
        finally:
            _FORBID.pop()
    return j


EXTRAS_STYLE = "plain"  # "plain": clearly foreign keys; "twins": undeclared keys that LOOK like declared ones (other spellings)


def _twins(name: str) -> List[str]:
    """Other spellings of a declared property name (none of them is the wire name): snake_case, Python attribute style with a
    trailing underscore, Capitalised, UPPER, kebab."""
    import re

    snake = re.sub(r"(?<=[a-z0-9])([A-Z])", r"_\1", name).lower()
    out = []
    for c in (snake, name + "_", snake + "_", name[:1].upper() + name[1:], name.upper(), snake.replace("_", "-"), "_" + name):
        if c != name and c not in out:
            out.append(c)
    return out


def _inject_props(mm: MetaModel, props: List[Dict], j: Any, depth: int) -> Any:
    if not isinstance(j, dict):
        return j
    out = {}
    bytype = {p["name"]: p["type"] for p in props}
    for kk, vv in j.items():
        out[kk] = inject_extras(mm, bytype[kk], vv, depth + 1) if kk in bytype else vv
    if EXTRAS_STYLE == "deep":
        if depth == 0:
            out[EXTRA_KEY] = deep_payload(DEEP)
        return out
    if EXTRAS_STYLE == "twins":
        declared = set(bytype)
        junk = {"verif": ["junk", 1, None]}
        for p in props:
            for tw in _twins(p["name"]):
                if tw not in declared and tw not in out:
                    # a value that cannot stand for the declared property: if the twin is mistaken for it, the result changes or fails
                    out[tw] = junk if not isinstance(j.get(p["name"]), dict) else "junk"
        return out
    if EXTRAS_STYLE in ("neighbours-up", "neighbours-down"):
        # undeclared keys that are declared one level away: a child's property names on the parent, the parent's on the child
        declared = set(bytype)
        junk = {"verif": ["junk", 1, None]}
        for p in props:
            child = out.get(p["name"])
            if not isinstance(child, dict):
                continue
            cnames = _declared_names(mm, p["type"], j[p["name"]])
            if cnames is None:
                continue
            if EXTRAS_STYLE == "neighbours-up":
                for nm in sorted((cnames | _static_names(mm, p["type"])) - declared - _FORBID[-1]):
                    out.setdefault(nm, junk)
            else:
                child = dict(child)
                for nm in sorted(declared - cnames - _static_names(mm, p["type"])):
                    child.setdefault(nm, "junk")
                out[p["name"]] = child
        return out
    if EXTRAS_STYLE == "fragments":
        # undeclared keys that are PIECES of the property names the hand-written hooks test for (a substring test instead of a key test
        # mistakes them for the property), and the empty key; names that are a property of anything in the model are left out
        every = _all_property_names(mm)
        for lit in _hook_key_literals(mm):
            for frag in (lit[:3], lit[-2:], lit[:1], lit[1:-1], lit + "s"):
                if frag not in every and frag not in out and len(out) < len(j) + 60:
                    out[frag] = {"verif": "junk"}
        out.setdefault("", None)
        return out
    out[EXTRA_KEY] = {"nested": [1, None, {"x": "y"}]}
    out[EXTRA_KEY + "2"] = None
    return out


def _declared_names(mm: MetaModel, t: Dict, v: Any, depth: int = 0) -> Optional[Set[str]]:
    """Property names declared by the structure / literal alternative of t that v is an instance of (None: not a declared object)."""
    if depth > 8 or not isinstance(v, dict):
        return None
    k = t["kind"]
    if k == "reference":
        n = t["name"]
        if n in mm.structures:
            return {p["name"] for p in mm.flatten(n)}
        if n in mm.aliases and n not in ("LSPAny", "LSPObject", "LSPArray"):
            return _declared_names(mm, mm.aliases[n]["type"], v, depth + 1)
        return None
    if k == "literal":
        return {p["name"] for p in t["value"]["properties"]} or None
    if k == "and":
        return {p["name"] for p in mm.and_props(t)}
    if k == "or":
        cands = [it for it in t["items"] if mm.valid(it, v, True)]
        if not cands:
            return None
        return _declared_names(mm, max(cands, key=lambda it: mm._declared_count(it, v)), v, depth + 1)
    return None


_PROP_NAMES: Dict[int, Set[str]] = {}
_HOOK_LITS: Dict[int, List[str]] = {}


def _all_property_names(mm: MetaModel) -> Set[str]:
    if id(mm) not in _PROP_NAMES:
        names: Set[str] = set()
        for sname in mm.structures:
            names |= {p["name"] for p in mm.flatten(sname)}

        def walk(t):
            if isinstance(t, dict):
                if t.get("kind") == "literal":
                    names.update(p["name"] for p in t["value"]["properties"])
                for v in t.values():
                    walk(v)
            elif isinstance(t, list):
                for v in t:
                    walk(v)

        walk(mm.doc if hasattr(mm, "doc") else {})
        _PROP_NAMES[id(mm)] = names
    return _PROP_NAMES[id(mm)]


def _hook_key_literals(mm: MetaModel) -> List[str]:
    """String constants of the hand-written hooks that are property names of the metamodel (the keys the hooks discriminate on)."""
    if id(mm) not in _HOOK_LITS:
        import ast
        import os

        repo = os.environ.get("VERIF_REPO", "/repo")
        lits: List[str] = []
        try:
            tree = ast.parse(open(os.path.join(repo, "packages", "python", "lsprotocol", "_hooks.py"), encoding="utf-8").read())
            every = _all_property_names(mm)
            for node in ast.walk(tree):
                if isinstance(node, ast.Constant) and isinstance(node.value, str) and node.value in every and node.value not in lits:
                    lits.append(node.value)
        except (OSError, SyntaxError):
            pass
        _HOOK_LITS[id(mm)] = sorted(lits)
    return _HOOK_LITS[id(mm)]


# ---------------------------------------------------------------------------------------------
# constructor path (C02)
# ---------------------------------------------------------------------------------------------


class Builder:
    def __init__(self, live, mm: MetaModel):
        self.live, self.mm = live, mm
        self._attr_of: Dict[Any, Dict[str, str]] = {}

    def attr_map(self, cls) -> Dict[str, str]:
        if cls not in self._attr_of:
            self._attr_of[cls] = {(self.live.wire_name(cls, a.name) or a.name): a.name for a in self.live.attrs.fields(cls)}
        return self._attr_of[cls]

    def build_props(self, cls, props: List[Dict], j: Dict) -> Any:
        amap = self.attr_map(cls)
        kwargs = {}
        for p in props:
            if p["name"] in j:
                an = amap[p["name"]]
                kwargs[an.lstrip("_") if an.startswith("_") else an] = self.build(p["type"], j[p["name"]])
        return cls(**kwargs)

    def build(self, t: Dict, j: Any, depth: int = 0) -> Any:
        mm, T = self.mm, self.live.types
        k = t["kind"]
        if k == "base":
            if t["name"] == "decimal" and isinstance(j, int) and not isinstance(j, bool):
                return float(j)
            return j
        if k == "stringLiteral":
            return j
        if k == "reference":
            n = t["name"]
            if n in ("LSPAny", "LSPObject", "LSPArray"):
                return j
            if n in mm.structures:
                return self.build_props(getattr(T, n), mm.flatten(n), j)
            if n in mm.enumerations:
                cls = getattr(T, n)
                try:
                    return cls(j)
                except ValueError:
                    return j
            return self.build(mm.aliases[n]["type"], j, depth + 1)
        if k == "array":
            return [self.build(t["element"], x, depth + 1) for x in j]
        if k == "tuple":
            return tuple(self.build(it, x, depth + 1) for it, x in zip(t["items"], j))
        if k == "map":
            return {kk: self.build(t["value"], vv, depth + 1) for kk, vv in j.items()}
        if k == "or":
            cands = [it for it in t["items"] if mm.valid(it, j, True)]
            if not cands:
                return j
            best = max(cands, key=lambda it: mm._declared_count(it, j))
            return self.build(best, j, depth + 1)
        if k == "literal":
            if not t["value"]["properties"]:
                return j
            from lib.tables import literal_class_finder

            cls = literal_class_finder(self.live, mm)(t)
            return self.build_props(cls, t["value"]["properties"], j)
        if k == "and":
            from lib.tables import literal_class_finder

            cls = literal_class_finder(self.live, mm)(t)
            return self.build_props(cls, mm.and_props(t), j)
        raise ValueError(k)


def norm_decl(mm: MetaModel, d: Decl, j: Dict) -> Dict:
    out = mm.norm_props(d.props, j)
    for p in d.props:
        if p.get("_always_written") and p["name"] not in out:
            out[p["name"]] = None
        if p.get("_absent") and out.get(p["name"]) is None:
            out.pop(p["name"], None)
    return out


# ---------------------------------------------------------------------------------------------
# objects reached THROUGH a union-typed property (C11 / C13: hand-written hooks decide what is checked there)
# ---------------------------------------------------------------------------------------------


def union_nested_sites(mm: MetaModel, t: Dict, depth: int = 0):
    """For a property type that contains a union with at least two non-null alternatives: every structure / literal alternative
    reachable through unions, aliases and arrays, as (props of the nested object, placement) where placement(nested) is a value
    of type t that contains `nested` at that alternative's position."""
    from lib.unions import alternatives

    def has_union(x, d=0) -> bool:
        x = mm.resolve_alias(x)
        if d > 6:
            return False
        if x["kind"] == "or":
            return len([i for i in alternatives(mm, x) if not (i["kind"] == "base" and i["name"] == "null")]) >= 2 or any(has_union(i, d + 1) for i in x["items"])
        if x["kind"] == "array":
            return has_union(x["element"], d + 1)
        return False

    if not has_union(t):
        return

    def walk(x, place, d):
        x = mm.resolve_alias(x)
        if d > 6:
            return
        k = x["kind"]
        if k == "or":
            for it in x["items"]:
                yield from walk(it, place, d + 1)
        elif k == "array":
            yield from walk(x["element"], lambda v, place=place: place([v]), d + 1)
        elif k == "reference" and x["name"] in mm.structures:
            yield x, mm.flatten(x["name"]), place
        elif k == "literal" and x["value"]["properties"]:
            yield x, mm.literal_props(x), place

    yield from walk(t, lambda v: v, depth)


def deep_parse_inputs(mm: MetaModel, d: Decl) -> List[Any]:
    """Valid values of d whose LSPAny-typed properties carry a payload nested DEEP levels (for checks that only structure)."""
    t = decl_type(d)
    base = mm.witness(t, True)
    out: List[Any] = []
    if not isinstance(base, dict):
        return out
    for p in d.props:
        kind = _is_any(mm, p["type"])
        if kind:
            payload = deep_payload(DEEP)
            if kind == "LSPArray":
                payload = [payload]
            elif kind == "LSPObject" and not isinstance(payload, dict):
                payload = {"p": payload}
            v = dict(base)
            v[p["name"]] = payload
            out.append(v)
    return out


def subclass_probe(live, mm: MetaModel, decls) -> List[Dict[str, Any]]:
    """A user subclass of a generated class (here: an empty subclass with the SAME name, the harder case for name-keyed tables) must be
    structured into an instance of the subclass and serialise exactly like the generated class.  Returns problems
    {'class', 'kind': 'type' | 'serialisation' | 'raises', 'detail', 'input'}."""
    from oracle.native import json_diff

    conv = live.converter
    out: List[Dict[str, Any]] = []
    for d in decls:
        cls = getattr(live.types, d.pyname, None)
        if cls is None:
            continue
        try:
            sub = type(cls.__name__, (cls,), {})
        except TypeError:
            continue
        t = decl_type(d)
        for mx in (False, True):
            try:
                j = mm.witness(t, mx)
                base = conv.unstructure(conv.structure(j, cls))
            except Exception:  # noqa
                continue
            try:
                obj = conv.structure(j, sub)
                got = conv.unstructure(obj)
            except Exception as e:  # noqa
                out.append({"class": d.pyname, "kind": "raises", "detail": f"{type(e).__name__}: {str(e)[:120]}", "input": j})
                break
            if type(obj) is not sub:
                out.append({"class": d.pyname, "kind": "type", "detail": f"structure(j, <subclass of {d.pyname}>) returns a {type(obj).__module__}.{type(obj).__qualname__} that is not an instance of the requested subclass", "input": j})
                break
            diff = json_diff(base, got)
            if diff:
                out.append({"class": d.pyname, "kind": "serialisation", "detail": f"an instance of a subclass of {d.pyname} serialises differently from {d.pyname}: {diff}", "input": j})
                break
    return out
