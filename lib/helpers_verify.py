"""Shared glue: generator decision helpers under contract."""
from __future__ import annotations

def verify_helper_items(run, stats, world, interp, items):
    """Generator decision helpers under contract (all inputs); a failing one is reported with the solver's model."""
    from lib.smtrun import verify

    for fi, contract, label in items:
        def on_fail(o, label=label, contract=contract):
            m = {k: v for k, v in (o.model or {}).items() if not k.endswith(".oid")}
            base = {"key": f"{label}:post", "what": f"{label.split('::')[-1]} no longer satisfies its contract: {contract.note}", "model": m}
            try:
                w = native_replay(label, contract, o.model or {})
            except Exception as e:  # noqa
                w = None
                base["replay_error"] = repr(e)
            if w:
                base["what"] += f"; e.g. {w['call']} returns {w['observed']!r}, contract says {w['expected']!r}"
                base.update(w)
                return True, base
            return False, base
        verify(run, stats, world, interp, fi, contract, label, on_fail, lambda msg, label=label: run.notes.append(f"{label}: outside the verified subset ({msg}); covered by the table / item comparison only"))


def verify_report(run, stats, world, rep, label, what):
    """Discharge a relational-contract report (vc.generate_post) and route failures."""
    from pyvc import vc as _vc

    if rep is None:
        run.notes.append(f"{label} not found")
        return
    stats.functions.append(label)
    if rep.unsupported:
        stats.unsupported.append(f"{label}: {rep.unsupported}")
        run.notes.append(f"{label}: outside the verified subset ({rep.unsupported}); covered by the item comparison only")
        return
    stats.solver_s += _vc.solve(world, rep.obligations)
    posts = [o for o in rep.obligations if o.expect == "unsat"]
    stats.obligations += len(posts)
    stats.discharged += len([o for o in posts if o.answer == "unsat"])
    for o in posts:
        if o.answer == "unsat":
            stats.by_backend[o.backend] += 1
        elif o.answer == "sat":
            m = {k: v for k, v in (o.model or {}).items() if not k.endswith(".oid")}
            run.violation(f"{label}:post", f"{what} ({o.meta.get('impl')})", {"model": m, "path": o.meta, "solver_output": o.solver_output[-800:]}, False)
        else:
            run.undecide(f"{o.name}: {o.answer}")


def verify_field_validator(run, stats):
    from contracts import genhelpers as gh
    from pyvc import vc as _vc

    world, rep = gh.field_validator_report()
    label = f"{gh.PY_REL}::_generate_field_validator"
    if rep is None:
        run.notes.append(f"{label} not found")
        return
    stats.functions.append(label)
    if rep.unsupported:
        stats.unsupported.append(f"{label}: {rep.unsupported}")
        run.notes.append(f"{label}: outside the verified subset ({rep.unsupported}); covered by the validator facet of the table only")
        return
    stats.solver_s += _vc.solve(world, rep.obligations)
    posts = [o for o in rep.obligations if o.expect == "unsat"]
    stats.obligations += len(posts)
    stats.discharged += len([o for o in posts if o.answer == "unsat"])
    for o in posts:
        if o.answer == "unsat":
            stats.by_backend[o.backend] += 1
        elif o.answer == "sat":
            m = {k: v for k, v in (o.model or {}).items() if not k.endswith(".oid")}
            try:
                native = field_validator_native_search()
            except Exception as e:  # noqa
                native = []
                run.notes.append(f"native search for {label} raised {e!r}")
            what = f"_generate_field_validator emits a field definition that does not carry the validator / default the statement requires ({o.meta.get('impl')})"
            if native:
                what += f"; e.g. {native[0]['call']} returns {native[0]['observed']!r}"
            run.violation(f"{label}:post", what, {"model": m, "path": o.meta, "native_failures": native[:4], "solver_output": o.solver_output[-800:]}, bool(native))
            break
        else:
            run.undecide(f"{o.name}: {o.answer}")


def verify_member_contract(run, stats, dp, what_failed: str, stand_in: str) -> None:
    """A plugin's generate_property under its relational contract (module dp: LABEL, ASSUMED, report(), native_replay()); reachability
    first, then the postconditions of the reachable paths, in parallel solver processes; failures are replayed on the real function."""
    world, rep = dp.report()
    if rep is None:
        run.notes.append(f"{dp.LABEL} not found; {stand_in}")
        return
    stats.functions.append(dp.LABEL)
    if rep.unsupported:
        stats.unsupported.append(f"{dp.LABEL}: {rep.unsupported}")
        run.notes.append(f"{dp.LABEL}: outside the verified subset ({rep.unsupported}); {stand_in}")
        return
    if not rep.obligations:
        run.crash(f"{dp.LABEL}: zero obligations generated")
        return
    from contracts.dotnet_property import solve_parallel

    stats.solver_s += solve_parallel(world, rep)
    reach = [o for o in rep.obligations if o.kind == "reach"]
    posts = [o for o in rep.obligations if o.expect == "unsat" and o.backend != "unreachable-path"]
    stats.reach_total += len(reach)
    stats.reach_sat += len([o for o in reach if o.answer == "sat"])
    if not any(o.answer == "sat" for o in reach):
        run.crash(f"{dp.LABEL}: no reachable path (vacuous contract)")
        return
    stats.obligations += len(posts)
    stats.discharged += len([o for o in posts if o.answer == "unsat"])
    for o in posts:
        if o.answer == "unsat":
            stats.by_backend[o.backend] += 1
    if posts and len(stats.samples) < 12:
        from lib.report import ob_sample

        stats.samples.append(ob_sample(posts[0]))
    for a in dp.ASSUMED:
        run.assume("assumed callee contract (generate_property): " + a)
    for a in getattr(dp, "DISCHARGED", []):
        run.notes.append("callee contract used by generate_property and proved in the same run: " + a)
    if run.tier == "thorough":
        # every decided obligation once more on cvc5 (chunks in parallel); a disagreement is a checker error
        import concurrent.futures as cf
        from pyvc import vc as _vc

        decided = [o for o in rep.obligations if o.answer in ("sat", "unsat") and o.backend != "unreachable-path"]
        chunks = [decided[i::16] for i in range(16) if decided[i::16]]
        with cf.ThreadPoolExecutor(max_workers=16) as ex:
            results = list(ex.map(lambda ch: _vc.cross_check(world, ch, "cvc5", 20000), chunks))
        c = stats.cross.setdefault("cvc5", {"agree": 0, "disagree": []})
        for agree, dis, dt in results:
            stats.solver_s += dt
            c["agree"] += agree
            c["disagree"].extend(dis)
            for d in dis:
                run.crash(f"solver disagreement: {d}")
    failed = [o for o in posts if o.answer == "sat"]
    for o in [o for o in rep.obligations if o.expect == "unsat" and o.answer not in ("sat", "unsat")]:
        run.undecide(f"{o.name}: solver answered {o.answer}")
    if failed:
        o = failed[0]
        stats.failed.extend(x.name for x in failed)
        try:
            native = dp.native_replay(o.model or {})
        except Exception as e:  # noqa
            native = []
            run.notes.append(f"native replay of {dp.LABEL} raised {e!r}")
        m = {k: v for k, v in (o.model or {}).items() if not k.endswith(".oid")}
        what = what_failed
        if native:
            shown = {k: v for k, v in native[0].items() if k not in ("lines", "observed")}
            what += f"; e.g. {shown} gives {native[0].get('lines', native[0].get('observed'))}"
        run.violation(f"{dp.LABEL}:post", what, {"model": m, "path": o.meta, "failed_paths": len(failed), "native_failures": native[:4], "solver_output": o.solver_output[-800:]}, bool(native))



def field_validator_native_search():
    """The contract of _generate_field_validator evaluated on the real function over the finite grid kind x base name x literal value x optional."""
    import importlib
    import os
    import sys
    from types import SimpleNamespace as NS

    from contracts.genhelpers import VALIDATOR_TOKENS

    repo = os.environ.get("VERIF_REPO", "/repo")
    if repo not in sys.path:
        sys.path.insert(0, repo)
    for m in [m for m in list(sys.modules) if m == "generator" or m.startswith("generator.")]:
        f = getattr(sys.modules[m], "__file__", "") or ""
        if not f.startswith(repo + os.sep):
            del sys.modules[m]
    fn = importlib.import_module("generator.plugins.python.utils")._generate_field_validator
    fails = []
    toks = sorted(set(VALIDATOR_TOKENS.values()))
    for kind in ("base", "reference", "array", "map", "and", "or", "tuple", "literal", "stringLiteral"):
        for name in (list(VALIDATOR_TOKENS) + ["null"]) if kind == "base" else ["X"]:
            for value in ("create", "") if kind == "stringLiteral" else ("",):
                for optional in (False, True, None):
                    t = NS(kind=kind, name=name, value=value, items=[])
                    call = f"_generate_field_validator({{kind: {kind!r}, name: {name!r}, value: {value!r}}}, {optional!r})"
                    try:
                        r = fn(t, optional)
                    except Exception as e:  # noqa
                        fails.append({"call": call, "observed": f"raises {type(e).__name__}: {e}"})
                        continue
                    if kind == "stringLiteral":
                        ok = any(f"in_([{q}{value}{q}])" in r for q in "'\"") and any(f"default={q}{value}{q}" in r for q in "'\"")
                    else:
                        want = VALIDATOR_TOKENS.get(name) if kind == "base" else None
                        ok = all((tok in r) == (tok == want) for tok in toks) and (("default=None" in r) == bool(optional)) and (bool(optional) or "attrs.validators.optional(" not in r) and (not (optional and want) or "attrs.validators.optional(" in r)
                    if not (ok and isinstance(r, str) and "attrs.field(" in r):
                        fails.append({"call": call, "observed": r})
    return fails


# ---------------------------------------------------------------------------------------------
# native replay of helper counterexamples
# ---------------------------------------------------------------------------------------------


def _typedef(model, prefix):
    from types import SimpleNamespace as NS

    def g(k, d):
        v = model.get(k)
        return d if v is None else v

    n = int(g(f"{prefix}.oid.items.len", 0))
    n = max(0, min(n, 4))
    items = []
    for i in range(n):
        which = i if i < 2 else ("w" if i == n - 1 else "*")
        items.append(_typedef(model, f"{prefix}.oid.items<{which}>") if f"{prefix}.oid.items<{which}>.oid.kind.s" in model or f"{prefix}.oid.items<{which}>.oid.name.s" in model else NS(kind="reference", name="X", value="", items=[]))
    return NS(kind=str(g(f"{prefix}.oid.kind.s", "reference")), name=str(g(f"{prefix}.oid.name.s", "X")), value=str(g(f"{prefix}.oid.value.s", "")), items=items)


def _list_of_typedefs(model, prefix):
    from types import SimpleNamespace as NS

    n = max(0, min(int(model.get(f"{prefix}.len", 0) or 0), 4))
    out = []
    for i in range(n):
        which = i if i < 2 else ("w" if i == n - 1 else "*")
        p = f"{prefix}<{which}>"
        out.append(NS(kind=str(model.get(f"{p}.oid.kind.s", "reference")), name=str(model.get(f"{p}.oid.name.s", "X")), value="", items=[]))
    return out


def _null_member(t, kinds):
    return t.kind in kinds and any(i.kind == "base" and i.name == "null" for i in t.items)


def native_replay(label, contract, model):
    import importlib
    import os
    import sys
    from types import SimpleNamespace as NS

    repo = os.environ.get("VERIF_REPO", "/repo")
    if repo not in sys.path:
        sys.path.insert(0, repo)
    rel, fname = label.split("::")
    modname = rel[:-3].replace("/", ".")
    for m in [m for m in list(sys.modules) if m == "generator" or m.startswith("generator.")]:
        f = getattr(sys.modules[m], "__file__", "") or ""
        if not f.startswith(repo + os.sep):
            del sys.modules[m]
    mod = importlib.import_module(modname)
    fn = getattr(mod, fname)
    if fname in ("_has_null_base_type", "_is_special_field", "is_special_property"):
        t = _typedef(model, "prop.oid.type" if fname != "is_special_property" else "prop_def.oid.type")
        arg = NS(name="p", type=t, optional=None)
        kinds = ("or",) if fname != "is_special_property" else ("or", "tuple")
        exp = _null_member(t, kinds) or (fname == "_is_special_field" and t.kind == "stringLiteral")
        shown = f"{fname}(Property(type={{kind: {t.kind!r}, items: {[(i.kind, i.name) for i in t.items]}}}))"
    elif fname == "is_special":
        t = _typedef(model, "type_def")
        arg = t
        exp = _null_member(t, ("or", "tuple"))
        shown = f"is_special({{kind: {t.kind!r}, items: {[(i.kind, i.name) for i in t.items]}}})"
    elif fname == "has_null_base_type":
        arg = _list_of_typedefs(model, "items")
        exp = any(i.kind == "base" and i.name == "null" for i in arg)
        shown = f"has_null_base_type({[(i.kind, i.name) for i in arg]})"
    else:
        return None
    try:
        got = fn(arg)
    except Exception as e:  # noqa
        got = f"raises {type(e).__name__}: {e}"
    if got != exp:
        return {"call": shown, "observed": got, "expected": exp}
    return None
