"""Glue: verify a list of (function, contract) pairs, route failures to replay callbacks, collect evidence."""
from __future__ import annotations

import ast
import concurrent.futures as cf
import os
from collections import Counter
from typing import Any, Callable, Dict, List, Optional, Tuple

from pyvc import vc
from pyvc.symex import Contract, FunctionInfo, Interp, World

from .report import Run, ob_sample


class SmtStats:
    def __init__(self):
        self.functions: List[str] = []
        self.obligations = 0
        self.discharged = 0
        self.reach_sat = 0
        self.reach_total = 0
        self.by_backend: Counter = Counter()
        self.solver_s = 0.0
        self.samples: List[Dict[str, Any]] = []
        self.unsupported: List[str] = []
        self.failed: List[str] = []
        self.cross: Dict[str, Any] = {}

    def coverage(self) -> Dict[str, Any]:
        return {
            "functions_under_contract": self.functions,
            "smt_obligations": self.obligations,
            "smt_discharged": self.discharged,
            "smt_by_backend": dict(self.by_backend),
            "smt_solver_s": round(self.solver_s, 3),
            "paths_reachable": self.reach_sat,
            "paths_total": self.reach_total,
            "outside_subset": self.unsupported,
            "failed_obligations": self.failed,
            "cross_check": self.cross,
        }


def verify(
    run: Run,
    stats: SmtStats,
    world: World,
    interp: Interp,
    fi: FunctionInfo,
    contract: Contract,
    label: str,
    on_fail: Callable[[vc.Obligation], Tuple[bool, Dict[str, Any]]],
    on_unsupported: Optional[Callable[[str], None]] = None,
    solvers=("z3", "cvc5"),
    timeout_ms: int = 10000,
) -> vc.FunctionReport:
    """on_fail(obligation) -> (failing_input_found, detail) ; called once per failed obligation."""
    rep = vc.generate(world, interp, fi, contract, label)
    stats.functions.append(label)
    if rep.unsupported:
        stats.unsupported.append(f"{label}: {rep.unsupported}")
        if on_unsupported:
            on_unsupported(rep.unsupported)
        else:
            run.undecide(f"{label} is outside the verified subset: {rep.unsupported}")
        return rep
    if not rep.obligations:
        run.crash(f"{label}: zero obligations generated")
        return rep
    stats.solver_s += vc.solve(world, rep.obligations, solvers=solvers, timeout_ms=timeout_ms)
    posts = [o for o in rep.obligations if o.expect == "unsat"]
    reach = [o for o in rep.obligations if o.kind == "reach"]
    stats.obligations += len(posts)
    stats.discharged += len([o for o in posts if o.answer == "unsat"])
    stats.reach_total += len(reach)
    stats.reach_sat += len([o for o in reach if o.answer == "sat"])
    for o in posts:
        if o.answer == "unsat":
            stats.by_backend[o.backend] += 1
    if reach and not any(o.answer == "sat" for o in reach):
        run.crash(f"{label}: no reachable path under the precondition (vacuous contract)")
    if len(stats.samples) < 12:
        reachable = {o.meta.get("path") for o in reach if o.answer == "sat"}
        for o in posts:
            if o.meta.get("path") in reachable:
                stats.samples.append(ob_sample(o))
                break
    for o in rep.undecided:
        if o.expect == "unsat":
            run.undecide(f"{o.name}: solver answered {o.answer}")
    seen_paths = set()
    for o in rep.failed:
        stats.failed.append(o.name)
        found, detail = on_fail(o)
        detail = dict(detail)
        detail.setdefault("solver", o.backend)
        detail.setdefault("solver_output", o.solver_output)
        detail.setdefault("smt_model", o.model)
        detail.setdefault("path", o.meta)
        key = detail.pop("key", None) or f"{label}:{o.kind}"
        what = detail.pop("what", None) or f"obligation {o.name} not discharged ({o.meta.get('impl')} vs spec {o.meta.get('spec')})"
        run.violation(key, what, detail, failing_input_found=found)
    if run.tier == "thorough" and rep.obligations:
        other = "cvc5" if solvers[0].startswith("z3") else "z3"
        agree, dis, dt = vc.cross_check(world, rep.obligations, other, timeout_ms)
        stats.solver_s += dt
        c = stats.cross.setdefault(other, {"agree": 0, "disagree": []})
        c["agree"] += agree
        c["disagree"].extend(dis)
        for d in dis:
            run.crash(f"solver disagreement: {d}")
    return rep
