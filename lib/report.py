"""Run bookkeeping shared by all property checks: violations, known findings, replay files, evidence."""
from __future__ import annotations

import hashlib
import json
import os
import re
import sys
import time
from typing import Any, Dict, List, Optional

VERIF = os.path.dirname(os.path.dirname(os.path.abspath(__file__)))
REPO = os.environ.get("VERIF_REPO", "/repo")
KNOWN = os.path.join(VERIF, "known_findings.jsonl")

EXIT_OK, EXIT_VIOLATION, EXIT_UNDECIDED, EXIT_CRASH = 0, 1, 2, 3


def load_known() -> List[Dict[str, Any]]:
    out = []
    if os.path.exists(KNOWN):
        for ln in open(KNOWN, encoding="utf-8"):
            ln = ln.strip()
            if ln and not ln.startswith("#"):
                out.append(json.loads(ln))
    return out


def _slug(s: str) -> str:
    s2 = re.sub(r"[^A-Za-z0-9_.-]+", "_", s)[:80]
    return s2 + "-" + hashlib.sha1(s.encode()).hexdigest()[:8]


class Run:
    def __init__(self, pid: str, level: str, argv: Optional[List[str]] = None):
        self.pid = pid
        self.level = level
        self.tier = os.environ.get("VERIF_TIER", "quick")
        if argv and "--tier" in argv:
            self.tier = argv[argv.index("--tier") + 1]
            os.environ["VERIF_TIER"] = self.tier
        if self.tier not in ("quick", "thorough"):
            self.tier = "quick"
        try:
            self.seed = int(os.environ.get("VERIF_SEED", "0"))
        except ValueError:
            self.seed = 0
        self.t0 = time.time()
        self.known = [k for k in load_known() if k.get("property") == pid and k.get("status", "known") == "known"]
        self.violations: List[Dict[str, Any]] = []
        self.known_hits: List[Dict[str, Any]] = []
        self.undecided: List[str] = []
        self.crashes: List[str] = []
        self.assumptions: List[str] = []
        self.notes: List[str] = []
        self.replay_dir = os.path.join(os.environ.get("VERIF_REPLAY_DIR") or os.path.join(VERIF, "replays"), pid)

    # ------------------------------------------------------------------ reporting
    def violation(self, key: str, what: str, detail: Dict[str, Any], failing_input_found: bool = True):
        """Report a failed obligation.  key: stable obligation identity (no line numbers)."""
        for k in self.known:
            if k["key"] == key:
                if not any(h["key"] == key for h in self.known_hits):
                    self.known_hits.append({"key": key, "what": k.get("what", what)})
                    print(f"KNOWN-FINDING: property={self.pid} {key}: {k.get('what', what)}")
                return
        if any(v["key"] == key for v in self.violations):
            return
        os.makedirs(self.replay_dir, exist_ok=True)
        path = os.path.join(self.replay_dir, _slug(key) + ".json")
        body = {"property": self.pid, "obligation": key, "what": what, "failing_input_found": failing_input_found}
        body.update(detail)
        with open(path, "w", encoding="utf-8", errors="backslashreplace") as f:  # a witness may contain lone surrogates: the report must still be written
            json.dump(body, f, indent=1, default=str, ensure_ascii=False)
        self.violations.append({"key": key, "what": what, "replay": path, "found": failing_input_found})
        tail = "" if failing_input_found else " no-failing-input-found"
        print(f"VIOLATION property={self.pid} replay={path}{tail}")
        print(f"  obligation: {key}\n  what: {what}")
        sys.stdout.flush()

    def undecide(self, msg: str):
        self.undecided.append(msg)
        print(f"UNDECIDED property={self.pid} {msg}")

    def crash(self, msg: str):
        self.crashes.append(msg)
        print(f"CHECKER-ERROR property={self.pid} {msg}")

    def assume(self, *items: str):
        for i in items:
            if i not in self.assumptions:
                self.assumptions.append(i)

    # ------------------------------------------------------------------ evidence
    def finish(self, coverage: Dict[str, Any]) -> int:
        wall = time.time() - self.t0
        coverage = dict(coverage)
        coverage.setdefault("known_findings_matched", [h["key"] for h in self.known_hits])
        if "obligations" in coverage and "discharged" in coverage and coverage["discharged"] < coverage["obligations"] and not self.violations and not self.undecided and not self.crashes and self.known_hits:
            # every obligation that is not discharged belongs to a recorded known finding: they are listed, not claimed
            coverage["obligations_generated"] = coverage["obligations"]
            coverage["obligations_failing_as_known_findings"] = coverage["obligations"] - coverage["discharged"]
            coverage["obligations"] = coverage["discharged"]
        coverage.setdefault("undecided", self.undecided[:50])
        if self.notes:
            coverage.setdefault("notes", self.notes[:50])
        ev = {
            "property_id": self.pid,
            "tier": self.tier,
            "seed": self.seed,
            "level": self.level,
            "coverage": coverage,
            "assumptions": self.assumptions,
            "wall_s": round(wall, 3),
            "violations": len(self.violations),
        }
        evdir = os.environ.get("VERIF_EVIDENCE_DIR") or os.path.join(VERIF, "evidence")
        os.makedirs(evdir, exist_ok=True)
        with open(os.path.join(evdir, f"{self.pid}.json"), "w", encoding="utf-8", errors="backslashreplace") as f:
            json.dump(ev, f, indent=1, default=str, ensure_ascii=False)
        if self.violations:
            # a violation was replayed / re-decided on its own: a crash in another part of the same run (reported above as CHECKER-ERROR) does not take it back
            code = EXIT_VIOLATION
        elif self.crashes:
            code = EXIT_CRASH
        elif self.undecided:
            code = EXIT_UNDECIDED
        else:
            code = EXIT_OK
        print(
            f"[{self.pid}] tier={self.tier} violations={len(self.violations)} known={len(self.known_hits)} "
            f"undecided={len(self.undecided)} crashes={len(self.crashes)} wall={wall:.1f}s exit={code}"
        )
        return code


def ob_sample(o) -> Dict[str, Any]:
    return {
        "name": o.name,
        "kind": o.kind,
        "expect": o.expect,
        "answer": o.answer,
        "backend": o.backend,
        "impl": o.meta.get("impl"),
        "spec": o.meta.get("spec"),
        "smt": (" ".join(o.asserts))[:600],
    }
